//! C07 probe: a no-libc executable started through tiny-std's real entry point (`_start` ->
//! `__proxy_main` -> `resolve` [-> self-relocation in the static-PIE link mode] -> `main`).
//! It echoes what the public API reports about the start-up data; nothing is decided here - the
//! output is turned into a trace by lib/checks/c07.py and judged by TLC (specs/StartupJudge.tla).
//!
//! stdin: one lookup key per line, hex encoded ("-" = the empty key); lines "it <o|s> <op>,<op>,..." are iterator
//! scripts (ops: n = next, h<k> = nth(k), l = len, z = size_hint, t<k> = by_ref().take(k) collected,
//! p<k> = by_ref().skip(k) collected, s = by_ref().step_by(2) collected, L = last, K = count, C = collect).  The launcher reads
//! /proc/<pid>/{auxv,cmdline,environ,mem} while this process blocks on stdin.
//! stdout (one item per line, all byte strings hex encoded, "-" = empty):
//!   argc <args_os().len()> <args().len()>
//!   argos <hex>                       per item of args_os()
//!   arg ok <hex> | arg err            per item of args()
//!   var <keyhex> ok <hex>|missing|notunicode          env::var(key)   (only for UTF-8 keys)
//!   varu <keyhex> ok <hex>|missing|notunicode         env::var_unix(key)
//!   uid <n> / gid <n> / random <hex>|none / execfn <hex>|none      (or "noaux" when built without feature aux)
//!   reloc <i> <hex>                   the strings two pointer tables (one in .data.rel.ro, one in .data)
//!                                     point to - every table word needs a RELATIVE relocation in PIE modes
//!   clock mono|real <s> <ns> <s> <ns> <s> <ns>        syscall, tiny-std (vDSO when found), syscall
//!   iter <o|s> <script> <obs>|<obs>|...                the Iterator surface of args_os() (o) / args() (s), see run_script
//!   done
#![no_std]
#![no_main]

use rusl::platform::Fd;
use rusl::string::unix_str::UnixStr;
use tiny_std::env::VarError;

static mut OUT: [u8; 1 << 16] = [0; 1 << 16];
static mut OUT_LEN: usize = 0;

fn flush() {
    unsafe {
        let mut off = 0;
        while off < OUT_LEN {
            let p = core::ptr::addr_of!(OUT).cast::<u8>().add(off);
            let sl = core::slice::from_raw_parts(p, OUT_LEN - off);
            match rusl::unistd::write(Fd::try_new(1).unwrap(), sl) {
                Ok(k) => off += k,
                Err(_) => break,
            }
        }
        OUT_LEN = 0;
    }
}
fn putb(b: u8) {
    unsafe {
        if OUT_LEN >= (1 << 16) {
            flush();
        }
        core::ptr::addr_of_mut!(OUT).cast::<u8>().add(OUT_LEN).write(b);
        OUT_LEN += 1;
    }
}
fn puts(s: &str) {
    for b in s.bytes() {
        putb(b);
    }
}
fn putu(mut u: u64) {
    let mut tmp = [0u8; 20];
    let mut k = 0;
    loop {
        tmp[k] = b'0' + (u % 10) as u8;
        u /= 10;
        k += 1;
        if u == 0 {
            break;
        }
    }
    while k > 0 {
        k -= 1;
        putb(tmp[k]);
    }
}
fn puti(v: i64) {
    if v < 0 {
        putb(b'-');
    }
    putu(v.unsigned_abs());
}
fn puthex(bytes: &[u8]) {
    if bytes.is_empty() {
        putb(b'-');
    }
    for b in bytes {
        putb(b"0123456789abcdef"[(b >> 4) as usize]);
        putb(b"0123456789abcdef"[(b & 15) as usize]);
    }
}
/// the bytes of a UnixStr without its terminator
fn content(u: &UnixStr) -> &[u8] {
    let s = u.as_slice();
    &s[..s.len() - 1]
}

/// Pointer tables: in the position-independent link modes every entry is a word that start-up
/// relocation has to fix up (R_X86_64_RELATIVE).  The read-only one lands in .data.rel.ro, the
/// mutable one in .data - lib/checks/c07.py reports where they lie among the relocated words.
static TABLE_RO: [&[u8]; 8] = [b"ro0", b"ro1", b"ro2", b"ro3", b"ro4", b"ro5", b"ro6", b"ro7"];
static mut TABLE_RW: [&[u8]; 8] = [b"rw0", b"rw1", b"rw2", b"rw3", b"rw4", b"rw5", b"rw6", b"rw7"];
// A third table in a "large" data section (SHF_X86_64_LARGE): the linker places such sections behind
// .bss, so these are the words with the highest addresses that need relocation - the LAST entries of
// .rela.dyn (without it the last entry is DW.ref.rust_eh_personality, which nothing reads).
core::arch::global_asm!(
    ".section .rodata.verif_last_strs,\"a\",@progbits",
    "verif_la0: .asciz \"la0\"",
    "verif_la1: .asciz \"la1\"",
    "verif_la2: .asciz \"la2\"",
    "verif_la3: .asciz \"la3\"",
    ".section .ldata.verif_last,\"awl\",@progbits",
    ".p2align 3",
    ".globl VERIF_TABLE_LAST",
    ".hidden VERIF_TABLE_LAST",
    "VERIF_TABLE_LAST:",
    ".quad verif_la0",
    ".quad verif_la1",
    ".quad verif_la2",
    ".quad verif_la3",
    ".text"
);
extern "C" {
    static VERIF_TABLE_LAST: [*const u8; 4];
}

static mut INP: [u8; 1 << 15] = [0; 1 << 15];

fn read_stdin() -> &'static [u8] {
    unsafe {
        let buf = core::slice::from_raw_parts_mut(core::ptr::addr_of_mut!(INP).cast::<u8>(), 1 << 15);
        let mut len = 0;
        loop {
            match rusl::unistd::read(Fd::try_new(0).unwrap(), &mut buf[len..]) {
                Ok(0) | Err(_) => break,
                Ok(k) => len += k,
            }
            if len == buf.len() {
                break;
            }
        }
        core::slice::from_raw_parts(core::ptr::addr_of!(INP).cast::<u8>(), len)
    }
}
fn unhex(c: u8) -> u8 {
    match c {
        b'0'..=b'9' => c - b'0',
        b'a'..=b'f' => c - b'a' + 10,
        _ => 0,
    }
}

fn put_ts(ts: &rusl::platform::TimeSpec) {
    putb(b' ');
    puti(ts.seconds());
    putb(b' ');
    puti(ts.nanoseconds());
}

/// One observation per op, separated by '|': I<hex> / IE (item, IE = Err of args()), N (None), #<n>, H<lo>,<hi or N>,
/// [<el>;<el>;...] (el = hex or E; a trailing '!' = stopped after 64 items: the adapter did not terminate).
fn run_script<I: ExactSizeIterator>(mut it: I, toks: &[u8], put_item: fn(I::Item)) {
    fn put_list<J: Iterator>(j: J, put_item: fn(J::Item)) {
        putb(b'[');
        let mut n = 0;
        for x in j {
            if n > 0 {
                putb(b';');
            }
            if n == 64 {
                putb(b'!');
                break;
            }
            put_item(x);
            n += 1;
        }
        putb(b']');
    }
    let mut first = true;
    for tok in toks.split(|c| *c == b',') {
        if tok.is_empty() {
            continue;
        }
        if !first {
            putb(b'|');
        }
        first = false;
        let k = if tok.len() > 1 { usize::from(tok[1] - b'0') } else { 0 };
        match tok[0] {
            b'n' | b'h' | b'L' => {
                let x = match tok[0] {
                    b'n' => it.next(),
                    b'h' => it.nth(k),
                    _ => it.by_ref().last(),
                };
                match x {
                    Some(x) => {
                        putb(b'I');
                        put_item(x);
                    }
                    None => putb(b'N'),
                }
            }
            b'l' => {
                putb(b'#');
                putu(it.len() as u64);
            }
            b'K' => {
                putb(b'#');
                putu(it.by_ref().count() as u64);
            }
            b'z' => {
                let (lo, hi) = it.size_hint();
                putb(b'H');
                putu(lo as u64);
                putb(b',');
                match hi {
                    Some(h) => putu(h as u64),
                    None => putb(b'N'),
                }
            }
            b't' => put_list(it.by_ref().take(k), put_item),
            b'p' => put_list(it.by_ref().skip(k), put_item),
            b's' => put_list(it.by_ref().step_by(2), put_item),
            b'C' => put_list(it.by_ref(), put_item),
            _ => putb(b'?'),
        }
    }
}
fn put_os_item(a: &'static UnixStr) {
    puthex(content(a));
}
fn put_str_item(a: Result<&'static str, tiny_std::Error>) {
    match a {
        Ok(s) => puthex(s.as_bytes()),
        Err(_) => putb(b'E'),
    }
}

#[no_mangle]
pub fn main() -> i32 {
    // ---- arguments
    let a_os = tiny_std::env::args_os();
    let a = tiny_std::env::args();
    puts("argc ");
    putu(a_os.len() as u64);
    putb(b' ');
    putu(a.len() as u64);
    putb(b'\n');
    for arg in a_os {
        puts("argos ");
        puthex(content(arg));
        putb(b'\n');
    }
    for arg in a {
        match arg {
            Ok(s) => {
                puts("arg ok ");
                puthex(s.as_bytes());
            }
            Err(_) => puts("arg err"),
        }
        putb(b'\n');
    }
    // ---- aux values (tiny-std feature "aux" only)
    #[cfg(feature = "aux")]
    {
        puts("uid ");
        putu(u64::from(tiny_std::elf::aux::get_uid()));
        puts("\ngid ");
        putu(u64::from(tiny_std::elf::aux::get_gid()));
        puts("\nrandom ");
        match tiny_std::elf::aux::get_random() {
            Some(r) => puthex(&r.to_ne_bytes()),
            None => puts("none"),
        }
        puts("\nexecfn ");
        match tiny_std::elf::aux::get_exec_fn() {
            Some(f) => puthex(content(f)),
            None => puts("none"),
        }
        putb(b'\n');
    }
    #[cfg(not(feature = "aux"))]
    puts("noaux\n");
    // ---- relocated pointer tables
    for i in 0..20usize {
        let s: &[u8] = unsafe {
            if i < 8 {
                core::ptr::addr_of!(TABLE_RO).cast::<&[u8]>().add(core::hint::black_box(i)).read_volatile()
            } else if i < 16 {
                core::ptr::addr_of!(TABLE_RW).cast::<&[u8]>().add(core::hint::black_box(i - 8)).read_volatile()
            } else {
                let p = core::ptr::addr_of!(VERIF_TABLE_LAST).cast::<*const u8>().add(core::hint::black_box(i - 16)).read_volatile();
                core::slice::from_raw_parts(p, 3)
            }
        };
        puts("reloc ");
        putu(i as u64);
        putb(b' ');
        puthex(s);
        putb(b'\n');
    }
    // ---- clocks: direct system call, tiny-std's clock (vDSO function when it was found), system call
    {
        let t1 = rusl::time::clock_get_monotonic_time();
        let t2 = tiny_std::time::MonotonicInstant::now().as_instant();
        let t3 = rusl::time::clock_get_monotonic_time();
        puts("clock mono");
        put_ts(&t1);
        put_ts(t2.as_ref());
        put_ts(&t3);
        putb(b'\n');
        let r1 = rusl::time::clock_get_real_time();
        let r2 = tiny_std::time::SystemTime::now().duration_since_unix_time();
        let r3 = rusl::time::clock_get_real_time();
        puts("clock real");
        put_ts(&r1);
        putb(b' ');
        putu(r2.as_secs());
        putb(b' ');
        putu(u64::from(r2.subsec_nanos()));
        put_ts(&r3);
        putb(b'\n');
    }
    flush();
    // ---- environment lookups (keys on stdin)
    let inp = read_stdin();
    let mut key = [0u8; 600];
    for line in inp.split(|c| *c == b'\n') {
        if line.is_empty() {
            continue;
        }
        if line.len() > 5 && &line[..3] == b"it " {
            puts("iter ");
            putb(line[3]);
            putb(b' ');
            for b in &line[5..] {
                putb(*b);
            }
            putb(b' ');
            if line[3] == b'o' {
                run_script(tiny_std::env::args_os(), &line[5..], put_os_item);
            } else {
                run_script(tiny_std::env::args(), &line[5..], put_str_item);
            }
            putb(b'\n');
            continue;
        }
        let mut klen = 0;
        if line != b"-" {
            let mut i = 0;
            while i + 1 < line.len() && klen < 512 {
                key[klen] = (unhex(line[i]) << 4) | unhex(line[i + 1]);
                klen += 1;
                i += 2;
            }
        }
        key[klen] = 0;
        if let Ok(ks) = core::str::from_utf8(&key[..klen]) {
            puts("var ");
            puthex(&key[..klen]);
            match tiny_std::env::var(ks) {
                Ok(v) => {
                    puts(" ok ");
                    puthex(v.as_bytes());
                }
                Err(VarError::Missing) => puts(" missing"),
                Err(VarError::NotUnicode(_)) => puts(" notunicode"),
            }
            putb(b'\n');
        }
        if let Ok(ku) = UnixStr::try_from_bytes(&key[..=klen]) {
            puts("varu ");
            puthex(&key[..klen]);
            match tiny_std::env::var_unix(ku) {
                Ok(v) => {
                    puts(" ok ");
                    puthex(content(v));
                }
                Err(VarError::Missing) => puts(" missing"),
                Err(VarError::NotUnicode(_)) => puts(" notunicode"),
            }
            putb(b'\n');
        }
    }
    puts("done\n");
    flush();
    0
}
