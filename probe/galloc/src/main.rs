//! gaprobe — allocation workloads through tiny-std's REAL global allocator.
//!
//! The crate enables tiny-std's `global-allocator` feature: `alloc::alloc::{alloc, alloc_zeroed,
//! realloc, dealloc}` go through tiny-std's private `#[global_allocator] GlobalDlMalloc`
//! (`Mutex<Dlmalloc>`, `alloc_zeroed -> calloc`, `realloc -> realloc` under the lock) — the code
//! that no std-linked harness can compile.  No verification cfg is set: this is the production
//! composition.
//!
//! usage: gaprobe <script> <out>;  script lines:
//!   run idx= threads=<1..8> reps= nblocks= ops= seed= zeroed=<pct> realloc=<pct> xfree=0|1 burst=0|1
//!       sizes=<s,s,..> aligns=<a,a,..>
//! Workers 0..threads-1 (tiny-std threads created once at start-up) each run, per repetition:
//!   A allocate nblocks blocks (alloc / alloc_zeroed), B `ops` times: realloc a block or free it and
//!   allocate another, [barrier: main samples VmSize = the repetition's high mark], D verify and
//!   free everything (xfree=1: the NEXT worker's blocks — frees cross threads), [barrier: main
//!   samples VmSize = the repetition mark].  The per-worker RNG is re-seeded every repetition: the
//!   same workload is repeated.  Every block is filled with bytes derived from its id; the bytes are
//!   verified before every free / realloc (ok flag), a zeroed allocation is checked to be zero before
//!   it is filled (zero flag), the common prefix after a realloc (prefix flag).
//! Events (ndjson; numbers < 2^31): one line per operation with a global ticket `g` drawn right
//!   AFTER alloc/alloc_zeroed/realloc returned and right BEFORE dealloc (and `g0` right before
//!   realloc) is called — so a block is really live during [g(alloc), g(free)] and two blocks whose
//!   ticket intervals intersect were live at the same time; address split as hi = addr >> 28,
//!   lo = addr & (2^28-1).
#![no_std]
#![no_main]

extern crate alloc;

mod sys;

use alloc::alloc::{alloc, alloc_zeroed, dealloc, realloc};
use core::alloc::Layout;
use core::cell::UnsafeCell;
use core::sync::atomic::{AtomicI32, AtomicU32, AtomicU64, Ordering};

struct Racy<T>(UnsafeCell<T>);
unsafe impl<T> Sync for Racy<T> {}
impl<T> Racy<T> {
    const fn new(v: T) -> Self {
        Racy(UnsafeCell::new(v))
    }
    #[allow(clippy::mut_from_ref)]
    unsafe fn get(&self) -> &mut T {
        &mut *self.0.get()
    }
}

const NW: usize = 8;
const MAXB: usize = 256;
const LOGSZ: usize = 1 << 18;

static OUT_FD: AtomicI32 = AtomicI32::new(-1);
static TICKET: AtomicU64 = AtomicU64::new(1);
static NEXT_ID: AtomicU32 = AtomicU32::new(1);
/// single-threaded runs: the worker samples VmSize (pages) after every allocating call, so that the
/// high-water mark of a repetition is the real one and not only what is left at the barrier
static VM_HIGH: AtomicU64 = AtomicU64::new(0);
static SAMPLE_EVERY_CALL: AtomicU32 = AtomicU32::new(0);

#[inline]
fn sample_vm() {
    if SAMPLE_EVERY_CALL.load(Ordering::Relaxed) != 0 {
        let (vm, _) = sys::statm();
        VM_HIGH.fetch_max(vm, Ordering::SeqCst);
    }
}

#[inline]
fn ticket() -> u64 {
    TICKET.fetch_add(1, Ordering::SeqCst)
}

// ------------------------------------------------------------------------------------------
// per-thread log buffers (no allocation, whole lines only)
// ------------------------------------------------------------------------------------------
struct Log {
    buf: [u8; LOGSZ],
    n: usize,
}

impl Log {
    const fn new() -> Log {
        Log { buf: [0; LOGSZ], n: 0 }
    }
    fn flush(&mut self) {
        let fd = OUT_FD.load(Ordering::Relaxed);
        let mut off = 0;
        while fd >= 0 && off < self.n {
            let r = sys::write(fd, &self.buf[off..self.n]);
            if r <= 0 {
                break;
            }
            off += r as usize;
        }
        self.n = 0;
    }
    fn raw(&mut self, b: &[u8]) {
        for c in b {
            self.buf[self.n] = *c;
            self.n += 1;
        }
    }
    fn num(&mut self, mut v: u64) {
        let mut tmp = [0u8; 20];
        let mut i = 0;
        if v == 0 {
            tmp[0] = b'0';
            i = 1;
        }
        while v > 0 {
            tmp[i] = b'0' + (v % 10) as u8;
            v /= 10;
            i += 1;
        }
        while i > 0 {
            i -= 1;
            self.buf[self.n] = tmp[i];
            self.n += 1;
        }
    }
    fn begin(&mut self) {
        if self.n + 512 > LOGSZ {
            self.flush();
        }
        self.raw(b"{");
    }
    fn kv(&mut self, first: bool, k: &str, v: u64) {
        if !first {
            self.raw(b",");
        }
        self.raw(b"\"");
        self.raw(k.as_bytes());
        self.raw(b"\":");
        self.num(v);
    }
    fn ks(&mut self, first: bool, k: &str, v: &str) {
        if !first {
            self.raw(b",");
        }
        self.raw(b"\"");
        self.raw(k.as_bytes());
        self.raw(b"\":\"");
        self.raw(v.as_bytes());
        self.raw(b"\"");
    }
    fn end(&mut self) {
        self.raw(b"}\n");
    }
}

static LOGS: [Racy<Log>; NW + 1] = [const { Racy::new(Log::new()) }; NW + 1];

// ------------------------------------------------------------------------------------------
// blocks and their owner patterns
// ------------------------------------------------------------------------------------------
#[derive(Clone, Copy)]
struct Blk {
    ptr: *mut u8,
    size: usize,
    align: usize,
    id: u32,
}
const NOBLK: Blk = Blk { ptr: core::ptr::null_mut(), size: 0, align: 1, id: 0 };

#[inline]
fn pat(id: u32, j: usize) -> u8 {
    (id.wrapping_mul(131).wrapping_add((j as u32).wrapping_mul(7)).wrapping_add((j >> 8) as u32) as u8) | 1
}

const FULL: usize = 1 << 14;
const STAMP_EVERY: usize = 1 << 12;
const STAMP: usize = 64;
const EDGE: usize = 1024;

/// the byte ranges of a block that carry the pattern: everything up to 16 KiB, for larger blocks
/// the first and last 1 KiB and a 64-byte stamp every 4 KiB
fn for_ranges(from: usize, size: usize, f: &mut dyn FnMut(usize, usize)) {
    if size <= FULL {
        if from < size {
            f(from, size);
        }
        return;
    }
    let mut emit = |lo: usize, hi: usize| {
        let lo = lo.max(from);
        if lo < hi {
            f(lo, hi);
        }
    };
    emit(0, EDGE);
    let mut o = STAMP_EVERY;
    while o + STAMP < size - EDGE {
        emit(o, o + STAMP);
        o += STAMP_EVERY;
    }
    emit(size - EDGE, size);
}

unsafe fn fill(b: &Blk, from: usize) {
    for_ranges(from, b.size, &mut |lo, hi| {
        for j in lo..hi {
            b.ptr.add(j).write_volatile(pat(b.id, j));
        }
    });
}

/// do bytes [0, upto) (pattern ranges only) still hold the owner's pattern?
unsafe fn verify(b: &Blk, upto: usize) -> bool {
    let mut ok = true;
    for_ranges(0, b.size, &mut |lo, hi| {
        let hi = hi.min(upto);
        for j in lo..hi {
            if b.ptr.add(j).read_volatile() != pat(b.id, j) {
                ok = false;
            }
        }
    });
    ok
}

unsafe fn all_zero(p: *mut u8, size: usize) -> bool {
    // a zeroed allocation must be zero everywhere: check every byte (sizes are bounded by the plans)
    let mut j = 0;
    while j + 8 <= size && (p as usize + j) % 8 != 0 {
        if p.add(j).read_volatile() != 0 {
            return false;
        }
        j += 1;
    }
    while j + 8 <= size {
        if p.add(j).cast::<u64>().read_volatile() != 0 {
            return false;
        }
        j += 8;
    }
    while j < size {
        if p.add(j).read_volatile() != 0 {
            return false;
        }
        j += 1;
    }
    true
}

// ------------------------------------------------------------------------------------------
// plan
// ------------------------------------------------------------------------------------------
#[derive(Clone, Copy)]
struct Plan {
    idx: u32,
    threads: usize,
    reps: u32,
    nblocks: usize,
    ops: u32,
    seed: u64,
    zeroed: u32,
    realloc: u32,
    xfree: bool,
    /// phase D as a burst: worker 0 keeps the allocator busy (zeroed allocations of ~200 KB, freed at
    /// once) while every other worker hands its victim's blocks back in one tight loop of dealloc calls
    burst: bool,
    sizes: [usize; 64],
    nsizes: usize,
    aligns: [usize; 16],
    naligns: usize,
}

static PLAN: Racy<Plan> = Racy::new(Plan {
    idx: 0,
    threads: 1,
    reps: 1,
    nblocks: 1,
    ops: 0,
    seed: 1,
    zeroed: 0,
    realloc: 0,
    xfree: false,
    burst: false,
    sizes: [16; 64],
    nsizes: 1,
    aligns: [1; 16],
    naligns: 1,
});
static GEN: AtomicU32 = AtomicU32::new(0);
static TABLES: [Racy<[Blk; MAXB]>; NW] = [const { Racy::new([NOBLK; MAXB]) }; NW];
static READY: AtomicU32 = AtomicU32::new(0);
/// spin rendezvous of the freeing workers of a burst (no system call: they must reach dealloc together)
static BURST_ARRIVE: AtomicU32 = AtomicU32::new(0);

// reusable barrier for `n` parties
static BAR_COUNT: AtomicU32 = AtomicU32::new(0);
static BAR_GEN: AtomicU32 = AtomicU32::new(0);
fn barrier(n: u32) {
    let g = BAR_GEN.load(Ordering::SeqCst);
    if BAR_COUNT.fetch_add(1, Ordering::SeqCst) + 1 == n {
        BAR_COUNT.store(0, Ordering::SeqCst);
        BAR_GEN.fetch_add(1, Ordering::SeqCst);
        sys::futex_wake_shared(BAR_GEN.as_ptr() as usize, 64);
    } else {
        while BAR_GEN.load(Ordering::SeqCst) == g {
            unsafe {
                sc::syscall!(FUTEX, BAR_GEN.as_ptr() as usize, 0, g, 0, 0, 0);
            }
        }
    }
}

struct Rng(u64);
impl Rng {
    fn next(&mut self) -> u64 {
        let mut x = self.0;
        x ^= x << 13;
        x ^= x >> 7;
        x ^= x << 17;
        self.0 = x;
        x >> 11
    }
    fn below(&mut self, n: usize) -> usize {
        (self.next() % n as u64) as usize
    }
}

fn log_op(w: usize, seq: &mut u64, op: &str, g0: u64, g: u64, b: &Blk, ok: bool, zero: bool, prefix: bool) {
    let l = unsafe { LOGS[w].get() };
    *seq += 1;
    let a = b.ptr as u64;
    l.begin();
    l.kv(true, "g", g);
    l.kv(false, "g0", g0);
    l.kv(false, "t", w as u64);
    l.kv(false, "q", *seq);
    l.ks(false, "op", op);
    l.kv(false, "id", b.id as u64);
    l.kv(false, "sz", b.size as u64);
    l.kv(false, "al", b.align as u64);
    l.kv(false, "hi", a >> 28);
    l.kv(false, "lo", a & 0xfff_ffff);
    l.kv(false, "ok", ok as u64);
    l.kv(false, "zero", zero as u64);
    l.kv(false, "prefix", prefix as u64);
    l.end();
}

unsafe fn do_alloc(w: usize, seq: &mut u64, size: usize, align: usize, zeroed: bool) -> Blk {
    let layout = Layout::from_size_align_unchecked(size, align);
    let p = if zeroed { alloc_zeroed(layout) } else { alloc(layout) };
    let g = ticket();
    sample_vm();
    let id = NEXT_ID.fetch_add(1, Ordering::SeqCst);
    let b = Blk { ptr: p, size, align, id };
    let mut zero_ok = true;
    if !p.is_null() {
        if zeroed {
            zero_ok = all_zero(p, size);
        }
        fill(&b, 0);
    }
    log_op(w, seq, if zeroed { "calloc" } else { "malloc" }, g, g, &b, true, zero_ok, true);
    b
}

unsafe fn do_free(w: usize, seq: &mut u64, b: &Blk) {
    if b.ptr.is_null() {
        return;
    }
    let ok = verify(b, b.size);
    let g = ticket();
    dealloc(b.ptr, Layout::from_size_align_unchecked(b.size, b.align));
    log_op(w, seq, "free", g, g, b, ok, true, true);
}

unsafe fn do_realloc(w: usize, seq: &mut u64, b: &mut Blk, new_size: usize) {
    if b.ptr.is_null() {
        return;
    }
    let ok = verify(b, b.size);
    let g0 = ticket();
    let p = realloc(b.ptr, Layout::from_size_align_unchecked(b.size, b.align), new_size);
    let g = ticket();
    sample_vm();
    if p.is_null() {
        // the old block stays valid
        let nb = Blk { ptr: core::ptr::null_mut(), size: new_size, align: b.align, id: b.id };
        log_op(w, seq, "realloc", g0, g, &nb, ok, true, true);
        return;
    }
    let old = b.size;
    b.ptr = p;
    b.size = new_size;
    let keep = old.min(new_size);
    // the bytes that carried the pattern are those of the OLD size's layout
    let prefix = verify(&Blk { ptr: p, size: old, align: b.align, id: b.id }, keep);
    if !prefix {
        fill(b, 0);
    } else {
        // the ranges carrying the pattern depend on the size: re-establish the pattern for the new size
        fill(b, if new_size <= FULL && old <= FULL { keep } else { 0 });
    }
    log_op(w, seq, "realloc", g0, g, b, ok, true, prefix);
}

fn pick(rng: &mut Rng, p: &Plan) -> (usize, usize) {
    (p.sizes[rng.below(p.nsizes)], p.aligns[rng.below(p.naligns)])
}

fn worker(w: usize) {
    READY.fetch_add(1, Ordering::SeqCst);
    let mut seen = 0u32;
    let mut seq = 0u64;
    loop {
        while GEN.load(Ordering::SeqCst) == seen {
            unsafe {
                sc::syscall!(FUTEX, GEN.as_ptr() as usize, 0, seen, 0, 0, 0);
            }
        }
        seen = GEN.load(Ordering::SeqCst);
        let p = unsafe { *PLAN.get() };
        if w >= p.threads {
            continue;
        }
        let parties = p.threads as u32 + 1;
        for _rep in 0..p.reps {
            let mut rng = Rng((p.seed.wrapping_mul(0x9E37_79B9_7F4A_7C15) ^ ((w as u64 + 1) << 32)) | 1);
            let tab = unsafe { TABLES[w].get() };
            unsafe {
                for s in 0..p.nblocks {
                    let (size, align) = pick(&mut rng, &p);
                    tab[s] = do_alloc(w, &mut seq, size, align, rng.below(100) < p.zeroed as usize);
                }
                for _ in 0..p.ops {
                    let s = rng.below(p.nblocks);
                    if rng.below(100) < p.realloc as usize {
                        let (size, _) = pick(&mut rng, &p);
                        do_realloc(w, &mut seq, &mut tab[s], size);
                    } else {
                        let old = tab[s];
                        do_free(w, &mut seq, &old);
                        let (size, align) = pick(&mut rng, &p);
                        tab[s] = do_alloc(w, &mut seq, size, align, rng.below(100) < p.zeroed as usize);
                    }
                }
                LOGS[w].get().flush();
            }
            barrier(parties); // everything allocated: main samples the high mark
            barrier(parties);
            unsafe {
                let victim = if p.xfree { (w + 1) % p.threads } else { w };
                let vt = TABLES[victim].get();
                if p.burst && p.threads > 2 && w == 0 {
                    // keep somebody inside the allocator while the others free
                    for _ in 0..(p.nblocks * 6) {
                        let b = do_alloc(w, &mut seq, 200_000, 16, true);
                        do_free(w, &mut seq, &b);
                    }
                }
                if p.burst && p.threads > 2 && w != 0 {
                    // verify and draw the tickets first (a ticket precedes its dealloc), then give all
                    // blocks back in one tight loop, log afterwards
                    let mut oks = [true; MAXB];
                    let mut gs = [0u64; MAXB];
                    for s in 0..p.nblocks {
                        if !vt[s].ptr.is_null() {
                            oks[s] = verify(&vt[s], vt[s].size);
                            gs[s] = ticket();
                        }
                    }
                    let crowd = p.threads as u32 - 1;
                    for s in 0..p.nblocks {
                        // all freeing workers leave this rendezvous within a few nanoseconds of each other
                        let target = (BURST_ARRIVE.fetch_add(1, Ordering::SeqCst) / crowd + 1) * crowd;
                        let mut spins = 0u32;
                        while BURST_ARRIVE.load(Ordering::SeqCst) < target && spins < 20_000_000 {
                            core::hint::spin_loop();
                            spins += 1;
                        }
                        if !vt[s].ptr.is_null() {
                            dealloc(vt[s].ptr, Layout::from_size_align_unchecked(vt[s].size, vt[s].align));
                        }
                    }
                    for s in 0..p.nblocks {
                        if !vt[s].ptr.is_null() {
                            log_op(w, &mut seq, "free", gs[s], gs[s], &vt[s], oks[s], true, true);
                        }
                        vt[s] = NOBLK;
                    }
                } else {
                    for s in 0..p.nblocks {
                        let b = vt[s];
                        do_free(w, &mut seq, &b);
                        vt[s] = NOBLK;
                    }
                }
                LOGS[w].get().flush();
            }
            barrier(parties); // everything freed: main samples the repetition mark
            barrier(parties);
        }
    }
}

// ------------------------------------------------------------------------------------------
// driver
// ------------------------------------------------------------------------------------------
fn arg<'a>(line: &'a str, key: &str) -> Option<&'a str> {
    for tok in line.split(' ') {
        if let Some(rest) = tok.strip_prefix(key) {
            if let Some(v) = rest.strip_prefix('=') {
                return Some(v);
            }
        }
    }
    None
}

fn num(line: &str, key: &str, default: u64) -> u64 {
    arg(line, key).and_then(|v| v.parse::<u64>().ok()).unwrap_or(default)
}

fn main_ev(name: &str, vals: &[(&str, u64)]) {
    let l = unsafe { LOGS[NW].get() };
    l.begin();
    l.ks(true, "ev", name);
    l.kv(false, "g", ticket());
    for (k, v) in vals {
        l.kv(false, k, *v);
    }
    l.end();
    l.flush();
}

fn run_plan(line: &str) {
    let p = unsafe { PLAN.get() };
    p.idx = num(line, "idx", 0) as u32;
    p.threads = (num(line, "threads", 1) as usize).clamp(1, NW);
    p.reps = num(line, "reps", 1) as u32;
    p.nblocks = (num(line, "nblocks", 8) as usize).clamp(1, MAXB);
    p.ops = num(line, "ops", 0) as u32;
    p.seed = num(line, "seed", 1);
    p.zeroed = num(line, "zeroed", 30) as u32;
    p.realloc = num(line, "realloc", 30) as u32;
    p.xfree = num(line, "xfree", 0) == 1;
    p.burst = num(line, "burst", 0) == 1;
    p.nsizes = 0;
    for v in arg(line, "sizes").unwrap_or("16").split(',') {
        if let Ok(x) = v.parse::<usize>() {
            if p.nsizes < 64 && x > 0 {
                p.sizes[p.nsizes] = x;
                p.nsizes += 1;
            }
        }
    }
    p.naligns = 0;
    for v in arg(line, "aligns").unwrap_or("1").split(',') {
        if let Ok(x) = v.parse::<usize>() {
            if p.naligns < 16 && x.is_power_of_two() {
                p.aligns[p.naligns] = x;
                p.naligns += 1;
            }
        }
    }
    if p.nsizes == 0 || p.naligns == 0 {
        return;
    }
    let (vm0, _) = sys::statm();
    main_ev("reset", &[("run", p.idx as u64), ("threads", p.threads as u64), ("reps", p.reps as u64), ("vm", vm0)]);
    let parties = p.threads as u32 + 1;
    let reps = p.reps;
    SAMPLE_EVERY_CALL.store((p.threads == 1) as u32, Ordering::SeqCst);
    BURST_ARRIVE.store(0, Ordering::SeqCst);
    VM_HIGH.store(0, Ordering::SeqCst);
    GEN.fetch_add(1, Ordering::SeqCst);
    sys::futex_wake_shared(GEN.as_ptr() as usize, 64);
    for _ in 0..reps {
        barrier(parties);
        let (vm, _) = sys::statm();
        let vm = vm.max(VM_HIGH.swap(0, Ordering::SeqCst));
        main_ev("high", &[("vm", vm)]);
        barrier(parties);
        barrier(parties);
        let (vm, _) = sys::statm();
        main_ev("rep", &[("vm", vm)]);
        barrier(parties);
    }
    main_ev("end", &[]);
}

#[no_mangle]
pub fn main() -> i32 {
    let mut args = tiny_std::env::args();
    let _ = args.next();
    let (Some(Ok(script)), Some(Ok(out))) = (args.next(), args.next()) else {
        sys::write(2, b"usage: gaprobe <script> <out>\n");
        return 2;
    };
    let mut path = [0u8; 512];
    path[..out.len()].copy_from_slice(out.as_bytes());
    let fd = sys::open_out(&path[..=out.len()]);
    let mut spath = [0u8; 512];
    spath[..script.len()].copy_from_slice(script.as_bytes());
    static SCRIPT: Racy<[u8; 1 << 17]> = Racy::new([0; 1 << 17]);
    let sbuf = unsafe { SCRIPT.get() };
    let n = sys::read_file(&spath[..=script.len()], sbuf);
    if fd < 0 || n < 0 {
        sys::write(2, b"gaprobe: cannot open script/out\n");
        return 2;
    }
    OUT_FD.store(fd, Ordering::SeqCst);
    main_ev("boot", &[]);
    for w in 0..NW {
        match tiny_std::thread::spawn(move || worker(w)) {
            Ok(h) => core::mem::forget(h),
            Err(_) => {
                sys::write(2, b"gaprobe: cannot start worker\n");
                return 2;
            }
        }
    }
    while READY.load(Ordering::SeqCst) < NW as u32 {
        sys::sleep_us(100);
    }
    main_ev("hello", &[("debug", cfg!(debug_assertions) as u64), ("workers", NW as u64)]);
    let text = core::str::from_utf8(&sbuf[..n as usize]).unwrap_or("");
    for line in text.split('\n') {
        let line = line.trim();
        if line.starts_with("run ") {
            run_plan(line);
        }
    }
    main_ev("bye", &[]);
    sys::exit_group(0)
}
