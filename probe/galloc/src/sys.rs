//! Raw system calls used by the probe itself (never by the code under test).
use sc::syscall;

pub const AT_FDCWD: isize = -100;

#[inline]
pub fn write(fd: i32, b: &[u8]) -> isize {
    unsafe { syscall!(WRITE, fd, b.as_ptr(), b.len()) as isize }
}

/// `path` must be NUL terminated.
pub fn open_rd(path: &[u8]) -> i32 {
    debug_assert!(path.last() == Some(&0));
    unsafe { syscall!(OPENAT, AT_FDCWD, path.as_ptr(), 0, 0) as i32 }
}

/// O_WRONLY|O_CREAT|O_TRUNC|O_APPEND; `path` must be NUL terminated.
pub fn open_out(path: &[u8]) -> i32 {
    unsafe { syscall!(OPENAT, AT_FDCWD, path.as_ptr(), 0o1 | 0o100 | 0o1000 | 0o2000, 0o644) as i32 }
}

#[inline]
pub fn read(fd: i32, b: &mut [u8]) -> isize {
    unsafe { syscall!(READ, fd, b.as_mut_ptr(), b.len()) as isize }
}

#[inline]
pub fn close(fd: i32) {
    unsafe {
        syscall!(CLOSE, fd);
    }
}

#[inline]
pub fn gettid() -> u32 {
    unsafe { syscall!(GETTID) as u32 }
}

#[inline]
pub fn getpid() -> u32 {
    unsafe { syscall!(GETPID) as u32 }
}

/// 0 while the task exists, -ESRCH (-3) once it is gone.
#[inline]
pub fn tgkill0(tid: u32) -> isize {
    unsafe { syscall!(TGKILL, getpid(), tid, 0) as isize }
}

pub fn exit_group(code: i32) -> ! {
    unsafe {
        syscall!(EXIT_GROUP, code);
    }
    loop {}
}

pub fn sleep_us(us: u64) {
    let ts = [(us / 1_000_000) as i64, ((us % 1_000_000) * 1000) as i64];
    unsafe {
        syscall!(NANOSLEEP, ts.as_ptr(), 0);
    }
}

#[inline]
pub fn sched_yield() {
    unsafe {
        syscall!(SCHED_YIELD);
    }
}

const FUTEX_WAIT_PRIVATE: usize = 128;
const FUTEX_WAKE_PRIVATE: usize = 1 | 128;

/// Number of waiters woken or -errno.
#[inline]
pub fn futex_wake(addr: usize, n: i32) -> isize {
    unsafe { syscall!(FUTEX, addr, FUTEX_WAKE_PRIVATE, n, 0, 0, 0) as isize }
}

/// FUTEX_WAKE without the private flag: this is what rusl::futex::futex_wake (and therefore every
/// tiny-std Mutex/RwLock unlock) issues, and what matches tiny-std's waits (rusl's futex_wait
/// computes `FUTEX_WAIT & flags` = 0, a process-shared wait).
#[inline]
pub fn futex_wake_shared(addr: usize, n: i32) -> isize {
    unsafe { syscall!(FUTEX, addr, 1, n, 0, 0, 0) as isize }
}

/// 0 woken, -EAGAIN (-11) value differs, -ETIMEDOUT (-110), -EINTR (-4)
#[inline]
pub fn futex_wait(addr: usize, val: u32, timeout_us: u64) -> isize {
    let ts = [(timeout_us / 1_000_000) as i64, ((timeout_us % 1_000_000) * 1000) as i64];
    unsafe { syscall!(FUTEX, addr, FUTEX_WAIT_PRIVATE, val, ts.as_ptr(), 0, 0) as isize }
}

/// CLOCK_MONOTONIC in microseconds.
pub fn now_us() -> u64 {
    let mut ts = [0i64; 2];
    unsafe {
        syscall!(CLOCK_GETTIME, 1, ts.as_mut_ptr());
    }
    (ts[0] as u64) * 1_000_000 + (ts[1] as u64) / 1000
}

/// Read a whole (small) file into `buf`; returns the number of bytes or a negative errno.
pub fn read_file(path: &[u8], buf: &mut [u8]) -> isize {
    let fd = open_rd(path);
    if fd < 0 {
        return fd as isize;
    }
    let mut n = 0usize;
    while n < buf.len() {
        let r = read(fd, &mut buf[n..]);
        if r <= 0 {
            break;
        }
        n += r as usize;
    }
    close(fd);
    n as isize
}

/// Number of '\n' in a file of any size.
pub fn count_lines(path: &[u8]) -> isize {
    let fd = open_rd(path);
    if fd < 0 {
        return fd as isize;
    }
    let mut buf = [0u8; 4096];
    let mut lines = 0isize;
    loop {
        let r = read(fd, &mut buf);
        if r <= 0 {
            break;
        }
        lines += buf[..r as usize].iter().filter(|c| **c == b'\n').count() as isize;
    }
    close(fd);
    lines
}

/// Small formatting helper: "prefix<decimal>suffix\0" into `out`, returns the length incl. NUL.
pub fn path_with_num(out: &mut [u8], prefix: &[u8], num: u64, suffix: &[u8]) -> usize {
    let mut n = 0;
    for b in prefix {
        out[n] = *b;
        n += 1;
    }
    let mut tmp = [0u8; 20];
    let mut i = 0;
    let mut v = num;
    if v == 0 {
        tmp[0] = b'0';
        i = 1;
    }
    while v > 0 {
        tmp[i] = b'0' + (v % 10) as u8;
        v /= 10;
        i += 1;
    }
    while i > 0 {
        i -= 1;
        out[n] = tmp[i];
        n += 1;
    }
    for b in suffix {
        out[n] = *b;
        n += 1;
    }
    out[n] = 0;
    n + 1
}

/// Is task `tid` of this process blocked inside futex(addr, ...)?  Reads
/// /proc/self/task/<tid>/syscall ("202 0xaddr ..." when blocked in the call, "running" otherwise).
pub fn parked_in_futex(tid: u32, addr: usize) -> bool {
    let mut p = [0u8; 64];
    path_with_num(&mut p, b"/proc/self/task/", tid as u64, b"/syscall");
    let mut buf = [0u8; 256];
    let n = read_file(&p, &mut buf);
    if n < 8 {
        return false;
    }
    let s = &buf[..n as usize];
    if !s.starts_with(b"202 0x") {
        return false;
    }
    let mut v: usize = 0;
    for c in &s[6..] {
        let d = match *c {
            b'0'..=b'9' => c - b'0',
            b'a'..=b'f' => c - b'a' + 10,
            _ => break,
        };
        v = (v << 4) | d as usize;
    }
    v == addr
}

/// "Threads:" of /proc/self/status
pub fn thread_count() -> i64 {
    let mut buf = [0u8; 4096];
    let n = read_file(b"/proc/self/status\0", &mut buf);
    if n <= 0 {
        return -1;
    }
    let s = &buf[..n as usize];
    let key = b"Threads:";
    let mut i = 0;
    while i + key.len() < s.len() {
        if &s[i..i + key.len()] == key {
            let mut j = i + key.len();
            while j < s.len() && (s[j] == b' ' || s[j] == b'\t') {
                j += 1;
            }
            let mut v = 0i64;
            while j < s.len() && s[j].is_ascii_digit() {
                v = v * 10 + (s[j] - b'0') as i64;
                j += 1;
            }
            return v;
        }
        i += 1;
    }
    -1
}

/// First two fields of /proc/self/statm (pages): size, resident.
pub fn statm() -> (u64, u64) {
    let mut buf = [0u8; 128];
    let n = read_file(b"/proc/self/statm\0", &mut buf);
    if n <= 0 {
        return (0, 0);
    }
    let mut vals = [0u64; 2];
    let mut k = 0;
    let mut inside = false;
    for c in &buf[..n as usize] {
        if c.is_ascii_digit() {
            vals[k] = vals[k] * 10 + (*c - b'0') as u64;
            inside = true;
        } else if inside {
            k += 1;
            inside = false;
            if k == 2 {
                break;
            }
        }
    }
    (vals[0], vals[1])
}
