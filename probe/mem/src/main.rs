//! C08 probe: a no-libc executable (tiny-std feature `executable`, so the `mem-symbols` of the real
//! `#![no_builtins]` tiny-start crate are the ones linked in) that calls the exported
//! memcpy/memmove/memset/memcmp/bcmp symbols on a tagged arena and prints, per call, a lossless
//! description of the whole arena afterwards (run-length encoded relative to the initial tags).
//! The lines are judged by TLC (specs/MemJudge.tla); nothing is decided here.
//!
//! Command (one line on stdin, so that the probe does not depend on the args code of C07):
//!   small <fns> <n,n,...> <full|sub>      fns = subset of "cpy,mov,set,cmp,bcmp"
//!   large <seed> <count> <maxlen>
//!   one <fn> <n> <d> <s|c>                replay of one copy/set call on the small arena
//!   onecmp <fn> <n> <am> <bm> <p> <pair>  replay of one compare call
//!   mid <n,n,...>                         copy calls with lengths up to 130 on a 640-byte arena (run-level judgement)
//!   bigov <n,n,...>                       overlapping memmove with LARGE lengths (up to 65 600) and SMALL distances
//!                                         (1..72, 127, 128, 129, both directions, two destination alignments) on a 96 KiB arena
//!   bigov2 <n,n,...>                      overlapping memmove, n up to 131 072, distances 4096*k - j and 4096*k + j (k = 1..3, j = 0..64),
//!                                         both directions, on a 168 KiB arena
//!   huge <n,n,...>                        memcpy / memmove with lengths of megabytes (up to 16 MiB + 5) on a 40 MiB arena: co- and
//!                                         misaligned, non-overlapping and overlapping in both directions (release / native probes)
//!   guard <n,n,...>                       the SOURCE of copies / the operands of compares END right in front of an
//!                                         unreadable page or START right behind one (mmap + mprotect): a load outside
//!                                         [src, src+n) faults - the crash is the datum (read_outside)
//!   steps \n <fn> <n> <d> <s|c> \n ...    copy/set calls on the small arena, each bracketed by the marker
//!                                         system calls write(-1,"B") / write(-1,"E") so that tools/stepstores can
//!                                         single-step exactly the call and log every store into the arena
#![no_std]
#![no_main]

use core::hint::black_box;
use tiny_std as _; // entry point, panic handler and the mem symbols come from here
use rusl::platform::Fd;

extern "C" {
    fn memcpy(dest: *mut u8, src: *const u8, n: usize) -> *mut u8;
    fn memmove(dest: *mut u8, src: *const u8, n: usize) -> *mut u8;
    fn memset(s: *mut u8, c: i32, n: usize) -> *mut u8;
    fn memcmp(s1: *const u8, s2: *const u8, n: usize) -> i32;
    fn bcmp(s1: *const u8, s2: *const u8, n: usize) -> i32;
}
type CopyFn = unsafe extern "C" fn(*mut u8, *const u8, usize) -> *mut u8;
type SetFn = unsafe extern "C" fn(*mut u8, i32, usize) -> *mut u8;
type CmpFn = unsafe extern "C" fn(*const u8, *const u8, usize) -> i32;

const SMALL_L: usize = 208;
const BIG_L: usize = (2 << 20) + (256 << 10);

#[repr(align(64))]
struct Arena<const N: usize>([u8; N]);
static mut SMALL: Arena<256> = Arena([0; 256]);
const MID_L: usize = 640;
static mut MID: Arena<MID_L> = Arena([0; MID_L]);
const OV_L: usize = 96 << 10;
static mut OV: Arena<OV_L> = Arena([0; OV_L]);
const OV2_L: usize = 168 << 10;
static mut OV2: Arena<OV2_L> = Arena([0; OV2_L]);
const HUGE_L: usize = 40 << 20;
static mut HUGE: Arena<HUGE_L> = Arena([0; HUGE_L]);
static mut BIG: Arena<BIG_L> = Arena([0; BIG_L]);

// ---------------------------------------------------------------------------------------------
// output (byte loops only; flushed after every line so a crash loses nothing)
// ---------------------------------------------------------------------------------------------
static mut OUT: [u8; 1 << 16] = [0; 1 << 16];
static mut OUT_LEN: usize = 0;

#[inline(never)]
fn flush() {
    unsafe {
        let mut off = 0;
        while off < OUT_LEN {
            let p = core::ptr::addr_of!(OUT).cast::<u8>().add(off);
            let sl = core::slice::from_raw_parts(p, OUT_LEN - off);
            match rusl::unistd::write(Fd::try_new(1).unwrap(), sl) {
                Ok(k) => off += k,
                Err(_) => break,
            }
        }
        OUT_LEN = 0;
    }
}
#[inline(never)]
fn putb(b: u8) {
    unsafe {
        if OUT_LEN >= (1 << 16) {
            flush();
        }
        core::ptr::addr_of_mut!(OUT).cast::<u8>().add(OUT_LEN).write_volatile(b);
        OUT_LEN += 1;
    }
}
fn puts(s: &str) {
    for b in s.bytes() {
        putb(b);
    }
}
fn puti(v: i64) {
    if v < 0 {
        putb(b'-');
    }
    let mut u = v.unsigned_abs();
    let mut tmp = [0u8; 20];
    let mut k = 0;
    loop {
        tmp[k] = b'0' + (u % 10) as u8;
        u /= 10;
        k += 1;
        if u == 0 {
            break;
        }
    }
    while k > 0 {
        k -= 1;
        putb(tmp[k]);
    }
}
fn kv(first: bool, key: &str, v: i64) {
    if !first {
        putb(b',');
    }
    putb(b'"');
    puts(key);
    puts("\":");
    puti(v);
}

// ---------------------------------------------------------------------------------------------
// arena
// ---------------------------------------------------------------------------------------------
#[inline(always)]
fn tag(i: usize) -> u8 {
    (i % 251) as u8 + 1
}
#[inline(never)]
unsafe fn fill_tags(base: *mut u8, l: usize) {
    let mut i = 0;
    while i < l {
        base.add(i).write_volatile(tag(i));
        i += 1;
    }
}
/// restore the tags in [lo, hi) (byte loop)
#[inline(never)]
unsafe fn retag(base: *mut u8, lo: usize, hi: usize) {
    let mut i = lo;
    while i < hi {
        base.add(i).write_volatile(tag(i));
        i += 1;
    }
}

/// restore the tags of a guarded page in [lo, hi)
#[inline(never)]
unsafe fn retagp(page: *mut u8, lo: usize, hi: usize) {
    let mut i = lo;
    while i < hi {
        page.add(i).write_volatile(tag(i));
        i += 1;
    }
}

/// Lossless run-length description of the arena relative to its initial tags:
/// [start, len, 0, off]  : res[i] == tag(i + off) for every i of the run
/// [start, len, 1, val]  : res[i] == val for every i of the run
/// `co`: the second offset tried (s - d for copies); `lit`: preferred literal (memset) or -1.
#[inline(never)]
unsafe fn put_runs(base: *const u8, l: usize, co: i64, has_co: bool) {
    puts(",\"runs\":[");
    let mut p = 0usize;
    let mut first = true;
    let mut nruns = 0usize;
    while p < l {
        let v = base.add(p).read_volatile();
        let (kind, val): (i64, i64) = if v == tag(p) {
            (0, 0)
        } else if has_co && (p as i64 + co) >= 0 && ((p as i64 + co) as usize) < l && v == tag((p as i64 + co) as usize) {
            (0, co)
        } else {
            (1, i64::from(v))
        };
        let mut q = p + 1;
        while q < l {
            let w = base.add(q).read_volatile();
            let same = if kind == 0 {
                let src = q as i64 + val;
                src >= 0 && (src as usize) < l && w == tag(src as usize)
            } else {
                i64::from(w) == val
            };
            if !same {
                break;
            }
            q += 1;
        }
        if nruns == 2000 {
            // a correct result needs a handful of runs: a line cut here does not cover the arena and is rejected as it is
            break;
        }
        nruns += 1;
        if !first {
            putb(b',');
        }
        first = false;
        putb(b'[');
        puti(p as i64);
        putb(b',');
        puti((q - p) as i64);
        putb(b',');
        puti(kind);
        putb(b',');
        puti(val);
        putb(b']');
        p = q;
    }
    puts("]");
}

unsafe fn do_copy(name: &str, f: CopyFn, base: *mut u8, l: usize, n: usize, d: usize, s: usize) {
    // the call is announced (and flushed) before it is made: a crash leaves a partial line naming it
    putb(b'{');
    puts("\"f\":\"");
    puts(name);
    puts("\"");
    kv(false, "L", l as i64);
    kv(false, "n", n as i64);
    kv(false, "d", d as i64);
    kv(false, "s", s as i64);
    flush();
    mark(b"B", base, d, n, s);
    let r = f(base.add(d), base.add(s), n);
    mark(b"E", base, d, n, s);
    kv(false, "ret", r as i64 - base as i64);
    put_runs(base, l, s as i64 - d as i64, true);
    puts("}\n");
    flush();
    restore(base, l, n, d);
}

/// restore the tags: the whole small arena; for the big arena a generous window around the
/// destination (anything else that changed stays visible in every later line)
unsafe fn restore(base: *mut u8, l: usize, n: usize, d: usize) {
    if l <= 256 {
        retag(base, 0, l);
    } else {
        let lo = d.saturating_sub(4096);
        let hi = core::cmp::min(l, d + n + 4096);
        retag(base, lo, hi);
    }
}

unsafe fn do_set(f: SetFn, base: *mut u8, l: usize, n: usize, d: usize, c: i32) {
    putb(b'{');
    puts("\"f\":\"memset\"");
    kv(false, "L", l as i64);
    kv(false, "n", n as i64);
    kv(false, "d", d as i64);
    kv(false, "c", i64::from(c));
    flush();
    mark(b"B", base, d, n, usize::MAX);
    let r = f(base.add(d), c, n);
    mark(b"E", base, d, n, usize::MAX);
    kv(false, "ret", r as i64 - base as i64);
    put_runs(base, l, 0, false);
    puts("}\n");
    flush();
    restore(base, l, n, d);
}

/// first-difference value pairs: plain, across the sign bit, extremes
const PAIRS: [(u8, u8); 6] = [(1, 2), (2, 1), (0x7f, 0x80), (0x80, 0x7f), (0, 0xff), (0xff, 0)];

unsafe fn do_cmp(name: &str, f: CmpFn, base: *mut u8, n: usize, am: usize, bm: usize, p: usize, pair: usize) {
    // a at 32+am, b at 128+bm; equal tags before p, the pair at p, the REVERSED relation after p
    let a = base.add(32 + am);
    let b = base.add(128 + bm);
    let (x, y) = PAIRS[pair];
    let mut i = 0;
    while i < n {
        let t = tag(i * 7 + 3);
        let (va, vb) = if i < p {
            (t, t)
        } else if i == p {
            (x, y)
        } else {
            (y, x)
        };
        a.add(i).write_volatile(va);
        b.add(i).write_volatile(vb);
        i += 1;
    }
    putb(b'{');
    puts("\"f\":\"");
    puts(name);
    puts("\"");
    kv(false, "n", n as i64);
    kv(false, "am", am as i64);
    kv(false, "bm", bm as i64);
    kv(false, "p", p as i64);
    kv(false, "pr", pair as i64);
    flush();
    let r = f(a, b, n);
    kv(false, "ret", i64::from(r));
    puts(",\"a\":[");
    i = 0;
    while i < n {
        if i > 0 {
            putb(b',');
        }
        puti(i64::from(a.add(i).read_volatile()));
        i += 1;
    }
    puts("],\"b\":[");
    i = 0;
    while i < n {
        if i > 0 {
            putb(b',');
        }
        puti(i64::from(b.add(i).read_volatile()));
        i += 1;
    }
    puts("]}\n");
    flush();
}

// ---------------------------------------------------------------------------------------------
// guard pages (raw system calls: the probe must not depend on more of the library than it tests)
// ---------------------------------------------------------------------------------------------
unsafe fn sys6(nr: usize, a: usize, b: usize, c: usize, d: usize, e: usize, f: usize) -> isize {
    let r: isize;
    core::arch::asm!("syscall", inlateout("rax") nr => r, in("rdi") a, in("rsi") b, in("rdx") c, in("r10") d, in("r8") e, in("r9") f,
                     lateout("rcx") _, lateout("r11") _, options(nostack));
    r
}
const PAGE: usize = 4096;
/// five pages, the 1st, 3rd and 5th unreadable: -> (page A, page B), each readable page has a PROT_NONE page on both sides
unsafe fn guarded_pages() -> (*mut u8, *mut u8) {
    let g = sys6(9, 0, 5 * PAGE, 3, 0x22, usize::MAX, 0); // mmap(PROT_READ|PROT_WRITE, MAP_PRIVATE|MAP_ANONYMOUS)
    if g < 0 {
        return (core::ptr::null_mut(), core::ptr::null_mut());
    }
    let g = g as usize;
    for k in [0usize, 2, 4] {
        if sys6(10, g + k * PAGE, PAGE, 0, 0, 0, 0) != 0 {
            return (core::ptr::null_mut(), core::ptr::null_mut());
        }
    }
    ((g + PAGE) as *mut u8, (g + 3 * PAGE) as *mut u8)
}
unsafe fn put_bytes(key: &str, p: *const u8, n: usize) {
    puts(",\"");
    puts(key);
    puts("\":[");
    let mut i = 0;
    while i < n {
        if i > 0 {
            putb(b',');
        }
        puti(i64::from(p.add(i).read_volatile()));
        i += 1;
    }
    puts("]");
}
/// one guarded copy: the source bytes are printed BEFORE the call (announcement, flushed), the destination after it
unsafe fn guard_copy(name: &str, f: CopyFn, place: &str, n: usize, dm: i64, delta: i64, dst: *mut u8, src: *const u8) {
    putb(b'{');
    puts("\"f\":\"");
    puts(name);
    puts("\",\"G\":\"");
    puts(place);
    puts("\"");
    kv(false, "n", n as i64);
    kv(false, "dm", dm);
    kv(false, "delta", delta);
    put_bytes("src", src, n);
    flush();
    let r = f(dst, src, n);
    kv(false, "ret", r as i64 - dst as i64);
    put_bytes("dst", dst, n);
    puts("}\n");
    flush();
}
unsafe fn guard_cmp(name: &str, f: CmpFn, place: &str, n: usize, bm: usize, p: usize, a: *mut u8, b: *mut u8) {
    let mut i = 0;
    while i < n {
        let t = tag(i * 5 + 2);
        a.add(i).write_volatile(t);
        b.add(i).write_volatile(if i == p { t ^ 0x80 } else { t });
        i += 1;
    }
    putb(b'{');
    puts("\"f\":\"");
    puts(name);
    puts("\",\"G\":\"");
    puts(place);
    puts("\"");
    kv(false, "n", n as i64);
    kv(false, "am", 0);
    kv(false, "bm", bm as i64);
    kv(false, "p", p as i64);
    kv(false, "pr", 0);
    flush();
    let r = f(a, b, n);
    kv(false, "ret", i64::from(r));
    put_bytes("a", a, n);
    put_bytes("b", b, n);
    puts("}\n");
    flush();
}

// ---------------------------------------------------------------------------------------------
// command parsing (stdin)
// ---------------------------------------------------------------------------------------------
static mut CMD: [u8; 1 << 16] = [0; 1 << 16];
static mut STEP_MARK: bool = false;

/// marker for the single-step tracer: write(-1, tag, 1) fails with EBADF and changes nothing
#[inline(never)]
fn mark(tag: &'static [u8; 1], base: *const u8, d: usize, n: usize, s: usize) {
    unsafe {
        if core::ptr::addr_of!(STEP_MARK).read_volatile() {
            // (the count register carries the arena address for the tracer, the unused argument registers the
            // call's destination offset, length and source offset; the call fails before looking at any of it)
            core::arch::asm!("syscall", inlateout("rax") 1usize => _, in("rdi") -1isize, in("rsi") tag.as_ptr(), in("rdx") base as usize,
                             in("r10") d, in("r8") n, in("r9") s,
                             lateout("rcx") _, lateout("r11") _, options(nostack));
        }
    }
}

fn read_cmd() -> &'static [u8] {
    unsafe {
        let buf = core::slice::from_raw_parts_mut(core::ptr::addr_of_mut!(CMD).cast::<u8>(), 1 << 16);
        let mut len = 0;
        loop {
            match rusl::unistd::read(Fd::try_new(0).unwrap(), &mut buf[len..]) {
                Ok(0) | Err(_) => break,
                Ok(k) => len += k,
            }
            if len == (1 << 16) {
                break;
            }
        }
        while len > 0 && (buf[len - 1] == b'\n' || buf[len - 1] == b' ') {
            len -= 1;
        }
        core::slice::from_raw_parts(core::ptr::addr_of!(CMD).cast::<u8>(), len)
    }
}
fn word(cmd: &[u8], k: usize) -> &[u8] {
    cmd.split(|c| *c == b' ').filter(|w| !w.is_empty()).nth(k).unwrap_or(&[])
}
fn num(w: &[u8]) -> i64 {
    let mut v: i64 = 0;
    let mut neg = false;
    for c in w {
        if *c == b'-' {
            neg = true;
        } else if c.is_ascii_digit() {
            v = v * 10 + i64::from(*c - b'0');
        }
    }
    if neg {
        -v
    } else {
        v
    }
}
fn has(list: &[u8], name: &[u8]) -> bool {
    list.split(|c| *c == b',').any(|w| w == name)
}

struct Rng(u64);
impl Rng {
    fn next(&mut self) -> u64 {
        // xorshift64*
        let mut x = self.0;
        x ^= x >> 12;
        x ^= x << 25;
        x ^= x >> 27;
        self.0 = x;
        x.wrapping_mul(0x2545_F491_4F6C_DD1D)
    }
    fn below(&mut self, n: u64) -> u64 {
        self.next() % n
    }
}

const FILLS: [i32; 9] = [0, 1, 0x7f, 0x80, 0xa5, 0xff, 0x100, 0x1a5, -1];
const SUB_AL: [usize; 4] = [0, 1, 7, 8];
const SUB_BL: [usize; 4] = [0, 3, 8, 15];

#[no_mangle]
pub fn main() -> i32 {
    let cmd = read_cmd();
    let cpy: CopyFn = black_box(memcpy as CopyFn);
    let mov: CopyFn = black_box(memmove as CopyFn);
    let set: SetFn = black_box(memset as SetFn);
    let cmpf: CmpFn = black_box(memcmp as CmpFn);
    let bcmpf: CmpFn = black_box(bcmp as CmpFn);
    let first_line = cmd.split(|c| *c == b'\n').next().unwrap_or(&[]);
    let mode = word(first_line, 0);
    unsafe {
        let sb = core::ptr::addr_of_mut!(SMALL).cast::<u8>();
        fill_tags(sb, 256);
        putb(b'{');
        puts("\"f\":\"meta\"");
        kv(false, "small_mod64", (sb as usize % 64) as i64);
        kv(false, "word", core::mem::size_of::<usize>() as i64);
        puts("}\n");
        flush();
        if mode == b"small" {
            let fns = word(cmd, 1);
            let ns = word(cmd, 2);
            let full = word(cmd, 3) == b"full";
            for nw in ns.split(|c| *c == b',') {
                if nw.is_empty() {
                    continue;
                }
                let n = num(nw) as usize;
                if n > 40 {
                    continue;
                }
                if has(fns, b"cpy") || has(fns, b"mov") {
                    for dm in 0..16usize {
                        for sm in 0..16usize {
                            // dst below src, dst above src (never overlapping)
                            for (d, s) in [(32 + dm, 128 + sm), (128 + dm, 32 + sm)] {
                                if has(fns, b"cpy") {
                                    do_copy("memcpy", cpy, sb, SMALL_L, n, d, s);
                                }
                                if has(fns, b"mov") {
                                    do_copy("memmove", mov, sb, SMALL_L, n, d, s);
                                }
                            }
                        }
                    }
                }
                if has(fns, b"mov") {
                    // every overlap distance -n..=n (and one step beyond on both sides)
                    for dm in 0..16usize {
                        let d = 80 + dm;
                        let lim = n as i64 + 1;
                        let mut delta = -lim;
                        while delta <= lim {
                            let s = (d as i64 + delta) as usize;
                            do_copy("memmove", mov, sb, SMALL_L, n, d, s);
                            delta += 1;
                        }
                    }
                }
                if has(fns, b"set") {
                    for dm in 0..16usize {
                        for c in FILLS {
                            do_set(set, sb, SMALL_L, n, 32 + dm, c);
                        }
                    }
                }
                for (nm, on, f) in [("memcmp", has(fns, b"cmp"), cmpf), ("bcmp", has(fns, b"bcmp"), bcmpf)] {
                    if !on {
                        continue;
                    }
                    if full {
                        for am in 0..16usize {
                            for bm in 0..16usize {
                                for p in 0..=n {
                                    do_cmp(nm, f, sb, n, am, bm, p, (am + bm + p) % 6);
                                    if p < n {
                                        // the opposite sign
                                        do_cmp(nm, f, sb, n, am, bm, p, (am + bm + p + 3) % 6);
                                    }
                                }
                            }
                        }
                    } else {
                        for am in SUB_AL {
                            for bm in SUB_BL {
                                for p in 0..=n {
                                    for pair in 0..(if p == n { 1 } else { 6 }) {
                                        do_cmp(nm, f, sb, n, am, bm, p, pair);
                                    }
                                }
                            }
                        }
                    }
                    retag(sb, 0, 256);
                }
            }
        } else if mode == b"one" {
            let f = word(cmd, 1);
            let n = num(word(cmd, 2)) as usize;
            let d = num(word(cmd, 3)) as usize;
            let x = num(word(cmd, 4));
            if n <= 40 && d + n <= SMALL_L {
                if f == b"memcpy" && (x as usize) + n <= SMALL_L {
                    do_copy("memcpy", cpy, sb, SMALL_L, n, d, x as usize);
                } else if f == b"memmove" && (x as usize) + n <= SMALL_L {
                    do_copy("memmove", mov, sb, SMALL_L, n, d, x as usize);
                } else if f == b"memset" {
                    do_set(set, sb, SMALL_L, n, d, x as i32);
                }
            }
        } else if mode == b"mid" {
            let mb = core::ptr::addr_of_mut!(MID).cast::<u8>();
            fill_tags(mb, MID_L);
            for nw in word(cmd, 1).split(|c| *c == b',') {
                let n = num(nw) as usize;
                if nw.is_empty() || n > 130 {
                    continue;
                }
                for dm in SUB_AL {
                    for sm in SUB_BL {
                        for (d, s) in [(64 + dm, 352 + sm), (352 + dm, 64 + sm)] {
                            do_copy("memcpy", cpy, mb, MID_L, n, d, s);
                            do_copy("memmove", mov, mb, MID_L, n, d, s);
                        }
                    }
                    let d = 240 + dm;
                    for delta in [-(n as i64) + 1, -9, -8, -1, 1, 7, 8, 9, n as i64 - 1] {
                        if delta != 0 && delta.unsigned_abs() as usize <= n + 1 {
                            do_copy("memmove", mov, mb, MID_L, n, d, (d as i64 + delta) as usize);
                        }
                    }
                }
            }
        } else if mode == b"bigov" {
            let ob = core::ptr::addr_of_mut!(OV).cast::<u8>();
            fill_tags(ob, OV_L);
            for nw in word(cmd, 1).split(|c| *c == b',') {
                let n = num(nw) as usize;
                if nw.is_empty() || n > 65_600 {
                    continue;
                }
                for dm in [0usize, 3] {
                    let d = 8192 + dm;
                    let mut dist = 1usize;
                    while dist <= 129 {
                        // destination above the source (backward copy needed) and below it (forward copy)
                        do_copy("memmove", mov, ob, OV_L, n, d, d - dist);
                        do_copy("memmove", mov, ob, OV_L, n, d, d + dist);
                        dist = if dist == 72 { 127 } else { dist + 1 };
                    }
                }
            }
        } else if mode == b"bigov2" {
            let ob = core::ptr::addr_of_mut!(OV2).cast::<u8>();
            fill_tags(ob, OV2_L);
            for nw in word(cmd, 1).split(|c| *c == b',') {
                let n = num(nw) as usize;
                if nw.is_empty() || n > 131_072 {
                    continue;
                }
                for dm in [0usize, 3] {
                    let d = 16_384 + dm;
                    for k in 1..=3usize {
                        if dm == 3 && k > 1 {
                            continue;
                        }
                        for j in 0..=64usize {
                            for dist in [4096 * k - j, 4096 * k + j] {
                                if j == 0 && dist != 4096 * k - j {
                                    continue;
                                }
                                do_copy("memmove", mov, ob, OV2_L, n, d, d - dist);
                                do_copy("memmove", mov, ob, OV2_L, n, d, d + dist);
                            }
                        }
                    }
                }
            }
        } else if mode == b"huge" {
            let hb = core::ptr::addr_of_mut!(HUGE).cast::<u8>();
            fill_tags(hb, HUGE_L);
            let far = 20 << 20;
            for nw in word(cmd, 1).split(|c| *c == b',') {
                let n = num(nw) as usize;
                if nw.is_empty() || n > (16 << 20) + 64 {
                    continue;
                }
                for (dm, sm) in [(0usize, 0usize), (0, 3), (5, 1)] {
                    do_copy("memcpy", cpy, hb, HUGE_L, n, 8192 + dm, far + sm);
                    do_copy("memmove", mov, hb, HUGE_L, n, far + dm, 8192 + sm);
                    // overlapping: destination below the source (forward copy), above it (backward copy)
                    do_copy("memmove", mov, hb, HUGE_L, n, 8192 + dm, 8192 + 4099 + sm);
                    do_copy("memmove", mov, hb, HUGE_L, n, 8192 + 4099 + dm, 8192 + sm);
                }
            }
        } else if mode == b"guard" {
            let (pa, pb) = guarded_pages();
            if pa.is_null() {
                puts("{\"f\":\"noguard\"}\n");
            } else {
                let mut i = 0;
                while i < PAGE {
                    pa.add(i).write_volatile(tag(i));
                    pb.add(i).write_volatile(tag(i + 100));
                    i += 1;
                }
                for nw in word(cmd, 1).split(|c| *c == b',') {
                    let n = num(nw) as usize;
                    if nw.is_empty() || n > 130 {
                        continue;
                    }
                    let wide = n <= 40;
                    for dm in 0..16usize {
                        if !wide && !SUB_AL.contains(&dm) {
                            continue;
                        }
                        let dst = sb.add(64 + dm);
                        // source ENDS at the unreadable page / STARTS right behind one; destination far away
                        for (place, src) in [("end", pa.add(PAGE - n)), ("start", pa)] {
                            guard_copy("memcpy", cpy, place, n, dm as i64, 0, dst, src);
                            guard_copy("memmove", mov, place, n, dm as i64, 0, dst, src);
                        }
                    }
                    // overlapping memmove inside the guarded page: forward copy with the source ending at the guard,
                    // backward copy with the source starting behind the guard
                    let maxd = core::cmp::min(n, 16) as i64;
                    let mut delta = 1;
                    while delta <= maxd {
                        let src = pa.add(PAGE - n);
                        guard_copy("memmove", mov, "end", n, -1, -delta, src.sub(delta as usize), src);
                        retagp(pa, PAGE - n - 16, PAGE);
                        guard_copy("memmove", mov, "start", n, -1, delta, pa.add(delta as usize), pa);
                        retagp(pa, 0, n + 16);
                        delta += 1;
                    }
                    // compares: one or both operands end at / start behind an unreadable page; equal ranges (the whole
                    // range must be read) and a difference in the last byte
                    if wide {
                        for (nm, f) in [("memcmp", cmpf), ("bcmp", bcmpf)] {
                            for p in [n, n.wrapping_sub(1)] {
                                if p > n {
                                    continue;
                                }
                                for bm in [0usize, 1, 3, 7, 8, 15] {
                                    guard_cmp(nm, f, "end_a", n, bm, p, pa.add(PAGE - n), sb.add(64 + bm));
                                    guard_cmp(nm, f, "end_b", n, bm, p, sb.add(64 + bm), pb.add(PAGE - n));
                                    guard_cmp(nm, f, "start_a", n, bm, p, pa, sb.add(64 + bm));
                                }
                                guard_cmp(nm, f, "end_ab", n, 0, p, pa.add(PAGE - n), pb.add(PAGE - n));
                                guard_cmp(nm, f, "start_ab", n, 0, p, pa, pb);
                            }
                        }
                        retagp(pa, 0, PAGE);
                    }
                }
            }
        } else if mode == b"steps" {
            putb(b'{');
            puts("\"f\":\"base\"");
            kv(false, "addr_hi", (sb as usize >> 24) as i64);
            kv(false, "addr_lo", (sb as usize & 0xff_ffff) as i64);
            puts("}\n");
            flush();
            core::ptr::addr_of_mut!(STEP_MARK).write_volatile(true);
            for line in cmd.split(|c| *c == b'\n').skip(1) {
                let f = word(line, 0);
                let n = num(word(line, 1)) as usize;
                let d = num(word(line, 2)) as usize;
                let x = num(word(line, 3));
                if line.is_empty() || n > 40 || d + n > SMALL_L {
                    continue;
                }
                if f == b"memcpy" && (x as usize) + n <= SMALL_L {
                    do_copy("memcpy", cpy, sb, SMALL_L, n, d, x as usize);
                } else if f == b"memmove" && (x as usize) + n <= SMALL_L {
                    do_copy("memmove", mov, sb, SMALL_L, n, d, x as usize);
                } else if f == b"memset" {
                    do_set(set, sb, SMALL_L, n, d, x as i32);
                }
            }
            core::ptr::addr_of_mut!(STEP_MARK).write_volatile(false);
        } else if mode == b"onecmp" {
            let f = word(cmd, 1);
            let n = num(word(cmd, 2)) as usize;
            let am = num(word(cmd, 3)) as usize;
            let bm = num(word(cmd, 4)) as usize;
            let p = num(word(cmd, 5)) as usize;
            let pair = num(word(cmd, 6)) as usize;
            if n <= 40 && am < 16 && bm < 16 && pair < 6 {
                if f == b"memcmp" {
                    do_cmp("memcmp", cmpf, sb, n, am, bm, p, pair);
                } else {
                    do_cmp("bcmp", bcmpf, sb, n, am, bm, p, pair);
                }
            }
        } else if mode == b"large" {
            let mut rng = Rng(num(word(cmd, 1)) as u64 * 2 + 0x9E37_79B9_7F4A_7C15);
            let count = num(word(cmd, 2)) as usize;
            let maxlen = core::cmp::min(num(word(cmd, 3)) as usize, 1 << 20);
            let bb = core::ptr::addr_of_mut!(BIG).cast::<u8>();
            fill_tags(bb, BIG_L);
            let half = BIG_L / 2;
            for k in 0..count {
                // lengths: log-uniform up to maxlen, with exact powers of two and +-1 mixed in
                let bits = 6 + rng.below(15);
                let mut n = (1usize << bits) + match rng.below(4) {
                    0 => 0,
                    1 => 1,
                    2 => (rng.below(1 << bits)) as usize,
                    _ => (1usize << bits) - 1 - rng.below(9) as usize,
                };
                if n > maxlen {
                    n = maxlen - rng.below(17) as usize;
                }
                let dm = rng.below(16) as usize;
                let sm = rng.below(16) as usize;
                match k % 5 {
                    0 => do_copy("memcpy", cpy, bb, BIG_L, n, 4096 + dm, half + 8192 + sm),
                    1 => do_copy("memmove", mov, bb, BIG_L, n, half + 8192 + dm, 4096 + sm),
                    2 => {
                        // overlapping, src above dst (forward copy needed)
                        let dist = 1 + rng.below(core::cmp::min(n as u64, 4096)) as usize;
                        do_copy("memmove", mov, bb, BIG_L, n, 8192 + dm, 8192 + dm + dist);
                    }
                    3 => {
                        // overlapping, dst above src (backward copy needed)
                        let dist = 1 + rng.below(core::cmp::min(n as u64, 4096)) as usize;
                        do_copy("memmove", mov, bb, BIG_L, n, 8192 + dm + dist, 8192 + dm);
                    }
                    _ => do_set(set, bb, BIG_L, n, 4096 + dm, FILLS[(k / 5) % 9]),
                }
            }
        }
        putb(b'{');
        puts("\"f\":\"end\"}\n");
        flush();
    }
    0
}
