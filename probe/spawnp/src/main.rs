//! C13 probe: `Command::spawn` in a no-libc executable started by tiny-std's own `_start`
//! (feature `start` fully alive: `Environment::Inherit` = the environment captured at start-up).
//!
//! The plan comes as arguments (one token each):
//!   bin=<path> arg=<a>.. env=<K=v>.. cwd=<dir> uid=<n> gid=<n> pg=<n>
//!   in=|out=|err=<inherit|null|pipe|fd:N>  pre=<code>..   (0 ok, >0 Os error, -1 error without code)
//!   wait=<op>,<op>..  the caller's calls on the Child: wait | try (one try_wait) | poll (stdin closed,
//!   try_wait until not None); default none.   bulk=1 (Command::args / envs)
//!   feed=<text> (written to the Child's stdin pipe before waiting)
//!   further ops in wait=: W (write payload=<N> pattern bytes to Child::stdin), C (drop Child::stdin),
//!   RO / RE (read Child::stdout / stderr to end-of-file) -> MARK:io:<op>:<res>:<n>:<a>:<b>:<head hex>
//!   respawn=same|<extra arg>: the same Command is spawned a second time (after Command::arg(extra))
//! Everything is reported through markers (writes to descriptor -1) which the tracer logs together
//! with the descriptor table of the marking task:
//!   MARK:spawn:begin / MARK:returned:ok:<in>,<out>,<err> (descriptor numbers of the Child's pipes,
//!   -1 = none) / MARK:returned:err:<code|none> / MARK:pre:<i> / MARK:waited:ok:<status> /
//!   MARK:waited:err:<code|none> / MARK:spawn:end.   A process that passes the return point and is not
//!   the caller exits 97 at once.
#![no_std]
#![no_main]
extern crate alloc;
use alloc::string::String;
use alloc::vec::Vec;
use core::fmt::Write;
use tiny_std::process::{Command, Stdio};
use tiny_std::unix::fd::AsRawFd;
use tiny_std::{Errno, UnixStr, UnixString};

fn mark(s: &str) {
    unsafe {
        sc::syscall!(WRITE, -1isize as usize, s.as_ptr(), s.len());
    }
}

fn num(s: &str) -> i32 {
    let (neg, d) = if let Some(r) = s.strip_prefix('-') { (true, r) } else { (false, s) };
    let mut v = 0i32;
    for b in d.bytes() {
        v = v * 10 + i32::from(b - b'0');
    }
    if neg {
        -v
    } else {
        v
    }
}

fn ustring(s: &str) -> UnixString {
    UnixString::try_from_str(s).unwrap()
}

fn stdio(s: &str) -> Option<Stdio> {
    match s {
        "unset" => None,
        "inherit" => Some(Stdio::Inherit),
        "null" => Some(Stdio::Null),
        "pipe" => Some(Stdio::MakePipe),
        _ => Some(Stdio::RawFd(rusl::platform::Fd::try_new(num(&s[3..])).unwrap())),
    }
}

fn err_code(e: &tiny_std::Error, out: &mut String) {
    if let tiny_std::Error::Os { code, .. } = e {
        let _ = write!(out, "{}", code.raw());
    } else {
        out.push_str("none");
    }
}

#[no_mangle]
pub fn main() -> i32 {
    let mut bin = None;
    let mut args: Vec<UnixString> = Vec::new();
    let mut envs: Vec<UnixString> = Vec::new();
    let mut cwd = None;
    let (mut uid, mut gid, mut pg) = (None, None, None);
    let (mut sin, mut sout, mut serr) = (None, None, None);
    let mut pre: Vec<i32> = Vec::new();
    let mut ops: Vec<String> = Vec::new();
    let mut bulk = false;
    let mut payload_n = 0usize;
    let mut respawn = false;
    let mut extra: Option<UnixString> = None;
    let mut feed: Option<String> = None;
    for a in tiny_std::env::args().skip(1) {
        let a = a.unwrap();
        let (k, v) = a.split_once('=').unwrap();
        match k {
            "bin" => bin = Some(ustring(v)),
            "arg" => args.push(ustring(v)),
            "env" => envs.push(ustring(v)),
            "cwd" => cwd = Some(ustring(v)),
            "uid" => uid = Some(num(v)),
            "gid" => gid = Some(num(v)),
            "pg" => pg = Some(num(v)),
            "in" => sin = stdio(v),
            "out" => sout = stdio(v),
            "err" => serr = stdio(v),
            "pre" => pre.push(num(v)),
            "wait" => ops = v.split(',').filter(|x| !x.is_empty()).map(String::from).collect(),
            "bulk" => bulk = true,
            "payload" => payload_n = num(v) as usize,
            "respawn" => {
                respawn = true;
                if v != "same" {
                    extra = Some(ustring(v));
                }
            }
            "feed" => feed = Some(String::from(v)),
            _ => return 2,
        }
    }
    let bin = bin.unwrap();
    let bin_ref: &UnixStr = &bin;
    let mut cmd = Command::new(bin_ref).unwrap();
    if bulk {
        cmd.args(args.iter().map(|s| -> &UnixStr { s }));
        cmd.envs(envs.into_iter());
    } else {
        for s in &args {
            cmd.arg(s);
        }
        for e in envs {
            cmd.env(e);
        }
    }
    if let Some(c) = &cwd {
        cmd.cwd(c);
    }
    if let Some(u) = uid {
        cmd.uid(u as _);
    }
    if let Some(g) = gid {
        cmd.gid(g as _);
    }
    if let Some(p) = pg {
        cmd.pgroup(p);
    }
    if let Some(s) = sin {
        cmd.stdin(s);
    }
    if let Some(s) = sout {
        cmd.stdout(s);
    }
    if let Some(s) = serr {
        cmd.stderr(s);
    }
    for (i, code) in pre.iter().copied().enumerate() {
        unsafe {
            cmd.pre_exec(move || {
                let m = [b'M', b'A', b'R', b'K', b':', b'p', b'r', b'e', b':', b'1' + i as u8];
                sc::syscall!(WRITE, -1isize as usize, m.as_ptr(), m.len());
                if code == 0 {
                    Ok(())
                } else if code > 0 {
                    Err(tiny_std::Error::Os { msg: "pre_exec plan", code: Errno::new(code) })
                } else {
                    Err(tiny_std::Error::Uncategorized("pre_exec plan"))
                }
            });
        }
    }
    let me = rusl::process::get_pid();
    let mut m = String::with_capacity(256);
    let payload: Vec<u8> = (0..payload_n).map(|i| ((i * 7 + 13) % 251) as u8).collect();
    let rounds = if respawn { 2 } else { 1 };
    for round in 1..=rounds {
        if round == 2 {
            if let Some(x) = &extra {
                cmd.arg(x);
            }
        }
        m.clear();
        mark("MARK:spawn:begin");
        let res = cmd.spawn();
        match &res {
            Ok(child) => {
                let fd = |p: &Option<tiny_std::process::AnonPipe>| p.as_ref().map_or(-1, |p| p.borrow_fd().as_raw_fd().value());
                let _ = write!(m, "MARK:returned:ok:{},{},{}", fd(&child.stdin), fd(&child.stdout), fd(&child.stderr));
            }
            Err(e) => {
                m.push_str("MARK:returned:err:");
                err_code(e, &mut m);
            }
        }
        mark(&m);
        if rusl::process::get_pid() != me {
            tiny_std::process::exit(97);
        }
        if let Ok(mut child) = res {
            if let (Some(f), Some(p)) = (&feed, child.stdin.as_mut()) {
                use tiny_std::io::Write as _;
                let _ = p.write(f.as_bytes());
            }
            for op in ops.iter() {
                m.clear();
                match op.as_str() {
                    "W" => {
                        use tiny_std::io::Write as _;
                        let mut off = 0;
                        let mut res = "ok";
                        if let Some(p) = child.stdin.as_mut() {
                            while off < payload.len() {
                                match p.write(&payload[off..]) {
                                    Ok(k) if k > 0 => off += k,
                                    _ => {
                                        res = "err";
                                        break;
                                    }
                                }
                            }
                        } else {
                            res = "nopipe";
                        }
                        let _ = write!(m, "MARK:io:W:{res}:{off}:0:0:");
                        mark(&m);
                        continue;
                    }
                    "C" => {
                        drop(child.stdin.take());
                        mark("MARK:io:C:ok:0:0:0:");
                        continue;
                    }
                    "RO" | "RE" => {
                        use tiny_std::io::Read as _;
                        let pipe = if op == "RO" { &mut child.stdout } else { &mut child.stderr };
                        if let Some(p) = pipe.as_mut() {
                            let (mut n, mut a, mut b) = (0u64, 1u32, 0u32);
                            let mut head: Vec<u8> = Vec::new();
                            let mut buf = [0u8; 4096];
                            let res = loop {
                                match p.read(&mut buf) {
                                    Ok(0) => break "eof",
                                    Ok(k) => {
                                        for &c in &buf[..k] {
                                            a = (a + u32::from(c)) % 65521;
                                            b = (b + a) % 65521;
                                        }
                                        if head.len() < 48 {
                                            let take = k.min(48 - head.len());
                                            head.extend_from_slice(&buf[..take]);
                                        }
                                        n += k as u64;
                                    }
                                    Err(_) => break "err",
                                }
                            };
                            let _ = write!(m, "MARK:io:{op}:{res}:{n}:{a}:{b}:");
                            for c in &head {
                                let _ = write!(m, "{c:02x}");
                            }
                        } else {
                            let _ = write!(m, "MARK:io:{op}:nopipe:0:0:0:");
                        }
                        mark(&m);
                        continue;
                    }
                    _ => {}
                }
                let r: tiny_std::Result<Option<i32>> = match op.as_str() {
                    "wait" => child.wait().map(Some),
                    "try" => child.try_wait(),
                    _ => {
                        // stdin pipe closed first, like `wait` does
                        drop(child.stdin.take());
                        loop {
                            match child.try_wait() {
                                Ok(None) => unsafe {
                                    let ts: [i64; 2] = [0, 2_000_000];
                                    sc::syscall!(NANOSLEEP, ts.as_ptr(), 0);
                                },
                                other => break other,
                            }
                        }
                    }
                };
                let _ = write!(m, "MARK:waited:{op}:");
                match r {
                    Ok(Some(st)) => {
                        let _ = write!(m, "ok:{st}");
                    }
                    Ok(None) => m.push_str("none:0"),
                    Err(e) => {
                        m.push_str("err:");
                        err_code(&e, &mut m);
                    }
                }
                mark(&m);
            }
        }
        mark("MARK:spawn:end");
    }
    0
}
