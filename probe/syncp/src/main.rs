//! syncprobe — tiny_std::sync::{Mutex, RwLock} together with tiny-std's OWN threads
//! (`tiny_std::thread::spawn`, feature `threaded`, no libc, no verification cfg): the composition no
//! std-linked harness can build.  One scenario per process, because "the first spawn of the
//! process" is part of what is exercised.
//!
//! usage: syncprobe <scenario>      scenario = <lock>_<when>
//!   lock: m (Mutex), rww (RwLock, main holds a write guard), rwr (RwLock, main holds a read guard)
//!   when: before (main takes its guard BEFORE the first thread of the process is spawned and keeps it
//!         across the spawn), after (a first thread has been spawned and has finished before)
//! Main (t=1) takes the guard, spawns the child (t=2).  The child calls the try variants (which must
//! respect main's guard), then the blocking acquisition (which must not return before main has
//! released, and must return afterwards).  Events on stdout in the format of specs/SyncTrace.tla
//! (call / ret / end), each with a global ticket `tk` drawn when the event happens; one write(2) per
//! line.  A blocking call that has not returned 5 s after the release is reported as blocked.
#![no_std]
#![no_main]

use core::sync::atomic::{AtomicU32, Ordering};
use sc::syscall;
use tiny_std::sync::{Mutex, RwLock};

static TICKET: AtomicU32 = AtomicU32::new(1);
/// progress of the child: 1 try variants done, 2 blocking acquisition returned, 3 finished
static STAGE: AtomicU32 = AtomicU32::new(0);
static FIRST_DONE: AtomicU32 = AtomicU32::new(0);
static M: Mutex<u64> = Mutex::new(0);
static RW: RwLock<u64> = RwLock::new(0);

fn write(fd: i32, b: &[u8]) {
    unsafe {
        syscall!(WRITE, fd, b.as_ptr(), b.len());
    }
}
fn sleep_us(us: u64) {
    let ts = [(us / 1_000_000) as i64, ((us % 1_000_000) * 1000) as i64];
    unsafe {
        syscall!(NANOSLEEP, ts.as_ptr(), 0);
    }
}
fn exit_group(code: i32) -> ! {
    unsafe {
        syscall!(EXIT_GROUP, code);
    }
    loop {}
}

struct Line {
    b: [u8; 160],
    n: usize,
}
impl Line {
    fn new() -> Self {
        Line { b: [0; 160], n: 0 }
    }
    fn s(&mut self, x: &str) -> &mut Self {
        self.b[self.n..self.n + x.len()].copy_from_slice(x.as_bytes());
        self.n += x.len();
        self
    }
    fn u(&mut self, mut v: u32) -> &mut Self {
        let mut d = [0u8; 10];
        let mut k = 0;
        loop {
            d[k] = b'0' + (v % 10) as u8;
            v /= 10;
            k += 1;
            if v == 0 {
                break;
            }
        }
        while k > 0 {
            k -= 1;
            self.b[self.n] = d[k];
            self.n += 1;
        }
        self
    }
    fn out(&mut self) {
        self.s("}\n");
        write(1, &self.b[..self.n]);
    }
}

fn call(t: u32, f: &str) {
    let tk = TICKET.fetch_add(1, Ordering::SeqCst);
    Line::new().s("{\"ev\":\"call\",\"t\":").u(t).s(",\"fn\":\"").s(f).s("\",\"tk\":").u(tk).out();
}
fn ret(t: u32, f: &str, ok: bool) {
    let tk = TICKET.fetch_add(1, Ordering::SeqCst);
    Line::new()
        .s("{\"ev\":\"ret\",\"t\":")
        .u(t)
        .s(",\"fn\":\"")
        .s(f)
        .s(if ok { "\",\"ok\":true,\"tk\":" } else { "\",\"ok\":false,\"tk\":" })
        .u(tk)
        .out();
}

#[derive(Clone, Copy, PartialEq)]
enum Kind {
    M,
    RwW,
    RwR,
}

fn child(kind: Kind) {
    match kind {
        Kind::M => {
            call(2, "try_lock");
            let g = M.try_lock();
            ret(2, "try_lock", g.is_some());
            if let Some(g) = g {
                call(2, "unlock");
                drop(g);
                ret(2, "unlock", true);
            }
            STAGE.store(1, Ordering::SeqCst);
            call(2, "lock");
            let mut g = M.lock();
            ret(2, "lock", true);
            *g += 1;
            STAGE.store(2, Ordering::SeqCst);
            call(2, "unlock");
            drop(g);
            ret(2, "unlock", true);
        }
        Kind::RwW | Kind::RwR => {
            call(2, "try_read");
            let g = RW.try_read();
            ret(2, "try_read", g.is_some());
            if let Some(g) = g {
                call(2, "unlock");
                drop(g);
                ret(2, "unlock", true);
            }
            call(2, "try_write");
            let g = RW.try_write();
            ret(2, "try_write", g.is_some());
            if let Some(g) = g {
                call(2, "unlock");
                drop(g);
                ret(2, "unlock", true);
            }
            STAGE.store(1, Ordering::SeqCst);
            if kind == Kind::RwW {
                // main holds a write guard: a reader has to wait for it
                call(2, "read");
                let g = RW.read();
                ret(2, "read", true);
                STAGE.store(2, Ordering::SeqCst);
                call(2, "unlock");
                drop(g);
                ret(2, "unlock", true);
            } else {
                // main holds a read guard: a writer has to wait for it
                call(2, "write");
                let mut g = RW.write();
                ret(2, "write", true);
                *g += 1;
                STAGE.store(2, Ordering::SeqCst);
                call(2, "unlock");
                drop(g);
                ret(2, "unlock", true);
            }
        }
    }
    STAGE.store(3, Ordering::SeqCst);
}

/// multiplies the wall-clock allowances (argv[2]; re-confirmation runs on a loaded machine)
static SCALE: AtomicU32 = AtomicU32::new(1);

fn wait_stage(at_least: u32, ms: u32) -> bool {
    for _ in 0..ms * 5 * SCALE.load(Ordering::SeqCst) {
        if STAGE.load(Ordering::SeqCst) >= at_least {
            return true;
        }
        sleep_us(200);
    }
    false
}

fn end(blocked: bool) -> ! {
    let tk = TICKET.fetch_add(1, Ordering::SeqCst);
    Line::new()
        .s(if blocked { "{\"ev\":\"end\",\"blocked\":[2],\"done\":[1]" } else { "{\"ev\":\"end\",\"blocked\":[],\"done\":[1,2]" })
        .s(",\"cut\":false,\"debug\":")
        .u(u32::from(cfg!(debug_assertions)))
        .s(",\"tk\":")
        .u(tk)
        .out();
    exit_group(0)
}

#[no_mangle]
pub fn main() -> i32 {
    let mut args = tiny_std::env::args();
    let _ = args.next();
    let Some(Ok(sc)) = args.next() else {
        write(2, b"usage: syncprobe <m|rww|rwr>_<before|after>\n");
        return 2;
    };
    if let Some(Ok(x)) = args.next() {
        let mut v = 0u32;
        for b in x.as_bytes() {
            if b.is_ascii_digit() {
                v = v * 10 + u32::from(*b - b'0');
            }
        }
        SCALE.store(v.clamp(1, 1000), Ordering::SeqCst);
    }
    let kind = if sc.starts_with("m_") {
        Kind::M
    } else if sc.starts_with("rww_") {
        Kind::RwW
    } else if sc.starts_with("rwr_") {
        Kind::RwR
    } else {
        return 2;
    };
    if sc.ends_with("_after") {
        // the process has had a second thread before any lock is touched
        match tiny_std::thread::spawn(|| FIRST_DONE.store(1, Ordering::SeqCst)) {
            Ok(h) => {
                let _ = h.join();
            }
            Err(_) => return 3,
        }
        while FIRST_DONE.load(Ordering::SeqCst) == 0 {
            sleep_us(100);
        }
    }
    // main's guard
    let (mg, rg, wg);
    match kind {
        Kind::M => {
            call(1, "lock");
            mg = Some(M.lock());
            ret(1, "lock", true);
            rg = None;
            wg = None;
        }
        Kind::RwW => {
            call(1, "write");
            wg = Some(RW.write());
            ret(1, "write", true);
            mg = None;
            rg = None;
        }
        Kind::RwR => {
            call(1, "read");
            rg = Some(RW.read());
            ret(1, "read", true);
            mg = None;
            wg = None;
        }
    }
    match tiny_std::thread::spawn(move || child(kind)) {
        Ok(h) => core::mem::forget(h),
        Err(_) => return 3,
    }
    // the child finishes its try variants, then enters the blocking call: give it time to park
    if !wait_stage(1, 5000) {
        end(true);
    }
    sleep_us(40_000);
    call(1, "unlock");
    drop(mg);
    drop(wg);
    drop(rg);
    ret(1, "unlock", true);
    let finished = wait_stage(3, 5000);
    end(!finished)
}
