//! vdsofn <image-file>... : for each file, load it 4096-aligned and print the offset tiny-std's vDSO
//! symbol lookup resolves for clock_gettime ("none" if it finds nothing).  A fault inside the lookup kills
//! the process: the driver runs one process per image when that matters.
use std::alloc::{alloc_zeroed, Layout};

fn main() {
    for path in std::env::args().skip(1) {
        let data = std::fs::read(&path).expect("read image");
        let layout = Layout::from_size_align(data.len() + 8192, 4096).unwrap();
        let off = unsafe {
            let buf = alloc_zeroed(layout);
            std::ptr::copy_nonoverlapping(data.as_ptr(), buf, data.len());
            tiny_std::elf::verif_find_clock_gettime(buf)
        };
        match off {
            Some(o) => println!("{} {}", path, o),
            None => println!("{} none", path),
        }
    }
}
