//! Counting wrapper around the repository's allocator.
//!
//! The inner allocator is exactly what tiny-std's `global-allocator` + `threaded` features
//! install: `tiny_std::sync::Mutex<tiny_std::allocator::dlmalloc::Dlmalloc>` with
//! malloc/free/calloc/realloc forwarded 1:1.  Around it the wrapper keeps a table of live
//! blocks (address -> layout, serial, allocating task), detects frees of blocks that are not
//! live (double free, foreign pointer — those are NOT passed on, so the run can continue),
//! frees with a different layout, and logs every call as an event:
//! `alloc` is logged after the inner call returned, `dealloc` before the inner call is made, so
//! the order of events of one address is the order of ownership.
use crate::ev::Ev;
use crate::sys;
use core::alloc::{GlobalAlloc, Layout};
use core::cell::UnsafeCell;
use core::sync::atomic::{AtomicBool, AtomicU32, AtomicU64, Ordering};
use tiny_std::allocator::dlmalloc::Dlmalloc;

const CAP: usize = 1 << 17;

#[derive(Clone, Copy)]
pub struct Entry {
    pub ptr: usize,
    pub size: usize,
    pub align: u32,
    pub tid: u32,
    pub serial: u64,
}

const EMPTY: Entry = Entry { ptr: 0, size: 0, align: 0, tid: 0, serial: 0 };

pub struct Table {
    lock: AtomicU32,
    slots: UnsafeCell<[Entry; CAP]>,
    pub live: AtomicU64,
    pub live_bytes: AtomicU64,
    pub serial: AtomicU64,
    pub badfree: AtomicU64,
}

unsafe impl Sync for Table {}

pub static TABLE: Table = Table {
    lock: AtomicU32::new(0),
    slots: UnsafeCell::new([EMPTY; CAP]),
    live: AtomicU64::new(0),
    live_bytes: AtomicU64::new(0),
    serial: AtomicU64::new(1),
    badfree: AtomicU64::new(0),
};

/// log alloc/dealloc events (off during start-up and for the probe's own noise)
pub static LOG: AtomicBool = AtomicBool::new(false);
/// fill a block with 0xDE when it is freed (before Dlmalloc gets it back): a correct program never
/// reads freed memory, a use after free that the protocol points do not announce reads garbage and
/// shows up as a wrong value / mismatching layout / lost flag instead of going unnoticed
pub static POISON: AtomicBool = AtomicBool::new(true);

#[inline]
fn hash(p: usize) -> usize {
    ((p >> 4).wrapping_mul(0x9E37_79B9_7F4A_7C15) >> 20) & (CAP - 1)
}

impl Table {
    fn lock(&self) {
        let mut spins = 0u32;
        while self
            .lock
            .compare_exchange_weak(0, 1, Ordering::Acquire, Ordering::Relaxed)
            .is_err()
        {
            spins += 1;
            if spins > 200 {
                sys::sched_yield();
                spins = 0;
            } else {
                core::hint::spin_loop();
            }
        }
    }

    fn unlock(&self) {
        self.lock.store(0, Ordering::Release);
    }

    /// returns false if the address is already live (cannot happen with a sane inner allocator)
    fn insert(&self, e: Entry) -> bool {
        self.lock();
        let slots = unsafe { &mut *self.slots.get() };
        let mut i = hash(e.ptr);
        let mut ok = true;
        loop {
            if slots[i].ptr == 0 {
                slots[i] = e;
                break;
            }
            if slots[i].ptr == e.ptr {
                ok = false;
                slots[i] = e;
                break;
            }
            i = (i + 1) & (CAP - 1);
        }
        self.unlock();
        ok
    }

    fn remove(&self, ptr: usize) -> Option<Entry> {
        self.lock();
        let slots = unsafe { &mut *self.slots.get() };
        let mut i = hash(ptr);
        let mut found = None;
        loop {
            if slots[i].ptr == 0 {
                break;
            }
            if slots[i].ptr == ptr {
                found = Some(slots[i]);
                // backward shift deletion
                let mut hole = i;
                let mut j = (i + 1) & (CAP - 1);
                loop {
                    if slots[j].ptr == 0 {
                        break;
                    }
                    let home = hash(slots[j].ptr);
                    // can slot j move into the hole? yes if home is cyclically outside (hole, j]
                    let between = if hole <= j { home > hole && home <= j } else { home > hole || home <= j };
                    if !between {
                        slots[hole] = slots[j];
                        hole = j;
                    }
                    j = (j + 1) & (CAP - 1);
                }
                slots[hole] = EMPTY;
                break;
            }
            i = (i + 1) & (CAP - 1);
        }
        self.unlock();
        found
    }

    /// Visit all live entries with serial > `after` (under the lock; `f` must not allocate).
    pub fn for_each_after(&self, after: u64, f: &mut dyn FnMut(&Entry)) {
        self.lock();
        let slots = unsafe { &*self.slots.get() };
        for e in slots.iter() {
            if e.ptr != 0 && e.serial > after {
                f(e);
            }
        }
        self.unlock();
    }
}

pub struct CountingAlloc {
    inner: tiny_std::sync::Mutex<Dlmalloc>,
}

unsafe impl Sync for CountingAlloc {}
unsafe impl Send for CountingAlloc {}

impl CountingAlloc {
    pub const fn new() -> Self {
        Self { inner: tiny_std::sync::Mutex::new(Dlmalloc::new()) }
    }

    fn record(&self, p: *mut u8, layout: Layout, how: &str) {
        if p.is_null() {
            if LOG.load(Ordering::Relaxed) {
                Ev::new("allocfail").u("sz", layout.size() as u64).emit();
            }
            return;
        }
        let serial = TABLE.serial.fetch_add(1, Ordering::SeqCst);
        let tid = sys::gettid();
        let fresh = TABLE.insert(Entry { ptr: p as usize, size: layout.size(), align: layout.align() as u32, tid, serial });
        TABLE.live.fetch_add(1, Ordering::Relaxed);
        TABLE.live_bytes.fetch_add(layout.size() as u64, Ordering::Relaxed);
        if !fresh {
            Ev::new("allocdup").u("p", p as u64).emit();
        }
        if LOG.load(Ordering::Relaxed) {
            Ev::new(how)
                .u("p", p as u64)
                .u("sz", layout.size() as u64)
                .u("al", layout.align() as u64)
                .u("ser", serial)
                .emit();
        }
    }

    /// Some(recorded size): block was live, go on and free it
    fn unrecord(&self, p: *mut u8, layout: Layout, how: &str) -> Option<usize> {
        match TABLE.remove(p as usize) {
            None => {
                TABLE.badfree.fetch_add(1, Ordering::SeqCst);
                Ev::new("badfree")
                    .s("kind", "notlive")
                    .u("p", p as u64)
                    .u("sz", layout.size() as u64)
                    .u("al", layout.align() as u64)
                    .emit();
                None
            }
            Some(e) => {
                TABLE.live.fetch_sub(1, Ordering::Relaxed);
                TABLE.live_bytes.fetch_sub(e.size as u64, Ordering::Relaxed);
                if e.size != layout.size() || e.align as usize != layout.align() {
                    TABLE.badfree.fetch_add(1, Ordering::SeqCst);
                    Ev::new("badfree")
                        .s("kind", "layout")
                        .u("p", p as u64)
                        .u("sz", layout.size() as u64)
                        .u("al", layout.align() as u64)
                        .u("asz", e.size as u64)
                        .u("aal", e.align as u64)
                        .u("ser", e.serial)
                        .emit();
                } else if LOG.load(Ordering::Relaxed) {
                    Ev::new(how)
                        .u("p", p as u64)
                        .u("sz", layout.size() as u64)
                        .u("ser", e.serial)
                        .u("atid", e.tid as u64)
                        .emit();
                }
                Some(e.size)
            }
        }
    }
}

unsafe impl GlobalAlloc for CountingAlloc {
    unsafe fn alloc(&self, layout: Layout) -> *mut u8 {
        let p = self.inner.lock().malloc(layout.size(), layout.align());
        self.record(p, layout, "alloc");
        p
    }

    unsafe fn dealloc(&self, ptr: *mut u8, layout: Layout) {
        if let Some(sz) = self.unrecord(ptr, layout, "dealloc") {
            if POISON.load(Ordering::Relaxed) {
                core::ptr::write_bytes(ptr, 0xDE, sz);
            }
            self.inner.lock().free(ptr);
        }
    }

    unsafe fn alloc_zeroed(&self, layout: Layout) -> *mut u8 {
        let p = self.inner.lock().calloc(layout.size(), layout.align());
        self.record(p, layout, "alloc");
        p
    }

    unsafe fn realloc(&self, ptr: *mut u8, layout: Layout, new_size: usize) -> *mut u8 {
        if self.unrecord(ptr, layout, "dealloc").is_none() {
            return core::ptr::null_mut();
        }
        let p = self.inner.lock().realloc(ptr, layout.size(), layout.align(), new_size);
        if p.is_null() {
            // old block stays valid
            self.record(ptr, layout, "alloc");
            return p;
        }
        self.record(p, Layout::from_size_align_unchecked(new_size, layout.align()), "alloc");
        p
    }
}
