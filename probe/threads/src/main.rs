//! thrprobe — no-libc probe for tiny-std's thread life cycle (properties C05 / C06).
//!
//! usage: thrprobe <script-file> <out-file>
//!
//! The main thread is the driver / point scheduler / watchdog.  One executor thread `H` (created
//! with tiny-std's own `thread::spawn` during start-up, never joined) owns every JoinHandle of
//! the scenarios: it spawns, joins and drops.  Script commands (one per line):
//!
//!   set logalloc=0|1 logpt=0|1 watchdog=<ms> jitter=<permille> jseed=<n>
//!   baseline                       remember heap serial / thread count / statm / maps
//!   quiesce                        wait until only main+H are left; report what is still live
//!   batch n= seed= conc= panic=<pct> drop=<pct> types=<bitmask>
//!   one ty=<name> fin=ret|panic op=join|drop|keep pre=<us> hdelay=<us> gate=0|1 wake=0|1
//!   sched ops=<op;op..> steps=<tok,tok..>     op: s<p>:<ty>:<r|p>  j<p>  d<p>
//!                                             tok: h<id>  t<p>.<id>  w  h><id|p>  t<p>><id>
//!   explore ops=<op;op..> max=<n>           DFS over owner/thread interleavings at the flag accesses
//!   race n= seed= spin=<iterations> drop=<pct>   quiet stress of the drop/finish race
//!   mark <text>
#![no_std]
#![no_main]

extern crate alloc;

mod calloc;
mod ev;
mod sched;
mod sys;

use alloc::vec::Vec;
use core::cell::UnsafeCell;
use core::sync::atomic::{AtomicBool, AtomicU32, AtomicU64, Ordering};
use ev::Ev;
use tiny_std::thread::JoinHandle;

#[global_allocator]
static GLOBAL: calloc::CountingAlloc = calloc::CountingAlloc::new();

struct Racy<T>(UnsafeCell<T>);
unsafe impl<T> Sync for Racy<T> {}
impl<T> Racy<T> {
    const fn new(v: T) -> Self {
        Racy(UnsafeCell::new(v))
    }
    #[allow(clippy::mut_from_ref)]
    unsafe fn get(&self) -> &mut T {
        &mut *self.0.get()
    }
}

// ------------------------------------------------------------------------------------------
// result types
// ------------------------------------------------------------------------------------------
const MAXK: usize = 1 << 16;
static RUNS: [AtomicU32; MAXK] = [const { AtomicU32::new(0) }; MAXK];
/// plain (non-atomic) memory written by the closure, read by the joiner after join
static EFFECT: Racy<[u64; MAXK]> = Racy::new([0; MAXK]);
static CEND: [AtomicBool; MAXK] = [const { AtomicBool::new(false) }; MAXK];
static HRET: [AtomicBool; MAXK] = [const { AtomicBool::new(false) }; MAXK];
static GATE: AtomicU32 = AtomicU32::new(1);
/// gate mode 2: raised by the handle owner right after `spawn` has returned; the closure waits for it
/// (a closure may wait for its spawner: spawn must not wait for the closure)
static HGATE: AtomicU32 = AtomicU32::new(0);
/// scheduled commands that got stuck in this process (a party neither reached a point nor left)
static STUCK_CMDS: AtomicU32 = AtomicU32::new(0);
static STARTED: [AtomicBool; MAXK] = [const { AtomicBool::new(false) }; MAXK];
/// race batches: no per-thread events at all (the race window must stay narrow)
static QUIET: AtomicBool = AtomicBool::new(false);
static RACE_BAD: AtomicU32 = AtomicU32::new(0);

#[inline]
fn tag(k: u32) -> u64 {
    (k as u64).wrapping_mul(0x9E37_79B9_7F4A_7C15) | 1
}

trait Tagged: Send + 'static {
    const NAME: &'static str;
    fn make(k: u32) -> Self;
    fn ok(&self, k: u32) -> bool;
    fn consumed_by_probe(&mut self) {}
}

struct Z;
impl Tagged for Z {
    const NAME: &'static str = "z";
    fn make(_k: u32) -> Self {
        Z
    }
    fn ok(&self, _k: u32) -> bool {
        true
    }
}
impl Tagged for u8 {
    const NAME: &'static str = "u8";
    fn make(k: u32) -> Self {
        tag(k) as u8
    }
    fn ok(&self, k: u32) -> bool {
        *self == tag(k) as u8
    }
}
impl Tagged for u128 {
    const NAME: &'static str = "u128";
    fn make(k: u32) -> Self {
        ((tag(k) as u128) << 64) | (!tag(k)) as u128
    }
    fn ok(&self, k: u32) -> bool {
        *self == (((tag(k) as u128) << 64) | (!tag(k)) as u128)
    }
}
struct Arr([u64; 17]);
impl Tagged for Arr {
    const NAME: &'static str = "arr";
    fn make(k: u32) -> Self {
        let mut a = [0u64; 17];
        for (i, x) in a.iter_mut().enumerate() {
            *x = tag(k).wrapping_add(i as u64);
        }
        Arr(a)
    }
    fn ok(&self, k: u32) -> bool {
        self.0.iter().enumerate().all(|(i, x)| *x == tag(k).wrapping_add(i as u64))
    }
}
#[repr(align(64))]
struct A64([u8; 64]);
impl Tagged for A64 {
    const NAME: &'static str = "a64";
    fn make(k: u32) -> Self {
        A64([tag(k) as u8; 64])
    }
    fn ok(&self, k: u32) -> bool {
        (core::ptr::from_ref(self) as usize) % 64 == 0 && self.0.iter().all(|x| *x == tag(k) as u8)
    }
}
impl Tagged for Vec<u8> {
    const NAME: &'static str = "vec";
    fn make(k: u32) -> Self {
        let mut v = Vec::with_capacity(1 + (k % 40) as usize);
        for _ in 0..(1 + k % 40) {
            v.push(tag(k) as u8);
        }
        v
    }
    fn ok(&self, k: u32) -> bool {
        self.len() == 1 + (k % 40) as usize && self.iter().all(|x| *x == tag(k) as u8)
    }
}
/// A result whose destructor is observable: `vdrop` event.
struct Dv {
    k: u32,
    t: u64,
    by_probe: bool,
}
impl Drop for Dv {
    fn drop(&mut self) {
        if QUIET.load(Ordering::Relaxed) {
            return;
        }
        Ev::new("vdrop").u("k", self.k as u64).b("by_probe", self.by_probe).emit();
    }
}
impl Tagged for Dv {
    const NAME: &'static str = "dv";
    fn make(k: u32) -> Self {
        Dv { k, t: tag(k), by_probe: false }
    }
    fn ok(&self, k: u32) -> bool {
        self.k == k && self.t == tag(k)
    }
    fn consumed_by_probe(&mut self) {
        self.by_probe = true;
    }
}

/// Zero-sized result WITH a destructor: it cannot carry its thread's number, the `vdrop` event is
/// attributed by the task that runs the destructor (the thread itself, or the handle owner).
struct Zd;
impl Drop for Zd {
    fn drop(&mut self) {
        if QUIET.load(Ordering::Relaxed) {
            return;
        }
        Ev::new("vdrop").u("k", 0).u("zst", 1).emit();
    }
}
impl Tagged for Zd {
    const NAME: &'static str = "zd";
    fn make(_k: u32) -> Self {
        Zd
    }
    fn ok(&self, _k: u32) -> bool {
        true
    }
}
/// Over-aligned result with a destructor.
#[repr(align(64))]
struct A64d {
    k: u32,
    t: u64,
    by_probe: bool,
    pad: [u8; 40],
}
impl Drop for A64d {
    fn drop(&mut self) {
        if QUIET.load(Ordering::Relaxed) {
            return;
        }
        Ev::new("vdrop").u("k", self.k as u64).b("by_probe", self.by_probe).emit();
    }
}
impl Tagged for A64d {
    const NAME: &'static str = "a64d";
    fn make(k: u32) -> Self {
        A64d { k, t: tag(k), by_probe: false, pad: [tag(k) as u8; 40] }
    }
    fn ok(&self, k: u32) -> bool {
        (core::ptr::from_ref(self) as usize) % 64 == 0 && self.k == k && self.t == tag(k) && self.pad.iter().all(|x| *x == tag(k) as u8)
    }
    fn consumed_by_probe(&mut self) {
        self.by_probe = true;
    }
}
/// Large result with a destructor.
struct Arrd {
    k: u32,
    a: [u64; 17],
    by_probe: bool,
}
impl Drop for Arrd {
    fn drop(&mut self) {
        if QUIET.load(Ordering::Relaxed) {
            return;
        }
        Ev::new("vdrop").u("k", self.k as u64).b("by_probe", self.by_probe).emit();
    }
}
impl Tagged for Arrd {
    const NAME: &'static str = "arrd";
    fn make(k: u32) -> Self {
        let mut a = [0u64; 17];
        for (i, x) in a.iter_mut().enumerate() {
            *x = tag(k).wrapping_add(i as u64);
        }
        Arrd { k, a, by_probe: false }
    }
    fn ok(&self, k: u32) -> bool {
        self.k == k && self.a.iter().enumerate().all(|(i, x)| *x == tag(k).wrapping_add(i as u64))
    }
    fn consumed_by_probe(&mut self) {
        self.by_probe = true;
    }
}

/// A result whose destructor PANICS when the runtime drops it (not when the probe drops a value it
/// was given by join: that would be the probe's own thread panicking).  Only used in scenarios where
/// the handle is dropped first, so that the thread itself has to drop the value.
struct Pd {
    k: u32,
    t: u64,
    by_probe: bool,
}
impl Drop for Pd {
    fn drop(&mut self) {
        Ev::new("vdrop").u("k", self.k as u64).b("by_probe", self.by_probe).emit();
        if !self.by_probe {
            Ev::new("vpanic").u("k", self.k as u64).emit();
            panic!("probe: the destructor of the thread's return value panics");
        }
    }
}
impl Tagged for Pd {
    const NAME: &'static str = "pd";
    fn make(k: u32) -> Self {
        Pd { k, t: tag(k), by_probe: false }
    }
    fn ok(&self, k: u32) -> bool {
        self.k == k && self.t == tag(k)
    }
    fn consumed_by_probe(&mut self) {
        self.by_probe = true;
    }
}

/// random mixtures draw from the first NTYPES types; "pd" (index 10) only on request
const NTYPES: u32 = 10;
const TYPE_NAMES: [&str; 11] = ["z", "u8", "u128", "arr", "a64", "vec", "dv", "zd", "a64d", "arrd", "pd"];

enum AnyH {
    Z(JoinHandle<Z>),
    U8(JoinHandle<u8>),
    U128(JoinHandle<u128>),
    Arr(JoinHandle<Arr>),
    A64(JoinHandle<A64>),
    Vec(JoinHandle<Vec<u8>>),
    Dv(JoinHandle<Dv>),
    Zd(JoinHandle<Zd>),
    A64d(JoinHandle<A64d>),
    Arrd(JoinHandle<Arrd>),
    Pd(JoinHandle<Pd>),
}

// ------------------------------------------------------------------------------------------
// the closure and the three handle operations
// ------------------------------------------------------------------------------------------
#[derive(Clone, Copy)]
struct ThreadPlan {
    k: u32,
    party: u8,
    panic: bool,
    /// 0 nothing, 1 short spin, 2 yield, >=3: sleep that many microseconds
    pre: u32,
    gate: bool,
    /// wait for the spawner's post-spawn signal (HGATE)
    hgate: bool,
    /// how a panicking closure panics (see `do_panic`)
    pk: u8,
    /// what the closure does before it finishes (see `work`)
    wk: u8,
    /// alignment of a value the closure OWNS (captured by value): 0 none, 16, 32, 64, 4096
    ck: u16,
}

macro_rules! cap_type {
    ($name:ident, $al:literal) => {
        #[repr(align($al))]
        struct $name([u8; 96]);
        impl $name {
            fn new(k: u32) -> Self {
                $name([tag(k) as u8; 96])
            }
        }
    };
}
/// a capture whose destructor reports itself: what a closure owns must be dropped exactly once when
/// the closure is consumed (it ran to its end, or spawn failed and gave it up)
struct Token {
    k: u32,
}
impl Drop for Token {
    fn drop(&mut self) {
        Ev::new("tokdrop").u("k", self.k as u64).emit();
    }
}
cap_type!(C16, 16);
cap_type!(C32, 32);
cap_type!(C64, 64);
cap_type!(C4096, 4096);

/// The closure checks the value it owns: is it where its type says it may be (address a multiple of
/// the type's alignment - read through black_box, the compiler may otherwise assume it), and does it
/// still hold what was put into it?  Reported as an event, not left to an alignment fault.
#[inline(never)]
fn cap_check(p: *const u8, align: usize, k: u32) {
    let a = core::hint::black_box(p as usize);
    let mut same = true;
    for i in 0..96 {
        same &= unsafe { p.add(i).read_volatile() } == tag(k) as u8;
    }
    Ev::new("cap").u("k", k as u64).u("align", align as u64).u("mod", (a % align) as u64).b("ok", a % align == 0 && same).emit();
}

pub const NPANIC: u8 = 11;
/// kinds that leave a process-wide print lock of tiny-std locked for ever (the guard of a panicking
/// thread is never dropped): usable once per process each
pub const PK_EPRINTLN: u8 = 1;
pub const PK_PRINTLN: u8 = 2;
pub const PK_DBG: u8 = 10;
static PMUTEX: [tiny_std::sync::Mutex<u64>; 16] = [const { tiny_std::sync::Mutex::new(0) }; 16];

struct PanicsInDisplay;
impl core::fmt::Display for PanicsInDisplay {
    fn fmt(&self, _f: &mut core::fmt::Formatter<'_>) -> core::fmt::Result {
        panic!("probe: panic inside Display::fmt, i.e. while the print lock is held");
    }
}
struct PanicsInDebug;
impl core::fmt::Debug for PanicsInDebug {
    fn fmt(&self, _f: &mut core::fmt::Formatter<'_>) -> core::fmt::Result {
        panic!("probe: panic inside Debug::fmt, i.e. while the print lock is held");
    }
}
struct PanicsInDrop(u32);
impl Drop for PanicsInDrop {
    fn drop(&mut self) {
        if core::hint::black_box(self.0) != 0 {
            panic!("probe: panic inside Drop::drop of a local");
        }
    }
}

/// The ways a closure can panic.  Whatever the closure held or was doing, the thread must still
/// leave (panic handler: release, unmap, exit) and `join` must return None.
#[inline(never)]
fn do_panic(kind: u8, k: u32) -> ! {
    match kind {
        1 => {
            // eprintln! takes tiny-std's stderr lock BEFORE it evaluates / formats its arguments
            let none: Option<u32> = core::hint::black_box(None);
            tiny_std::eprintln!("probe k={} value={}", k, none.unwrap());
        }
        2 => {
            tiny_std::println!("probe k={} {}", k, PanicsInDisplay);
        }
        3 => {
            // a tiny-std Mutex guard is held when the panic happens (it is never released)
            let m = &PMUTEX[k as usize % 16];
            if let Some(mut g) = m.try_lock() {
                *g += 1;
                panic!("probe: panic while holding a tiny_std::sync::Mutex guard {}", *g);
            }
        }
        4 => {
            let _d = PanicsInDrop(core::hint::black_box(k | 1));
        }
        5 => {
            let none: Option<u64> = core::hint::black_box(None);
            let _ = core::hint::black_box(none.unwrap());
        }
        6 => {
            let v = [1u8, 2, 3];
            let i = core::hint::black_box(k as usize + 3);
            let _ = core::hint::black_box(v[i]);
        }
        7 => {
            // arithmetic overflow: panics in builds with overflow checks, wraps otherwise
            let a: u8 = core::hint::black_box(250);
            let b: u8 = core::hint::black_box((k % 200) as u8 + 10);
            #[allow(clippy::arithmetic_side_effects)]
            let _ = core::hint::black_box(a + b);
        }
        8 => {
            let words = [tag(k); 24];
            panic!("probe: a long formatted message k={k} words={words:?} text={}", "0123456789abcdef0123456789abcdef0123456789abcdef0123456789abcdef");
        }
        9 => {
            // the result is half built (a large value on the stack) when the closure gives up
            let mut half = [0u64; 17];
            for (i, x) in half.iter_mut().enumerate().take(9) {
                *x = tag(k).wrapping_add(i as u64);
            }
            if core::hint::black_box(half[8]) != 0 {
                panic!("probe: panic after the result was partially built {}", half[3]);
            }
        }
        10 => {
            let _ = tiny_std::dbg!(PanicsInDebug);
        }
        _ => {}
    }
    panic!("probe closure panics on purpose");
}

pub const NWORK: u8 = 5;

#[inline(never)]
fn recurse(depth: u32, k: u32) -> u64 {
    // about 1 KiB of live frame per level
    let mut pad = [0u8; 1024];
    let b = core::hint::black_box(&mut pad);
    b[(depth as usize * 7) % 1024] = depth as u8;
    b[1023] = k as u8;
    let below = if depth == 0 { 0 } else { recurse(depth - 1, k) };
    below.wrapping_add(b[(depth as usize * 7) % 1024] as u64).wrapping_add(b[1023] as u64)
}

/// What real programs do on a thread before it finishes.  Returns k if everything the closure
/// computed on its own stack and heap is what it wrote there - the closure's result is derived
/// from it, so a thread whose private memory was tampered with returns a wrong value.
#[inline(never)]
fn work(kind: u8, k: u32) -> u32 {
    match kind {
        1 => {
            // fork + wait (what process::Command::spawn does): the child scribbles over its COPY of
            // the closure's locals and a good part of the stack below them, then leaves
            let mut loc = [tag(k); 64];
            let p = core::hint::black_box(loc.as_mut_ptr());
            let pid = unsafe { sc::syscall!(FORK) as isize };
            if pid == 0 {
                unsafe {
                    for i in 0..64 {
                        p.add(i).write_volatile(0xDEAD_0000 + i as u64);
                    }
                    let mut junk = [0x55u8; 8192];
                    core::hint::black_box(&mut junk);
                    sc::syscall!(EXIT_GROUP, 0);
                }
            }
            if pid > 0 {
                unsafe {
                    sc::syscall!(WAIT4, pid, 0, 0, 0);
                }
            }
            let mut ok = pid > 0;
            for i in 0..64 {
                ok &= unsafe { p.add(i).read_volatile() } == tag(k);
            }
            if ok { k } else { !k }
        }
        2 => {
            // a spawned thread spawns and joins a thread of its own
            let inner = tiny_std::thread::spawn(move || tag(k).rotate_left(7));
            match inner {
                Ok(h) => match h.join() {
                    Some(v) if v == tag(k).rotate_left(7) => k,
                    _ => !k,
                },
                Err(_) => !k,
            }
        }
        3 => {
            // large stack use: 512 levels of ~1 KiB frames
            let want = (0..=511u32).fold(0u64, |a, d| a.wrapping_add(d as u8 as u64).wrapping_add(k as u8 as u64));
            if recurse(511, k) == want { k } else { !k }
        }
        4 => {
            // allocation heavy
            let mut v: Vec<Vec<u8>> = Vec::new();
            for i in 0..120u32 {
                let n = 1 + ((k.wrapping_mul(31).wrapping_add(i * 97)) % 3000) as usize;
                let mut b = Vec::with_capacity(n);
                b.resize(n, (k as u8) ^ (i as u8));
                v.push(b);
                if i % 3 == 2 {
                    let j = (i as usize * 5) % v.len();
                    v.swap_remove(j);
                }
            }
            let ok = v.iter().all(|b| b.iter().all(|x| *x == b[0]));
            if ok { k } else { !k }
        }
        _ => k,
    }
}

fn body<T: Tagged>(p: ThreadPlan) -> T {
    if QUIET.load(Ordering::Relaxed) {
        let k = p.k as usize % MAXK;
        RUNS[k].fetch_add(1, Ordering::SeqCst);
        unsafe {
            EFFECT.get()[k] = tag(p.k);
        }
        STARTED[k].store(true, Ordering::SeqCst);
        if p.panic {
            do_panic(p.pk, p.k);
        }
        return T::make(p.k);
    }
    sched::t_register(p.party as usize);
    let k = p.k;
    let n = RUNS[k as usize % MAXK].fetch_add(1, Ordering::SeqCst);
    Ev::new("run").u("k", k as u64).u("nth", n as u64 + 1).emit();
    match p.pre {
        0 => {}
        1 => {
            for _ in 0..2000 {
                core::hint::spin_loop();
            }
        }
        2 => sys::sched_yield(),
        us => sys::sleep_us(us as u64),
    }
    if p.hgate {
        // no deadline worth the name: if the spawner never gets to raise it, that is the finding
        let t0 = sys::now_us();
        while HGATE.load(Ordering::SeqCst) == 0 && sys::now_us() - t0 < 60_000_000 {
            sys::futex_wait(HGATE.as_ptr() as usize, 0, 10_000);
        }
    }
    if p.gate {
        let t0 = sys::now_us();
        while GATE.load(Ordering::SeqCst) == 0 && sys::now_us() - t0 < 3_000_000 {
            sys::futex_wait(GATE.as_ptr() as usize, 0, 10_000);
        }
    }
    unsafe {
        // plain store: must be visible to whoever joins this thread
        EFFECT.get()[k as usize % MAXK] = tag(k);
    }
    if p.panic {
        if p.wk != 0 {
            core::hint::black_box(work(p.wk, k));
        }
        CEND[k as usize % MAXK].store(true, Ordering::SeqCst);
        Ev::new("cpanic").u("k", k as u64).u("pk", p.pk as u64).emit();
        do_panic(p.pk, k);
    }
    let v = T::make(if p.wk == 0 { k } else { work(p.wk, k) });
    CEND[k as usize % MAXK].store(true, Ordering::SeqCst);
    Ev::new("cend").u("k", k as u64).u("wk", p.wk as u64).emit();
    v
}

fn spawn_t<T: Tagged>(p: ThreadPlan) -> Option<JoinHandle<T>> {
    Ev::new("spawn_call")
        .u("k", p.k as u64)
        .s("ty", T::NAME)
        .s("fin", if p.panic { "panic" } else { "ret" })
        .u("party", p.party as u64)
        .u("ck", p.ck as u64)
        .emit();
    macro_rules! with_cap {
        ($ty:ident, $al:literal) => {{
            let c = $ty::new(p.k);
            tiny_std::thread::spawn(move || {
                cap_check(core::ptr::from_ref(&c).cast::<u8>(), $al, p.k);
                let v = body::<T>(p);
                core::hint::black_box(&c);
                v
            })
        }};
    }
    let r = match p.ck {
        1 => {
            let tok = Token { k: p.k };
            tiny_std::thread::spawn(move || {
                let v = body::<T>(p);
                core::hint::black_box(&tok);
                v
            })
        }
        16 => with_cap!(C16, 16),
        32 => with_cap!(C32, 32),
        64 => with_cap!(C64, 64),
        4096 => with_cap!(C4096, 4096),
        _ => tiny_std::thread::spawn(move || body::<T>(p)),
    };
    match r {
        Ok(h) => {
            Ev::new("spawn_ret").u("k", p.k as u64).b("ok", true).emit();
            Some(h)
        }
        Err(e) => {
            let code = match e {
                tiny_std::Error::Os { code, .. } => code.raw() as i64,
                _ => 0,
            };
            Ev::new("spawn_ret").u("k", p.k as u64).b("ok", false).i("errno", code).emit();
            None
        }
    }
}

fn join_t<T: Tagged>(k: u32, h: JoinHandle<T>) {
    Ev::new("join_call").u("k", k as u64).emit();
    let r = h.join();
    let fin = CEND[k as usize % MAXK].load(Ordering::SeqCst);
    HRET[k as usize % MAXK].store(true, Ordering::SeqCst);
    let e = Ev::new("join_ret").u("k", k as u64).b("fin_seen", fin);
    let eff = unsafe { core::ptr::read_volatile(&EFFECT.get()[k as usize % MAXK]) } == tag(k);
    match r {
        Some(mut v) => {
            let ok = v.ok(k);
            e.s("res", "some").b("val_ok", ok).b("eff_ok", eff).emit();
            v.consumed_by_probe();
            drop(v);
        }
        None => e.s("res", "none").b("val_ok", true).b("eff_ok", eff).emit(),
    }
}

fn drop_t<T: Tagged>(k: u32, h: JoinHandle<T>) {
    Ev::new("drop_call").u("k", k as u64).emit();
    drop(h);
    HRET[k as usize % MAXK].store(true, Ordering::SeqCst);
    Ev::new("drop_ret").u("k", k as u64).emit();
}

fn race_spawn<T: Tagged>(p: ThreadPlan) -> Option<JoinHandle<T>> {
    tiny_std::thread::spawn(move || body::<T>(p)).ok()
}

fn race_finish<T: Tagged>(k: u32, h: JoinHandle<T>, join: bool) {
    if join {
        let eff_ok = |k: u32| unsafe { core::ptr::read_volatile(&EFFECT.get()[k as usize % MAXK]) } == tag(k);
        match h.join() {
            Some(v) => {
                if !v.ok(k) || !eff_ok(k) {
                    RACE_BAD.fetch_add(1, Ordering::SeqCst);
                }
            }
            None => {
                RACE_BAD.fetch_add(1, Ordering::SeqCst);
            }
        }
    } else {
        drop(h);
    }
}

fn h_race(n: u32, seed: u64, spin: u32, drop_pct: u32) {
    let mut rng = Rng(seed | 1);
    let mut spawned = 0u32;
    for i in 0..n {
        let k = NEXT_K.fetch_add(1, Ordering::SeqCst);
        STARTED[k as usize % MAXK].store(false, Ordering::SeqCst);
        let plan = ThreadPlan { k, party: 0, panic: false, pre: 0, gate: false, hgate: false, pk: 0, wk: 0, ck: 0 };
        let join = rng.below(100) >= drop_pct;
        let wait = spin_wait_started;
        macro_rules! go {
            ($t:ty) => {{
                if let Some(h) = race_spawn::<$t>(plan) {
                    spawned += 1;
                    wait(k, rng.below(spin + 1));
                    race_finish::<$t>(k, h, join);
                }
            }};
        }
        match i % 4 {
            0 => go!(u8),
            1 => go!(Vec<u8>),
            2 => go!(Dv),
            _ => go!(Z),
        }
    }
    Ev::new("race_done").u("n", spawned as u64).u("bad", RACE_BAD.load(Ordering::SeqCst) as u64).emit();
}

fn spin_wait_started(k: u32, extra: u32) {
    let t0 = sys::now_us();
    let mut n = 0u32;
    while !STARTED[k as usize % MAXK].load(Ordering::SeqCst) {
        n += 1;
        if n % 4096 == 0 && sys::now_us() - t0 > 1_000_000 {
            break;
        }
        core::hint::spin_loop();
    }
    for _ in 0..extra {
        core::hint::spin_loop();
    }
}

fn spawn_any(ty: u32, p: ThreadPlan) -> Option<AnyH> {
    match ty {
        0 => spawn_t::<Z>(p).map(AnyH::Z),
        1 => spawn_t::<u8>(p).map(AnyH::U8),
        2 => spawn_t::<u128>(p).map(AnyH::U128),
        3 => spawn_t::<Arr>(p).map(AnyH::Arr),
        4 => spawn_t::<A64>(p).map(AnyH::A64),
        5 => spawn_t::<Vec<u8>>(p).map(AnyH::Vec),
        6 => spawn_t::<Dv>(p).map(AnyH::Dv),
        7 => spawn_t::<Zd>(p).map(AnyH::Zd),
        8 => spawn_t::<A64d>(p).map(AnyH::A64d),
        9 => spawn_t::<Arrd>(p).map(AnyH::Arrd),
        _ => spawn_t::<Pd>(p).map(AnyH::Pd),
    }
}

fn join_any(k: u32, h: AnyH) {
    match h {
        AnyH::Z(h) => join_t(k, h),
        AnyH::U8(h) => join_t(k, h),
        AnyH::U128(h) => join_t(k, h),
        AnyH::Arr(h) => join_t(k, h),
        AnyH::A64(h) => join_t(k, h),
        AnyH::Vec(h) => join_t(k, h),
        AnyH::Dv(h) => join_t(k, h),
        AnyH::Zd(h) => join_t(k, h),
        AnyH::A64d(h) => join_t(k, h),
        AnyH::Arrd(h) => join_t(k, h),
        AnyH::Pd(h) => join_t(k, h),
    }
}

fn drop_any(k: u32, h: AnyH) {
    match h {
        AnyH::Z(h) => drop_t(k, h),
        AnyH::U8(h) => drop_t(k, h),
        AnyH::U128(h) => drop_t(k, h),
        AnyH::Arr(h) => drop_t(k, h),
        AnyH::A64(h) => drop_t(k, h),
        AnyH::Vec(h) => drop_t(k, h),
        AnyH::Dv(h) => drop_t(k, h),
        AnyH::Zd(h) => drop_t(k, h),
        AnyH::A64d(h) => drop_t(k, h),
        AnyH::Arrd(h) => drop_t(k, h),
        AnyH::Pd(h) => drop_t(k, h),
    }
}

// ------------------------------------------------------------------------------------------
// executor thread H
// ------------------------------------------------------------------------------------------
#[derive(Clone, Copy)]
enum HOp {
    Spawn { party: u8, ty: u32, panic: bool },
    Join { party: u8 },
    Drop { party: u8 },
}

#[derive(Clone, Copy)]
enum Cmd {
    None,
    Batch { n: u32, seed: u64, conc: u32, panic_pct: u32, drop_pct: u32, types: u32 },
    One { ty: u32, panic: bool, op: u8, pre: u32, hdelay: u32, gate: u8, pk: u8, wk: u8, ck: u16 },
    Prog { ops: [HOp; 8], n: usize },
    Race { n: u32, seed: u64, spin: u32, drop_pct: u32 },
}

static CMD: Racy<Cmd> = Racy::new(Cmd::None);
static CMD_SEQ: AtomicU32 = AtomicU32::new(0);
static DONE_SEQ: AtomicU32 = AtomicU32::new(0);
static NEXT_K: AtomicU32 = AtomicU32::new(1);
/// k of the thread handled by the running `one` command / base k of the running `sched` command
static CUR_K: AtomicU32 = AtomicU32::new(0);
const WINDOW: usize = 64;
static SLOTS: Racy<[Option<(u32, AnyH)>; WINDOW]> = Racy::new([const { None }; WINDOW]);
/// handles of `op=keep` scenarios (never joined, never dropped)
static KEPT: Racy<[Option<AnyH>; 8]> = Racy::new([const { None }; 8]);

struct Rng(u64);
impl Rng {
    fn next(&mut self) -> u64 {
        let mut x = self.0;
        x ^= x << 13;
        x ^= x >> 7;
        x ^= x << 17;
        self.0 = x;
        x
    }
    fn below(&mut self, n: u32) -> u32 {
        ((self.next() >> 11) % n as u64) as u32
    }
}

fn h_finish(rng: &mut Rng, k: u32, h: AnyH, drop_pct: u32) {
    if rng.below(4) == 0 {
        sys::sleep_us(150);
    }
    if rng.below(100) < drop_pct {
        drop_any(k, h);
    } else {
        join_any(k, h);
    }
}

fn h_batch(n: u32, seed: u64, conc: u32, panic_pct: u32, drop_pct: u32, types: u32) {
    let mut rng = Rng(seed | 1);
    let slots = unsafe { SLOTS.get() };
    let conc = (conc as usize).clamp(1, WINDOW);
    let mut used = 0usize;
    for _ in 0..n {
        let k = NEXT_K.fetch_add(1, Ordering::SeqCst);
        let mut ty = rng.below(NTYPES);
        while types & (1 << ty) == 0 {
            ty = (ty + 1) % NTYPES;
        }
        let pre = match rng.below(5) {
            0 => 0,
            1 => 1,
            2 => 2,
            3 => 60,
            _ => 400,
        };
        // kinds that hold a process-wide print lock are left to their own runs
        let pk = [0u8, 3, 4, 5, 6, 7, 8, 9][rng.below(8) as usize];
        let wk = [0u8, 0, 0, 0, 3, 4, 1, 2][rng.below(8) as usize];
        let ck = [0u16, 1, 16, 32, 64, 0][rng.below(6) as usize];
        let plan = ThreadPlan { k, party: 0, panic: rng.below(100) < panic_pct, pre, gate: false, hgate: false, pk, wk, ck };
        let Some(h) = spawn_any(ty, plan) else { continue };
        if used == conc {
            // evict a random victim first
            let v = rng.below(conc as u32) as usize;
            if let Some((vk, vh)) = slots[v].take() {
                h_finish(&mut rng, vk, vh, drop_pct);
            }
            slots[v] = Some((k, h));
        } else {
            let free = slots[..conc].iter().position(Option::is_none).unwrap_or(0);
            slots[free] = Some((k, h));
            used += 1;
        }
    }
    for s in slots[..conc].iter_mut() {
        if let Some((k, h)) = s.take() {
            h_finish(&mut rng, k, h, drop_pct);
        }
    }
}

fn h_one(ty: u32, panic: bool, op: u8, pre: u32, hdelay: u32, gate: u8, pk: u8, wk: u8, ck: u16) {
    let k = NEXT_K.fetch_add(1, Ordering::SeqCst);
    CUR_K.store(k, Ordering::SeqCst);
    let plan = ThreadPlan { k, party: 0, panic, pre, gate: gate == 1, hgate: gate == 2 || gate == 3, pk, wk, ck };
    if gate == 2 || gate == 3 {
        HGATE.store(0, Ordering::SeqCst);
    }
    let r = spawn_any(ty, plan);
    if gate == 2 {
        // spawn has returned: let the closure go on
        HGATE.store(1, Ordering::SeqCst);
        sys::futex_wake(HGATE.as_ptr() as usize, 8);
    }
    let Some(h) = r else { return };
    if hdelay > 0 {
        sys::sleep_us(hdelay as u64);
    }
    match op {
        0 => join_any(k, h),
        1 => {
            drop_any(k, h);
            if gate == 3 {
                // the handle is gone: only now may the closure finish (the thread has to clean up)
                HGATE.store(1, Ordering::SeqCst);
                sys::futex_wake(HGATE.as_ptr() as usize, 8);
            }
        }
        _ => {
            let kept = unsafe { KEPT.get() };
            if let Some(s) = kept.iter_mut().find(|s| s.is_none()) {
                *s = Some(h);
            } else {
                core::mem::forget(h);
            }
        }
    }
}

fn h_prog(ops: &[HOp]) {
    let base = CUR_K.load(Ordering::SeqCst);
    let tid = sys::gettid();
    let mut handles: [Option<AnyH>; sched::NPARTY] = [const { None }; sched::NPARTY];
    for (i, op) in ops.iter().enumerate() {
        Ev::new("pt").u("id", sched::H_OP as u64).u("arg", i as u64).emit();
        sched::maybe_block(tid, sched::H_OP, i);
        match *op {
            HOp::Spawn { party, ty, panic } => {
                // panic kinds 0, 3..9 in turn (the kinds that hold a process-wide print lock have their own runs)
                let r = ((base + party as u32) % 8) as u8;
                let plan = ThreadPlan { k: base + party as u32, party, panic, pre: 0, gate: false, hgate: false, pk: if r == 0 { 0 } else { r + 2 }, wk: 0, ck: 0 };
                handles[party as usize] = spawn_any(ty, plan);
            }
            HOp::Join { party } => {
                if let Some(h) = handles[party as usize].take() {
                    join_any(base + party as u32, h);
                }
            }
            HOp::Drop { party } => {
                if let Some(h) = handles[party as usize].take() {
                    drop_any(base + party as u32, h);
                }
            }
        }
    }
    // handles never consumed by the program are forgotten (model: handle kept alive)
    for h in handles.iter_mut() {
        if let Some(h) = h.take() {
            core::mem::forget(h);
        }
    }
}

fn h_main() {
    sched::PARTIES[0].tid.store(sys::gettid(), Ordering::SeqCst);
    let mut seen = 0u32;
    loop {
        while CMD_SEQ.load(Ordering::SeqCst) == seen {
            sys::futex_wait(CMD_SEQ.as_ptr() as usize, seen, 50_000);
        }
        seen = CMD_SEQ.load(Ordering::SeqCst);
        let cmd = unsafe { *CMD.get() };
        match cmd {
            Cmd::None => {}
            Cmd::Batch { n, seed, conc, panic_pct, drop_pct, types } => h_batch(n, seed, conc, panic_pct, drop_pct, types),
            Cmd::One { ty, panic, op, pre, hdelay, gate, pk, wk, ck } => h_one(ty, panic, op, pre, hdelay, gate, pk, wk, ck),
            Cmd::Prog { ops, n } => h_prog(&ops[..n]),
            Cmd::Race { n, seed, spin, drop_pct } => h_race(n, seed, spin, drop_pct),
        }
        sched::PARTIES[0].idle.store(true, Ordering::SeqCst);
        DONE_SEQ.store(seen, Ordering::SeqCst);
        sys::futex_wake(DONE_SEQ.as_ptr() as usize, 4);
    }
}

// ------------------------------------------------------------------------------------------
// driver (main thread)
// ------------------------------------------------------------------------------------------
static WATCHDOG_MS: AtomicU64 = AtomicU64::new(4000);
static BASE_SERIAL: AtomicU64 = AtomicU64::new(0);

fn send(cmd: Cmd) -> u32 {
    unsafe {
        *CMD.get() = cmd;
    }
    sched::PARTIES[0].idle.store(false, Ordering::SeqCst);
    let s = CMD_SEQ.fetch_add(1, Ordering::SeqCst) + 1;
    sys::futex_wake(CMD_SEQ.as_ptr() as usize, 1);
    s
}

/// true: H finished the command; false: watchdog expired.  The watchdog is progress based: it
/// expires only when no event at all has been produced by any thread for `budget_ms` (a slow
/// machine is not a hang).
fn wait_done(s: u32, budget_ms: u64) -> bool {
    let mut last_seq = ev::SEQ.load(Ordering::SeqCst);
    let mut last_change = sys::now_us();
    loop {
        let d = DONE_SEQ.load(Ordering::SeqCst);
        if d == s {
            return true;
        }
        let now = sys::now_us();
        let cur = ev::SEQ.load(Ordering::SeqCst);
        if cur != last_seq {
            last_seq = cur;
            last_change = now;
        } else if now - last_change > budget_ms * 1000 {
            return false;
        }
        sys::futex_wait(DONE_SEQ.as_ptr() as usize, d, 20_000);
    }
}

fn timed_out(what: &str) -> ! {
    Ev::new("timeout")
        .s("what", what)
        .u("k", CUR_K.load(Ordering::SeqCst) as u64)
        .u("wait_addr", sched::WAIT_ADDR.load(Ordering::SeqCst) as u64)
        .emit();
    sys::exit_group(0)
}

fn arg<'a>(line: &'a str, key: &str) -> Option<&'a str> {
    for tok in line.split(' ') {
        if let Some(rest) = tok.strip_prefix(key) {
            if let Some(v) = rest.strip_prefix('=') {
                return Some(v);
            }
        }
    }
    None
}

fn num(line: &str, key: &str, default: u64) -> u64 {
    arg(line, key).and_then(|v| v.parse::<u64>().ok()).unwrap_or(default)
}

fn ty_index(name: &str) -> u32 {
    TYPE_NAMES.iter().position(|n| *n == name).unwrap_or(1) as u32
}

fn snapshot(name: &str) {
    let (size, res) = sys::statm();
    let maps = sys::count_lines(b"/proc/self/maps\0");
    let base = BASE_SERIAL.load(Ordering::SeqCst);
    let mut ptrs = [0u64; 24];
    let mut sizes = [0u64; 24];
    let mut aligns = [0u64; 24];
    let mut sers = [0u64; 24];
    let mut tids = [0u64; 24];
    let mut n = 0usize;
    let mut total = 0u64;
    let mut bytes = 0u64;
    if name == "quiesce" {
        calloc::TABLE.for_each_after(base, &mut |e| {
            if n < 24 {
                ptrs[n] = e.ptr as u64;
                sizes[n] = e.size as u64;
                aligns[n] = e.align as u64;
                sers[n] = e.serial;
                tids[n] = e.tid as u64;
                n += 1;
            }
            total += 1;
            bytes += e.size as u64;
        });
    }
    Ev::new(name)
        .i("threads", sys::thread_count())
        .u("vm_pages", size)
        .u("rss_pages", res)
        .i("maps", maps as i64)
        .u("live", calloc::TABLE.live.load(Ordering::SeqCst))
        .u("live_bytes", calloc::TABLE.live_bytes.load(Ordering::SeqCst))
        .u("badfree", calloc::TABLE.badfree.load(Ordering::SeqCst))
        .u("next_k", NEXT_K.load(Ordering::SeqCst) as u64)
        .u("left_n", total)
        .u("left_bytes", bytes)
        .list("left_p", &ptrs[..n])
        .list("left_sz", &sizes[..n])
        .list("left_al", &aligns[..n])
        .list("left_ser", &sers[..n])
        .list("left_tid", &tids[..n])
        .emit();
}

fn quiesce() {
    let t0 = sys::now_us();
    while sys::thread_count() > 2 && sys::now_us() - t0 < 20_000_000 {
        sys::sleep_us(200);
    }
    snapshot("quiesce");
}

fn cmd_one(line: &str) {
    let ty = ty_index(arg(line, "ty").unwrap_or("u8"));
    let panic = arg(line, "fin") == Some("panic");
    let op = match arg(line, "op") {
        Some("drop") => 1,
        Some("keep") => 2,
        _ => 0,
    };
    let gmode = num(line, "gate", 0) as u8;
    let gate = gmode == 1;
    let wake = num(line, "wake", 0) == 1;
    if gate {
        GATE.store(0, Ordering::SeqCst);
    }
    sched::WAIT_ADDR.store(0, Ordering::SeqCst);
    let s = send(Cmd::One { ty, panic, op, pre: num(line, "pre", 0) as u32, hdelay: num(line, "hdelay", 0) as u32, gate: gmode, pk: num(line, "pk", 0) as u8, wk: num(line, "wk", 0) as u8, ck: num(line, "ck", 0) as u16 });
    if wake {
        let woken = sched::stray_wake(1_500_000);
        if woken > 0 {
            // give the handle owner time to act on the wake-up
            sys::sleep_us(30_000);
            let k = CUR_K.load(Ordering::SeqCst) as usize % MAXK;
            if HRET[k].load(Ordering::SeqCst) && !CEND[k].load(Ordering::SeqCst) {
                // join/drop returned while the closure is still held at the gate: stop here,
                // before the thread goes on to use what the handle owner has released
                Ev::new("abort").s("why", "handle operation returned while the closure was still running").emit();
                sys::exit_group(0);
            }
        }
    }
    if gate {
        GATE.store(1, Ordering::SeqCst);
        sys::futex_wake(GATE.as_ptr() as usize, 64);
    }
    if !wait_done(s, WATCHDOG_MS.load(Ordering::SeqCst)) {
        timed_out("one");
    }
}

fn cmd_batch(line: &str) {
    let n = num(line, "n", 100) as u32;
    let s = send(Cmd::Batch {
        n,
        seed: num(line, "seed", 1),
        conc: num(line, "conc", 4) as u32,
        panic_pct: num(line, "panic", 25) as u32,
        drop_pct: num(line, "drop", 40) as u32,
        types: num(line, "types", 1023) as u32,
    });
    let _ = n;
    if !wait_done(s, WATCHDOG_MS.load(Ordering::SeqCst)) {
        timed_out("batch");
    }
}

fn cmd_race(line: &str) {
    QUIET.store(true, Ordering::SeqCst);
    let s = send(Cmd::Race {
        n: num(line, "n", 1000) as u32,
        seed: num(line, "seed", 1),
        spin: num(line, "spin", 100) as u32,
        drop_pct: num(line, "drop", 85) as u32,
    });
    // quiet threads produce no events: the watchdog cannot be progress based here
    let t0 = sys::now_us();
    let budget = 60_000_000u64;
    let mut ok = false;
    while sys::now_us() - t0 < budget {
        if DONE_SEQ.load(Ordering::SeqCst) == s {
            ok = true;
            break;
        }
        sys::sleep_us(500);
    }
    if !ok {
        timed_out("race");
    }
    // let the last threads leave before events are switched on again
    let t1 = sys::now_us();
    while sys::thread_count() > 2 && sys::now_us() - t1 < 20_000_000 {
        sys::sleep_us(200);
    }
    QUIET.store(false, Ordering::SeqCst);
}

fn q_code(q: sched::Q) -> u64 {
    match q {
        sched::Q::At(id) => id as u64,
        sched::Q::Parked => 1000,
        sched::Q::Gone => 1001,
        sched::Q::Idle => 1002,
        sched::Q::Running => 0,
    }
}

fn parse_ops(line: &str) -> ([HOp; 8], usize) {
    let mut ops = [HOp::Join { party: 0 }; 8];
    let mut nops = 0;
    for o in arg(line, "ops").unwrap_or("").split(';') {
        if o.is_empty() || nops == 8 {
            continue;
        }
        let b = o.as_bytes();
        let party = b.get(1).map_or(1, |c| c - b'0');
        ops[nops] = match b[0] {
            b's' => {
                let mut it = o.split(':');
                it.next();
                let ty = ty_index(it.next().unwrap_or("u8"));
                let panic = it.next() == Some("p");
                HOp::Spawn { party, ty, panic }
            }
            b'd' => HOp::Drop { party },
            _ => HOp::Join { party },
        };
        nops += 1;
    }
    (ops, nops)
}

fn cmd_sched(line: &str) {
    if STUCK_CMDS.load(Ordering::SeqCst) >= 2 {
        // every stuck schedule costs a full time-out: two are evidence enough for this process
        Ev::new("sched_skipped").s("why", "two scheduled commands got stuck before").emit();
        return;
    }
    let (ops, nops) = parse_ops(line);
    sched::reset();
    let base = NEXT_K.fetch_add(4, Ordering::SeqCst);
    CUR_K.store(base, Ordering::SeqCst);
    Ev::new("sched_begin").u("base", base as u64).emit();
    sched::ACTIVE.store(true, Ordering::SeqCst);
    let s = send(Cmd::Prog { ops, n: nops });
    let mut expected = [false; sched::NPARTY];
    expected[0] = true;
    let mut cur_op: isize = -1;
    let mut diverged = false;
    let mut lenient = false;
    let tmo = 5_000_000u64;
    for (i, tok) in arg(line, "steps").unwrap_or("").split(',').enumerate() {
        if tok.is_empty() {
            continue;
        }
        let b = tok.as_bytes();
        let mut why = "";
        let mut granted = usize::MAX;
        // bookkeeping shared by all ways of granting a turn: which operation the owner is in, and
        // which threads exist (so that the settle loop waits for them)
        let mut do_grant = |party: usize, at: u32, expected: &mut [bool; sched::NPARTY], cur_op: &mut isize| {
            if party == 0 && at == sched::H_OP {
                *cur_op += 1;
            }
            if party == 0 && at == tiny_std::verif_thread::SPAWN_TLS {
                if let Some(HOp::Spawn { party: p, .. }) = ops.get((*cur_op).max(0) as usize) {
                    expected[*p as usize] = true;
                }
            }
            sched::grant(party);
        };
        if b[0] == b'w' {
            if lenient {
                // the run has left the model's path: still get the owner parked if it is on its way
                for _ in 0..16 {
                    match sched::wait_quiescent(0, tmo) {
                        sched::Q::At(at) => do_grant(0, at, &mut expected, &mut cur_op),
                        _ => break,
                    }
                }
            }
            if sched::wait_quiescent(0, tmo) != sched::Q::Parked {
                why = "handle owner not parked for the stray wake";
            } else if sched::stray_wake(tmo) < 1 {
                why = "stray wake woke nobody";
            } else {
                // the woken owner leaves the kernel; wait until it shows up somewhere else
                let t0 = sys::now_us();
                while sched::state_of(0) == sched::Q::Parked && sys::now_us() - t0 < tmo {
                    sys::sched_yield();
                }
            }
        } else if let Some(pos) = tok.find('>') {
            // directed step `h>X` / `t<p>>X`: grant the party turn after turn until it stands at
            // point X (X = p: until the owner is parked in the kernel), is idle or gone
            let party = if b[0] == b'h' { 0 } else { tok[1..pos].parse::<usize>().unwrap_or(1) };
            let target = &tok[pos + 1..];
            let want_parked = target == "p";
            let want_id = target.parse::<u32>().unwrap_or(0);
            let mut turns = 0;
            loop {
                let q = sched::wait_quiescent(party, tmo);
                match q {
                    sched::Q::At(at) => {
                        if turns > 0 && !want_parked && at == want_id {
                            break;
                        }
                        if turns >= 40 {
                            why = "directed step: target not reached in 40 turns";
                            break;
                        }
                        do_grant(party, at, &mut expected, &mut cur_op);
                        granted = party;
                        turns += 1;
                        // the turn may create or wake other parties: let them settle first
                        for (j, exp) in expected.iter().enumerate() {
                            if *exp && j != party {
                                let _ = sched::wait_quiescent(j, tmo);
                            }
                        }
                    }
                    sched::Q::Running => {
                        why = "directed step: party did not reach a point in time";
                        break;
                    }
                    _ => break, // parked, idle or gone
                }
            }
        } else {
            let (party, id) = if b[0] == b'h' {
                (0usize, tok[1..].parse::<u32>().unwrap_or(0))
            } else {
                let mut it = tok[1..].split('.');
                let p = it.next().and_then(|v| v.parse::<usize>().ok()).unwrap_or(1);
                (p, it.next().and_then(|v| v.parse::<u32>().ok()).unwrap_or(0))
            };
            let q = sched::wait_quiescent(party, tmo);
            match q {
                sched::Q::At(at) if at == id || lenient => {
                    do_grant(party, at, &mut expected, &mut cur_op);
                    granted = party;
                }
                sched::Q::At(at) => {
                    // first departure from the model's path: report it, then go on leniently (the
                    // remaining turns and stray wakes are still delivered, to whoever is there)
                    why = "party is not at the expected point";
                    do_grant(party, at, &mut expected, &mut cur_op);
                    granted = party;
                }
                _ if lenient => {}
                _ => why = "party is not at the expected point",
            }
        }
        // let everything settle: exactly one party ran, wait until all are quiescent again
        let mut st = [0u64; sched::NPARTY];
        let mut stuck = false;
        {
            // the party that was granted the turn first (its step may wake or create others)
            if granted < sched::NPARTY && expected[granted] {
                let _ = sched::wait_quiescent(granted, tmo);
            }
            for (j, exp) in expected.iter().enumerate() {
                if *exp {
                    let q = sched::wait_quiescent(j, tmo);
                    st[j] = q_code(q);
                    if q == sched::Q::Running {
                        why = "a party did not reach a point, park, or exit in time";
                        stuck = true;
                    }
                }
            }
        }
        Ev::new("step").u("i", i as u64).s("tok", tok).list("st", &st).emit();
        if !why.is_empty() {
            let mut have = [0u64; sched::NPARTY];
            for (j, h) in have.iter_mut().enumerate() {
                *h = q_code(sched::state_of(j));
            }
            if !diverged {
                Ev::new("diverge").u("i", i as u64).s("tok", tok).s("why", why).list("have", &have).emit();
            }
            diverged = true;
            lenient = true;
            if stuck {
                STUCK_CMDS.fetch_add(1, Ordering::SeqCst);
                break;
            }
        }
    }
    sched::release_all();
    let done = wait_done(s, WATCHDOG_MS.load(Ordering::SeqCst));
    Ev::new("sched_end").b("diverged", diverged).b("h_done", done).emit();
    if !done {
        timed_out("sched");
    }
}

/// Systematic exploration of the REAL code around the hand-shake flag: stateless depth-first search
/// over the interleavings of the owner and the thread(s) at the yield points {closure start (9),
/// owner operation start (60), every access of the hand-shake flag (45, through the AtomicBool shim
/// of tiny_std::verif_thread)}; everything else runs through.  One execution per schedule, each
/// between its own baseline / quiesce so that it is judged like any other run.
fn cmd_explore(line: &str) {
    if STUCK_CMDS.load(Ordering::SeqCst) >= 2 {
        Ev::new("sched_skipped").s("why", "two scheduled commands got stuck before").emit();
        return;
    }
    let (ops, nops) = parse_ops(line);
    let max_exec = num(line, "max", 64) as usize;
    let saved = sched::PASS_MASK.load(Ordering::SeqCst);
    sched::PASS_MASK.store(!((1u64 << sched::T_START) | (1u64 << sched::H_OP) | (1u64 << tiny_std::verif_thread::FLAG_ACCESS)), Ordering::SeqCst);
    const D: usize = 48;
    let mut prefix = [0u8; D];
    let mut plen = 0usize;
    let mut nexec = 0usize;
    let tmo = 5_000_000u64;
    loop {
        BASE_SERIAL.store(calloc::TABLE.serial.load(Ordering::SeqCst) - 1, Ordering::SeqCst);
        snapshot("baseline");
        sched::reset();
        let base = NEXT_K.fetch_add(4, Ordering::SeqCst);
        CUR_K.store(base, Ordering::SeqCst);
        Ev::new("sched_begin").u("base", base as u64).u("explore", nexec as u64).emit();
        sched::ACTIVE.store(true, Ordering::SeqCst);
        let s = send(Cmd::Prog { ops, n: nops });
        let mut chosen = [0u8; D];
        let mut nopts = [0u8; D];
        let mut nd = 0usize;
        let mut expected = [false; sched::NPARTY];
        expected[0] = true;
        let mut cur_op: isize = -1;
        let mut steps = 0;
        loop {
            let mut stuck = false;
            for (j, exp) in expected.iter().enumerate() {
                if *exp && sched::wait_quiescent(j, tmo) == sched::Q::Running {
                    stuck = true;
                }
            }
            let mut en = [0usize; sched::NPARTY];
            let mut at = [0u32; sched::NPARTY];
            let mut ne = 0;
            for (j, exp) in expected.iter().enumerate() {
                if *exp {
                    if let sched::Q::At(id) = sched::state_of(j) {
                        en[ne] = j;
                        at[ne] = id;
                        ne += 1;
                    }
                }
            }
            if stuck {
                STUCK_CMDS.fetch_add(1, Ordering::SeqCst);
                Ev::new("diverge").u("i", steps as u64).s("tok", "explore").s("why", "a party did not reach a point, park, or exit in time").emit();
            }
            if ne == 0 || stuck || steps > 200 {
                break;
            }
            let idx = if ne > 1 && nd < D {
                let c = if nd < plen { (prefix[nd] as usize).min(ne - 1) } else { 0 };
                chosen[nd] = c as u8;
                nopts[nd] = ne as u8;
                nd += 1;
                c
            } else {
                0
            };
            let (party, id) = (en[idx], at[idx]);
            if party == 0 && id == sched::H_OP {
                cur_op += 1;
                if let Some(HOp::Spawn { party: p, .. }) = ops.get(cur_op.max(0) as usize) {
                    expected[*p as usize] = true;
                }
            }
            Ev::new("step").u("i", steps as u64).u("party", party as u64).u("at", id as u64).u("opts", ne as u64).emit();
            sched::grant(party);
            let _ = sched::wait_quiescent(party, tmo);
            steps += 1;
        }
        sched::release_all();
        let done = wait_done(s, WATCHDOG_MS.load(Ordering::SeqCst));
        let mut ch = [0u64; D];
        for i in 0..nd {
            ch[i] = chosen[i] as u64;
        }
        Ev::new("sched_end").b("diverged", false).b("h_done", done).u("explore", nexec as u64).list("choices", &ch[..nd]).emit();
        if !done {
            timed_out("explore");
        }
        quiesce();
        nexec += 1;
        // next schedule in depth-first order
        let mut i = nd;
        let mut found = false;
        while i > 0 {
            i -= 1;
            if chosen[i] + 1 < nopts[i] {
                prefix[..i].copy_from_slice(&chosen[..i]);
                prefix[i] = chosen[i] + 1;
                plen = i + 1;
                found = true;
                break;
            }
        }
        if !found || nexec >= max_exec || STUCK_CMDS.load(Ordering::SeqCst) >= 2 {
            Ev::new("explore_end").u("executions", nexec as u64).b("complete", !found).emit();
            break;
        }
    }
    sched::PASS_MASK.store(saved, Ordering::SeqCst);
}

#[no_mangle]
pub fn main() -> i32 {
    let mut args = tiny_std::env::args();
    let _ = args.next();
    let (Some(Ok(script)), Some(Ok(out))) = (args.next(), args.next()) else {
        sys::write(2, b"usage: thrprobe <script> <out>\n");
        return 2;
    };
    let mut path = [0u8; 512];
    path[..out.len()].copy_from_slice(out.as_bytes());
    let fd = sys::open_out(&path[..=out.len()]);
    if fd < 0 {
        sys::write(2, b"thrprobe: cannot open out file\n");
        return 2;
    }
    let mut spath = [0u8; 512];
    spath[..script.len()].copy_from_slice(script.as_bytes());
    static SCRIPT: Racy<[u8; 1 << 18]> = Racy::new([0; 1 << 18]);
    let sbuf = unsafe { SCRIPT.get() };
    let n = sys::read_file(&spath[..=script.len()], sbuf);
    if n < 0 {
        sys::write(2, b"thrprobe: cannot read script\n");
        return 2;
    }
    sched::install();
    // From here on the code under test runs: the very first thread::spawn of this process creates
    // the executor thread.  `boot` is written before it, `hello` after the new thread has started:
    // a process that dies in between died inside / right after its first spawn call.
    ev::OUT_FD.store(fd, Ordering::SeqCst);
    Ev::new("boot").u("main", sys::gettid() as u64).emit();
    // The main thread is the watchdog of everything that follows, but it is also the caller of this
    // first spawn: if spawn itself never returns nobody is left to notice.  SIGALRM (default action:
    // terminate, also out of a killable wait inside clone) after 8 s, disarmed once the executor runs.
    // (`alarm=<seconds>` anywhere in the script overrides the 8 s: re-confirmation runs under load)
    let text0 = core::str::from_utf8(&sbuf[..n as usize]).unwrap_or("");
    let alarm_s = text0.split(|c| c == ' ' || c == '\n').find_map(|t| t.strip_prefix("alarm=")).and_then(|v| v.parse::<u64>().ok()).unwrap_or(8);
    unsafe {
        sc::syscall!(ALARM, alarm_s);
    }
    sched::LOG_POINTS.store(false, Ordering::SeqCst);
    // executor thread, created by the code under test itself but outside every scenario
    let h = tiny_std::thread::spawn(h_main);
    match h {
        Ok(h) => core::mem::forget(h),
        Err(_) => {
            sys::write(2, b"thrprobe: cannot start executor thread\n");
            return 2;
        }
    }
    while sched::PARTIES[0].tid.load(Ordering::SeqCst) == 0 {
        sys::sleep_us(100);
    }
    unsafe {
        sc::syscall!(ALARM, 0);
    }
    sched::LOG_POINTS.store(true, Ordering::SeqCst);
    calloc::LOG.store(true, Ordering::SeqCst);
    Ev::new("hello")
        .u("main", sys::gettid() as u64)
        .u("h", sched::PARTIES[0].tid.load(Ordering::SeqCst) as u64)
        .b("debug", cfg!(debug_assertions))
        .emit();
    let text = core::str::from_utf8(&sbuf[..n as usize]).unwrap_or("");
    for line in text.split('\n') {
        let line = line.trim();
        if line.is_empty() || line.starts_with('#') {
            continue;
        }
        let cmd = line.split(' ').next().unwrap_or("");
        match cmd {
            "set" => {
                if let Some(v) = arg(line, "logalloc") {
                    calloc::LOG.store(v == "1", Ordering::SeqCst);
                }
                if let Some(v) = arg(line, "logpt") {
                    sched::LOG_POINTS.store(v == "1", Ordering::SeqCst);
                }
                if let Some(v) = arg(line, "poison") {
                    calloc::POISON.store(v == "1", Ordering::SeqCst);
                }
                if let Some(v) = arg(line, "jitter") {
                    sched::JITTER.store(v.parse().unwrap_or(0), Ordering::SeqCst);
                }
                if let Some(v) = arg(line, "jseed") {
                    sched::JITTER_RNG.store(v.parse::<u64>().unwrap_or(1) | 1, Ordering::SeqCst);
                }
                if let Some(v) = arg(line, "watchdog") {
                    WATCHDOG_MS.store(v.parse().unwrap_or(4000), Ordering::SeqCst);
                }
            }
            "baseline" => {
                BASE_SERIAL.store(calloc::TABLE.serial.load(Ordering::SeqCst) - 1, Ordering::SeqCst);
                snapshot("baseline");
            }
            "quiesce" => quiesce(),
            "batch" => cmd_batch(line),
            "one" => cmd_one(line),
            "sched" => cmd_sched(line),
            "explore" => cmd_explore(line),
            "race" => cmd_race(line),
            "mark" => Ev::new("mark").s("text", line).emit(),
            _ => Ev::new("badcmd").s("text", line).emit(),
        }
    }
    Ev::new("bye").emit();
    sys::exit_group(0)
}
