//! ndjson events, one write(2) per line, no allocation.
//! Every event starts with `{"seq":N,"tid":T,"ev":"name"`; `seq` is drawn from one global
//! counter at the moment the event is created, so sorting by seq gives a linearisation that is
//! consistent with real time and with happens-before.
use crate::sys;
use core::sync::atomic::{AtomicI32, AtomicU64, Ordering};

pub static OUT_FD: AtomicI32 = AtomicI32::new(-1);
pub static SEQ: AtomicU64 = AtomicU64::new(1);

pub struct Ev {
    buf: [u8; 2048],
    n: usize,
}

impl Ev {
    #[inline]
    pub fn new(name: &str) -> Ev {
        let seq = SEQ.fetch_add(1, Ordering::SeqCst);
        let mut e = Ev { buf: [0; 2048], n: 0 };
        e.raw(b"{\"seq\":");
        e.num(seq);
        e.raw(b",\"tid\":");
        e.num(sys::gettid() as u64);
        e.raw(b",\"ev\":\"");
        e.raw(name.as_bytes());
        e.raw(b"\"");
        e
    }

    #[inline]
    fn raw(&mut self, b: &[u8]) {
        for c in b {
            if self.n < self.buf.len() - 2 {
                self.buf[self.n] = *c;
                self.n += 1;
            }
        }
    }

    fn num(&mut self, mut v: u64) {
        let mut tmp = [0u8; 20];
        let mut i = 0;
        if v == 0 {
            tmp[0] = b'0';
            i = 1;
        }
        while v > 0 {
            tmp[i] = b'0' + (v % 10) as u8;
            v /= 10;
            i += 1;
        }
        while i > 0 {
            i -= 1;
            let c = tmp[i];
            self.raw(&[c]);
        }
    }

    fn key(&mut self, k: &str) {
        self.raw(b",\"");
        self.raw(k.as_bytes());
        self.raw(b"\":");
    }

    pub fn u(mut self, k: &str, v: u64) -> Ev {
        self.key(k);
        self.num(v);
        self
    }

    pub fn i(mut self, k: &str, v: i64) -> Ev {
        self.key(k);
        if v < 0 {
            self.raw(b"-");
            self.num(v.unsigned_abs());
        } else {
            self.num(v as u64);
        }
        self
    }

    pub fn s(mut self, k: &str, v: &str) -> Ev {
        self.key(k);
        self.raw(b"\"");
        for c in v.as_bytes() {
            match *c {
                b'"' | b'\\' => {
                    self.raw(b"\\");
                    self.raw(&[*c]);
                }
                0x20..=0x7e => self.raw(&[*c]),
                _ => self.raw(b"?"),
            }
        }
        self.raw(b"\"");
        self
    }

    pub fn b(mut self, k: &str, v: bool) -> Ev {
        self.key(k);
        self.raw(if v { b"true" } else { b"false" });
        self
    }

    /// list of unsigned numbers
    pub fn list(mut self, k: &str, v: &[u64]) -> Ev {
        self.key(k);
        self.raw(b"[");
        for (i, x) in v.iter().enumerate() {
            if i > 0 {
                self.raw(b",");
            }
            self.num(*x);
        }
        self.raw(b"]");
        self
    }

    pub fn emit(mut self) {
        let fd = OUT_FD.load(Ordering::Relaxed);
        if fd < 0 {
            return;
        }
        self.buf[self.n] = b'}';
        self.buf[self.n + 1] = b'\n';
        let len = self.n + 2;
        let mut off = 0;
        while off < len {
            let r = sys::write(fd, &self.buf[off..len]);
            if r <= 0 {
                break;
            }
            off += r as usize;
        }
    }
}
