//! Turn-based point scheduler.
//!
//! Parties: 0 = H (the executor thread that owns the JoinHandles), 1..=3 = spawned threads T1..T3.
//! Every protocol point of tiny-std's thread code (`tiny_std::verif_thread::point`) and the two
//! operations on the exit futex inside `futex_wait_fast` (load, FUTEX_WAIT — seen through the
//! `tiny_std::verif` hook table) are logged; while a schedule is active a party arriving at a
//! blocking point publishes (id, arg) and sleeps until the scheduler (the main thread) grants it
//! the turn.  The scheduler follows the step list generated from the TLA+ model: exactly one
//! party runs between two points.
use crate::ev::Ev;
use crate::sys;
use core::sync::atomic::{AtomicBool, AtomicU32, AtomicU64, AtomicUsize, Ordering};
use tiny_std::verif;
use tiny_std::verif_thread as vt;

/// probe-level pseudo points
pub const T_START: u32 = 9;
pub const X_LOAD: u32 = 50;
pub const X_WAIT: u32 = 51;
pub const H_OP: u32 = 60;

pub struct Party {
    pub tid: AtomicU32,
    /// 0 = running / not at a point; otherwise the id of the point it is blocked at
    pub at: AtomicU32,
    pub arg: AtomicUsize,
    /// futex word: bumped to release the party
    pub go: AtomicU32,
    /// H: program finished; T: not used
    pub idle: AtomicBool,
}

impl Party {
    const fn new() -> Party {
        Party {
            tid: AtomicU32::new(0),
            at: AtomicU32::new(0),
            arg: AtomicUsize::new(0),
            go: AtomicU32::new(0),
            idle: AtomicBool::new(false),
        }
    }
}

pub const NPARTY: usize = 4;
pub static PARTIES: [Party; NPARTY] = [Party::new(), Party::new(), Party::new(), Party::new()];
pub static ACTIVE: AtomicBool = AtomicBool::new(false);
/// bit i set: point id i is log-only (never blocks)
pub const DEFAULT_PASS: u64 = (1 << 5) | (1 << 30) | (1 << 42) | (1 << 45);
pub static PASS_MASK: AtomicU64 = AtomicU64::new(DEFAULT_PASS);
/// address of the exit futex the handle owner is (about to be) waiting on, and who
pub static WAIT_ADDR: AtomicUsize = AtomicUsize::new(0);
pub static WAIT_TID: AtomicU32 = AtomicU32::new(0);
/// operations on the exit word logged for the current wait: an implementation that spins on the
/// word must not flood the log (only the first WAIT_OPS_CAP operations of a wait are logged)
pub static WAIT_OPS_LOGGED: AtomicU32 = AtomicU32::new(0);
const WAIT_OPS_CAP: u32 = 48;
/// free-running timing perturbation: at every protocol point, with probability JITTER/1000, the
/// calling thread sleeps 0..255 us (seeded xorshift) - shakes the relative timing of owner, thread
/// and kernel without controlling it
pub static JITTER: AtomicU32 = AtomicU32::new(0);
pub static JITTER_RNG: AtomicU64 = AtomicU64::new(0x9E37_79B9_7F4A_7C15);
/// log protocol points (off for huge batches)
pub static LOG_POINTS: AtomicBool = AtomicBool::new(true);

fn party_of(tid: u32) -> Option<&'static Party> {
    PARTIES.iter().find(|p| p.tid.load(Ordering::Relaxed) == tid)
}

fn block(p: &Party, id: u32, arg: usize) {
    let g = p.go.load(Ordering::SeqCst);
    p.arg.store(arg, Ordering::SeqCst);
    p.at.store(id, Ordering::SeqCst);
    while p.go.load(Ordering::SeqCst) == g && ACTIVE.load(Ordering::SeqCst) {
        sys::futex_wait(p.go.as_ptr() as usize, g, 20_000);
    }
    p.at.store(0, Ordering::SeqCst);
}

/// Callback installed into tiny_std::verif_thread.
pub fn on_point(id: u32, arg: usize) {
    let tid = sys::gettid();
    // only the handle owner's waits are observed / scheduled (a closure may itself spawn and join)
    if (id == vt::JOIN_BEFORE_WAIT || id == vt::DROP_BEFORE_WAIT) && tid == PARTIES[0].tid.load(Ordering::SeqCst) {
        WAIT_TID.store(tid, Ordering::SeqCst);
        WAIT_ADDR.store(arg, Ordering::SeqCst);
        WAIT_OPS_LOGGED.store(0, Ordering::SeqCst);
    }
    if LOG_POINTS.load(Ordering::Relaxed) {
        let e = Ev::new("pt").u("id", id as u64).u("arg", arg as u64);
        if id == vt::JOIN_BEFORE_READ || id == vt::JOIN_BEFORE_DEALLOC || id == vt::DROP_BEFORE_DEALLOC {
            // the probe's own observation of the exit word at the moment the handle owner goes on
            // (it is about to use the block itself, so the block is still allocated): 1 = the
            // kernel has not yet signalled the thread's exit
            let a = WAIT_ADDR.load(Ordering::SeqCst);
            if a != 0 && WAIT_TID.load(Ordering::SeqCst) == tid {
                let w = unsafe { (*(a as *const AtomicU32)).load(Ordering::SeqCst) };
                e.u("word", w as u64).emit();
            } else {
                e.emit();
            }
        } else {
            e.emit();
        }
    }
    jitter();
    maybe_block(tid, id, arg);
}

#[inline]
fn jitter() {
    let j = JITTER.load(Ordering::Relaxed);
    if j == 0 || ACTIVE.load(Ordering::Relaxed) {
        return;
    }
    let mut x = JITTER_RNG.load(Ordering::Relaxed);
    x ^= x << 13;
    x ^= x >> 7;
    x ^= x << 17;
    JITTER_RNG.store(x, Ordering::Relaxed);
    if ((x >> 20) % 1000) < j as u64 {
        let us = (x >> 40) & 0xff;
        if us < 8 {
            sys::sched_yield();
        } else {
            sys::sleep_us(us);
        }
    }
}

pub fn maybe_block(tid: u32, id: u32, arg: usize) {
    if !ACTIVE.load(Ordering::SeqCst) {
        return;
    }
    if id < 64 && PASS_MASK.load(Ordering::Relaxed) & (1u64 << id) != 0 {
        return;
    }
    if let Some(p) = party_of(tid) {
        block(p, id, arg);
    }
}

/// A spawned thread announces itself (first thing its closure does).
pub fn t_register(party: usize) {
    if LOG_POINTS.load(Ordering::Relaxed) {
        Ev::new("pt").u("id", T_START as u64).u("arg", party as u64).emit();
    }
    if party == 0 || party >= NPARTY {
        return;
    }
    let tid = sys::gettid();
    PARTIES[party].tid.store(tid, Ordering::SeqCst);
    maybe_block(tid, T_START, party);
}

fn ord_name(o: Ordering) -> &'static str {
    match o {
        Ordering::Relaxed => "Relaxed",
        Ordering::Acquire => "Acquire",
        Ordering::Release => "Release",
        Ordering::AcqRel => "AcqRel",
        Ordering::SeqCst => "SeqCst",
        _ => "?",
    }
}

#[inline]
fn is_exit_word(addr: usize) -> bool {
    addr != 0 && addr == WAIT_ADDR.load(Ordering::Relaxed) && sys::gettid() == WAIT_TID.load(Ordering::Relaxed)
}

fn hk_before(op: &verif::Op) -> verif::Directive {
    if op.addr != WAIT_ADDR.load(Ordering::Relaxed) || op.addr == 0 {
        return verif::Directive::Pass;
    }
    if !is_exit_word(op.addr) {
        return verif::Directive::Pass;
    }
    if matches!(op.kind, verif::OpKind::Load) {
        if LOG_POINTS.load(Ordering::Relaxed) && WAIT_OPS_LOGGED.load(Ordering::Relaxed) < WAIT_OPS_CAP {
            Ev::new("pt").u("id", X_LOAD as u64).u("arg", op.addr as u64).s("ord", ord_name(op.success)).emit();
        }
        maybe_block(sys::gettid(), X_LOAD, op.addr);
    }
    verif::Directive::Run
}

fn hk_after(op: &verif::Op, old: u32, _ok: bool) {
    // always log the load that ends the wait (reads a value other than 1), cap the others
    if WAIT_OPS_LOGGED.fetch_add(1, Ordering::Relaxed) >= WAIT_OPS_CAP && old == 1 {
        return;
    }
    if matches!(op.kind, verif::OpKind::Load) {
        Ev::new("xload").u("val", old as u64).s("ord", ord_name(op.success)).u("addr", op.addr as u64).emit();
    } else {
        Ev::new("xop").u("old", old as u64).s("ord", ord_name(op.success)).u("addr", op.addr as u64).emit();
    }
}

fn hk_futex_wait(word: &core::sync::atomic::AtomicU32, val: u32) -> Option<i32> {
    let addr = word.as_ptr() as usize;
    if is_exit_word(addr) && WAIT_OPS_LOGGED.load(Ordering::Relaxed) < WAIT_OPS_CAP {
        Ev::new("xwait").u("val", val as u64).u("cur", word.load(Ordering::Relaxed) as u64).u("addr", addr as u64).emit();
        maybe_block(sys::gettid(), X_WAIT, addr);
    }
    None
}

fn hk_futex_wake(_word: &core::sync::atomic::AtomicU32, _n: i32) -> Option<i32> {
    None
}

static HOOKS: verif::Hooks = verif::Hooks {
    before: hk_before,
    after: hk_after,
    futex_wait: hk_futex_wait,
    futex_wake: hk_futex_wake,
};

pub fn install() {
    vt::install(on_point);
    verif::install(&HOOKS);
}

// ------------------------------------------------------------------------------------------
// scheduler side (main thread)
// ------------------------------------------------------------------------------------------

#[derive(Clone, Copy, PartialEq, Eq, Debug)]
pub enum Q {
    At(u32),
    Parked,
    Gone,
    Idle,
    Running,
}

pub fn state_of(i: usize) -> Q {
    let p = &PARTIES[i];
    let at = p.at.load(Ordering::SeqCst);
    if at != 0 {
        return Q::At(at);
    }
    let tid = p.tid.load(Ordering::SeqCst);
    if tid == 0 {
        // a thread that has not registered yet (not spawned / clone not done)
        return Q::Running;
    }
    if i == 0 {
        if p.idle.load(Ordering::SeqCst) {
            return Q::Idle;
        }
        let a = WAIT_ADDR.load(Ordering::SeqCst);
        if a != 0 && WAIT_TID.load(Ordering::SeqCst) == tid && sys::parked_in_futex(tid, a) {
            // make sure it did not arrive at a point in the meantime
            let at2 = p.at.load(Ordering::SeqCst);
            if at2 != 0 {
                return Q::At(at2);
            }
            // It is parked on a live block (it will use it when it wakes).  If the kernel has
            // already cleared the word the wake-up is on its way: not a stable state.
            let w = unsafe { (*(a as *const AtomicU32)).load(Ordering::SeqCst) };
            if w != 1 {
                return Q::Running;
            }
            return Q::Parked;
        }
        Q::Running
    } else {
        if sys::tgkill0(tid) == -3 {
            return Q::Gone;
        }
        Q::Running
    }
}

/// Wait until party i is quiescent (at a point, parked in the kernel on the exit futex, gone or idle).
pub fn wait_quiescent(i: usize, timeout_us: u64) -> Q {
    let t0 = sys::now_us();
    let mut n = 0u32;
    loop {
        let q = state_of(i);
        if q != Q::Running {
            return q;
        }
        if sys::now_us() - t0 > timeout_us {
            return Q::Running;
        }
        n += 1;
        if n < 50 {
            sys::sched_yield();
        } else {
            sys::sleep_us(100);
        }
    }
}

pub fn grant(i: usize) {
    let p = &PARTIES[i];
    p.at.store(0, Ordering::SeqCst);
    p.go.fetch_add(1, Ordering::SeqCst);
    sys::futex_wake(p.go.as_ptr() as usize, 1);
}

pub fn release_all() {
    ACTIVE.store(false, Ordering::SeqCst);
    for p in PARTIES.iter() {
        p.go.fetch_add(1, Ordering::SeqCst);
        sys::futex_wake(p.go.as_ptr() as usize, 8);
    }
}

pub fn reset() {
    for (i, p) in PARTIES.iter().enumerate() {
        if i != 0 {
            p.tid.store(0, Ordering::SeqCst);
        }
        p.at.store(0, Ordering::SeqCst);
        p.idle.store(false, Ordering::SeqCst);
    }
    WAIT_ADDR.store(0, Ordering::SeqCst);
    WAIT_TID.store(0, Ordering::SeqCst);
}

/// Deliver one stray FUTEX_WAKE to the exit futex the handle owner is parked on.
/// Returns the number of waiters woken (1 = delivered), 0 if it never parked.
pub fn stray_wake(timeout_us: u64) -> i64 {
    let t0 = sys::now_us();
    loop {
        let a = WAIT_ADDR.load(Ordering::SeqCst);
        let tid = WAIT_TID.load(Ordering::SeqCst);
        if a != 0 && tid != 0 && sys::parked_in_futex(tid, a) {
            let r = sys::futex_wake_shared(a, 1);
            if r >= 1 {
                Ev::new("stray_wake").u("addr", a as u64).i("woken", r as i64).emit();
                return r as i64;
            }
        }
        if sys::now_us() - t0 > timeout_us {
            Ev::new("stray_wake").u("addr", a as u64).i("woken", 0).emit();
            return 0;
        }
        sys::sleep_us(50);
    }
}
