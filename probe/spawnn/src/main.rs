//! C13 probe for the no-alloc API: `tiny_std::process::spawn` (const-generic argv array, whose LAST
//! element is discarded and replaced by the terminating NULL as documented; `Environment::Inherit`
//! or `Environment::None`; closures as a slice of `&mut dyn FnMut`).  No allocator at all.
//!
//! Plan tokens (arguments): bin=<path> arg=<a> (0..2) envnone=1 cwd=<dir> uid= gid= pg=
//!   in=|out=|err=<inherit|null|pipe|fd:N>  pre=<code> (0..3)  wait=<wait|try|poll>,..
//! Reporting through markers only, exactly like probe/spawnp.
#![no_std]
#![no_main]
use core::fmt::Write;
use tiny_std::process::{Environment, Stdio};
use tiny_std::unix::fd::AsRawFd;
use tiny_std::{Errno, UnixStr};

fn mark(s: &[u8]) {
    unsafe {
        sc::syscall!(WRITE, -1isize as usize, s.as_ptr(), s.len());
    }
}

struct Buf {
    b: [u8; 256],
    n: usize,
}
impl Write for Buf {
    fn write_str(&mut self, s: &str) -> core::fmt::Result {
        for &c in s.as_bytes() {
            if self.n < self.b.len() {
                self.b[self.n] = c;
                self.n += 1;
            }
        }
        Ok(())
    }
}

fn num(s: &[u8]) -> i32 {
    let (neg, d) = if s.first() == Some(&b'-') { (true, &s[1..]) } else { (false, s) };
    let mut v = 0i32;
    for b in d {
        v = v * 10 + i32::from(b - b'0');
    }
    if neg {
        -v
    } else {
        v
    }
}

fn stdio(s: &[u8]) -> Option<Stdio> {
    match s {
        b"inherit" => Some(Stdio::Inherit),
        b"null" => Some(Stdio::Null),
        b"pipe" => Some(Stdio::MakePipe),
        _ => Some(Stdio::RawFd(rusl::platform::Fd::try_new(num(&s[3..])).unwrap())),
    }
}

fn err_code(e: &tiny_std::Error, out: &mut Buf) {
    if let tiny_std::Error::Os { code, .. } = e {
        let _ = write!(out, "{}", code.raw());
    } else {
        let _ = out.write_str("none");
    }
}

fn pre(i: u8, code: i32) -> tiny_std::Result<()> {
    mark(&[b'M', b'A', b'R', b'K', b':', b'p', b'r', b'e', b':', b'0' + i]);
    if code == 0 {
        Ok(())
    } else if code > 0 {
        Err(tiny_std::Error::Os { msg: "pre_exec plan", code: Errno::new(code) })
    } else {
        Err(tiny_std::Error::Uncategorized("pre_exec plan"))
    }
}

#[no_mangle]
pub fn main() -> i32 {
    let mut bin: Option<&'static UnixStr> = None;
    let mut args: [Option<&'static UnixStr>; 2] = [None, None];
    let mut nargs = 0;
    let mut cwd: Option<&'static UnixStr> = None;
    let (mut uid, mut gid, mut pg) = (None, None, None);
    let (mut sin, mut sout, mut serr) = (None, None, None);
    let mut pres = [0i32; 3];
    let mut npre = 0;
    let mut envnone = false;
    let mut ops: [&[u8]; 8] = [b""; 8];
    let mut nops = 0;
    let mut feed: Option<&[u8]> = None;
    let mut payload_n = 0usize;
    for a in tiny_std::env::args_os().skip(1) {
        let s = a.as_slice();
        let s = &s[..s.len() - 1];
        let Some(eq) = s.iter().position(|&c| c == b'=') else { return 2 };
        let (k, v) = (&s[..eq], &s[eq + 1..]);
        // the value is the NUL-terminated tail of the argument
        let tail: &'static UnixStr = unsafe { UnixStr::from_ptr(a.as_ptr().add(eq + 1)) };
        match k {
            b"bin" => bin = Some(tail),
            b"arg" => {
                args[nargs] = Some(tail);
                nargs += 1;
            }
            b"envnone" => envnone = true,
            b"cwd" => cwd = Some(tail),
            b"uid" => uid = Some(num(v)),
            b"gid" => gid = Some(num(v)),
            b"pg" => pg = Some(num(v)),
            b"in" => sin = stdio(v),
            b"out" => sout = stdio(v),
            b"err" => serr = stdio(v),
            b"pre" => {
                pres[npre] = num(v);
                npre += 1;
            }
            b"wait" => {
                for o in v.split(|&c| c == b',') {
                    if !o.is_empty() && nops < 8 {
                        ops[nops] = o;
                        nops += 1;
                    }
                }
            }
            b"feed" => feed = Some(v),
            b"payload" => payload_n = num(v) as usize,
            b"bulk" => {} // iterator forms of the builder do not exist without alloc
            _ => return 2,
        }
    }
    let bin = bin.unwrap();
    let env = if envnone { Environment::None } else { Environment::Inherit };
    let (c1, c2, c3) = (pres[0], pres[1], pres[2]);
    let mut f1 = move || pre(1, c1);
    let mut f2 = move || pre(2, c2);
    let mut f3 = move || pre(3, c3);
    let mut cl2: [&mut (dyn FnMut() -> tiny_std::Result<()> + Send + Sync); 3] = [&mut f1, &mut f2, &mut f3];
    let closures = &mut cl2[..npre];
    let me = rusl::process::get_pid();
    let mut m = Buf { b: [0; 256], n: 0 };
    let uid = uid.map(|u| u as _);
    let gid = gid.map(|g| g as _);
    mark(b"MARK:spawn:begin");
    // the last element of the argv array is discarded (replaced by the terminating NULL)
    let res = match nargs {
        0 => tiny_std::process::spawn::<0, _>(bin, [], &env, sin, sout, serr, closures, cwd, uid, gid, pg),
        1 => tiny_std::process::spawn::<3, _>(bin, [bin, args[0].unwrap(), bin], &env, sin, sout, serr, closures, cwd, uid, gid, pg),
        _ => tiny_std::process::spawn::<4, _>(
            bin,
            [bin, args[0].unwrap(), args[1].unwrap(), bin],
            &env,
            sin,
            sout,
            serr,
            closures,
            cwd,
            uid,
            gid,
            pg,
        ),
    };
    match &res {
        Ok(child) => {
            let fd = |p: &Option<tiny_std::process::AnonPipe>| p.as_ref().map_or(-1, |p| p.borrow_fd().as_raw_fd().value());
            let _ = write!(m, "MARK:returned:ok:{},{},{}", fd(&child.stdin), fd(&child.stdout), fd(&child.stderr));
        }
        Err(e) => {
            let _ = m.write_str("MARK:returned:err:");
            err_code(e, &mut m);
        }
    }
    mark(&m.b[..m.n]);
    if rusl::process::get_pid() != me {
        tiny_std::process::exit(97);
    }
    if let Ok(mut child) = res {
        m.n = 0;
        if let (Some(f), Some(p)) = (feed, child.stdin.as_mut()) {
            use tiny_std::io::Write as _;
            let _ = p.write(f);
        }
        for op in ops[..nops].iter() {
            m.n = 0;
            match *op {
                b"W" => {
                    use tiny_std::io::Write as _;
                    let mut off = 0usize;
                    let mut res = "ok";
                    if let Some(p) = child.stdin.as_mut() {
                        let mut chunk = [0u8; 4096];
                        while off < payload_n {
                            let len = (payload_n - off).min(chunk.len());
                            for (j, c) in chunk[..len].iter_mut().enumerate() {
                                *c = (((off + j) * 7 + 13) % 251) as u8;
                            }
                            let mut done = 0;
                            while done < len {
                                match p.write(&chunk[done..len]) {
                                    Ok(k) if k > 0 => done += k,
                                    _ => {
                                        res = "err";
                                        break;
                                    }
                                }
                            }
                            off += done;
                            if res != "ok" {
                                break;
                            }
                        }
                    } else {
                        res = "nopipe";
                    }
                    let _ = write!(m, "MARK:io:W:{res}:{off}:0:0:");
                    mark(&m.b[..m.n]);
                    continue;
                }
                b"C" => {
                    drop(child.stdin.take());
                    mark(b"MARK:io:C:ok:0:0:0:");
                    continue;
                }
                b"RO" | b"RE" => {
                    use tiny_std::io::Read as _;
                    let name = if *op == b"RO" { "RO" } else { "RE" };
                    let pipe = if *op == b"RO" { &mut child.stdout } else { &mut child.stderr };
                    if let Some(p) = pipe.as_mut() {
                        let (mut n, mut a, mut b) = (0u64, 1u32, 0u32);
                        let mut head = [0u8; 48];
                        let mut hl = 0usize;
                        let mut buf = [0u8; 4096];
                        let res = loop {
                            match p.read(&mut buf) {
                                Ok(0) => break "eof",
                                Ok(k) => {
                                    for &c in &buf[..k] {
                                        a = (a + u32::from(c)) % 65521;
                                        b = (b + a) % 65521;
                                        if hl < 48 {
                                            head[hl] = c;
                                            hl += 1;
                                        }
                                    }
                                    n += k as u64;
                                }
                                Err(_) => break "err",
                            }
                        };
                        let _ = write!(m, "MARK:io:{name}:{res}:{n}:{a}:{b}:");
                        for c in &head[..hl] {
                            let _ = write!(m, "{c:02x}");
                        }
                    } else {
                        let _ = write!(m, "MARK:io:{name}:nopipe:0:0:0:");
                    }
                    mark(&m.b[..m.n]);
                    continue;
                }
                _ => {}
            }
            let r: tiny_std::Result<Option<i32>> = match *op {
                b"wait" => child.wait().map(Some),
                b"try" => child.try_wait(),
                _ => {
                    drop(child.stdin.take());
                    loop {
                        match child.try_wait() {
                            Ok(None) => unsafe {
                                let ts: [i64; 2] = [0, 2_000_000];
                                sc::syscall!(NANOSLEEP, ts.as_ptr(), 0);
                            },
                            other => break other,
                        }
                    }
                }
            };
            m.n = 0;
            let _ = m.write_str("MARK:waited:");
            let _ = m.write_str(core::str::from_utf8(op).unwrap_or("?"));
            match r {
                Ok(Some(st)) => {
                    let _ = write!(m, ":ok:{st}");
                }
                Ok(None) => {
                    let _ = m.write_str(":none:0");
                }
                Err(e) => {
                    let _ = m.write_str(":err:");
                    err_code(&e, &mut m);
                }
            }
            mark(&m.b[..m.n]);
        }
    }
    mark(b"MARK:spawn:end");
    0
}
