/* spawn_helper - target program of the C13 check (Command::spawn).
 *
 * Dumps what "the child is executing" as one JSON object: argv, envp, cwd, the descriptor
 * table (/proc/self/fd: number, link target, access mode, close-on-exec flag), ids.
 * Nothing about where to write or how to exit is taken from argv / environment / cwd (those
 * are the quantities under test): the dump goes to "<path of /proc/self/exe>.<pid>.dump" and the
 * way to terminate is encoded in the file name of the executable (the check hard-links the
 * helper under a per-run name):
 *     h<N>     exit(N)
 *     k<N>     raise signal N (default action)
 * followed by flags: r = read stdin to the end and report the bytes; w = write "OUT" to fd 1 and
 * "ERR" to fd 2; c = copy stdin to stdout until end-of-file ("ERRMARK\n" on stderr first,
 * "ERR:<bytes>\n" last), reporting byte count and an order-sensitive checksum; s = after the dump
 * stop (SIGSTOP) and be continued 150 ms later by a grandchild, then end as the name says.
 * Static, no libc start-up dependence on the environment.
 */
#define _GNU_SOURCE
#include <dirent.h>
#include <errno.h>
#include <fcntl.h>
#include <signal.h>
#include <stdio.h>
#include <stdlib.h>
#include <string.h>
#include <time.h>
#include <unistd.h>
#include <sys/stat.h>

static void jstr(FILE *f, const char *s)
{
    fputc('"', f);
    for (; *s; s++) {
        unsigned char c = (unsigned char)*s;
        if (c == '"' || c == '\\')
            fprintf(f, "\\%c", c);
        else if (c < 0x20 || c >= 0x7f)
            fprintf(f, "\\u%04x", c);
        else
            fputc(c, f);
    }
    fputc('"', f);
}

int main(int argc, char **argv, char **envp)
{
    char exe[4096], out[4200], tmp[4200], cwd[4096], link[4096], p[64];
    ssize_t n = readlink("/proc/self/exe", exe, sizeof exe - 1);
    if (n <= 0)
        _exit(111);
    exe[n] = 0;
    snprintf(out, sizeof out, "%s.%d.dump", exe, (int)getpid());
    snprintf(tmp, sizeof tmp, "%s.%d.dump.tmp", exe, (int)getpid());
    const char *base = strrchr(exe, '/');
    base = base ? base + 1 : exe;

    /* snapshot the descriptor table BEFORE opening anything ourselves */
    struct fdent { int fd; char link[512]; int fl; int cloexec; } ents[256];
    int nents = 0;
    {
        /* use the raw getdents-free approach: probe 0..1023 with fcntl */
        for (int fd = 0; fd < 1024 && nents < 256; fd++) {
            int fl = fcntl(fd, F_GETFL);
            if (fl < 0)
                continue;
            int fdfl = fcntl(fd, F_GETFD);
            snprintf(p, sizeof p, "/proc/self/fd/%d", fd);
            ssize_t m = readlink(p, link, sizeof link - 1);
            if (m < 0)
                m = 0;
            link[m] = 0;
            ents[nents].fd = fd;
            snprintf(ents[nents].link, sizeof ents[nents].link, "%s", link);
            ents[nents].fl = fl & O_ACCMODE;
            ents[nents].cloexec = (fdfl & FD_CLOEXEC) ? 1 : 0;
            nents++;
        }
    }
    /* a footprint on the open file DESCRIPTIONS behind 0/1/2 when they are regular files: 3 bytes read
     * from stdin, 2 bytes written to stdout / stderr - whoever shares the description sees its offset move */
    int foot[3] = {-1, -1, -1};
    for (int fd = 0; fd < 3; fd++) {
        struct stat st;
        if (fstat(fd, &st) == 0 && S_ISREG(st.st_mode)) {
            char b3[3];
            foot[fd] = fd == 0 ? (int)read(0, b3, 3) : (int)write(fd, fd == 1 ? "o1" : "e2", 2);
        }
    }
    if (!getcwd(cwd, sizeof cwd))
        snprintf(cwd, sizeof cwd, "<getcwd errno %d>", errno);

    char inbuf[256];
    ssize_t got = -1;
    /* flags after the number in the file name: r = read stdin to the end, w = write OUT / ERR,
     * c = copy stdin to stdout until end-of-file, "ERRMARK\n" on stderr first and "ERR:<bytes>\n" last */
    const char *fl = base + 1;
    while (*fl >= '0' && *fl <= '9')
        fl++;
    int want_r = strchr(fl, 'r') != NULL, want_w = strchr(fl, 'w') != NULL, want_c = strchr(fl, 'c') != NULL;
    long long copied = -1, outw = 0;
    unsigned ad_a = 1, ad_b = 0;
    int out_err = 0;
    if (want_w) {
        (void)!write(1, "OUT", 3);
        (void)!write(2, "ERR", 3);
    }
    if (want_c) {
        static char cbuf[8192];
        signal(SIGPIPE, SIG_IGN);
        (void)!write(2, "ERRMARK\n", 8);
        copied = 0;
        for (;;) {
            ssize_t r = read(0, cbuf, sizeof cbuf);
            if (r <= 0)
                break;
            for (ssize_t i = 0; i < r; i++) {
                ad_a = (ad_a + (unsigned char)cbuf[i]) % 65521u;
                ad_b = (ad_b + ad_a) % 65521u;
            }
            copied += r;
            ssize_t off = 0;
            while (off < r && !out_err) {
                ssize_t w = write(1, cbuf + off, (size_t)(r - off));
                if (w <= 0) {
                    out_err = errno ? errno : -1;
                    break;
                }
                off += w;
                outw += w;
            }
        }
        char mk[64];
        int ml = snprintf(mk, sizeof mk, "ERR:%lld\n", copied);
        (void)!write(2, mk, (size_t)ml);
    }
    if (want_r) {
        got = 0;
        for (;;) {
            ssize_t r = read(0, inbuf + got, sizeof inbuf - 1 - (size_t)got);
            if (r <= 0)
                break;
            got += r;
            if ((size_t)got >= sizeof inbuf - 1)
                break;
        }
        inbuf[got] = 0;
    }

    FILE *f = fopen(tmp, "w");
    if (!f)
        _exit(112);
    fprintf(f, "{\"ev\":\"dump\",\"exe\":");
    jstr(f, exe);
    fprintf(f, ",\"argv\":[");
    for (int i = 0; i < argc; i++) {
        if (i)
            fputc(',', f);
        jstr(f, argv[i]);
    }
    fprintf(f, "],\"envp\":[");
    for (int i = 0; envp && envp[i]; i++) {
        if (i)
            fputc(',', f);
        jstr(f, envp[i]);
    }
    fprintf(f, "],\"cwd\":");
    jstr(f, cwd);
    fprintf(f, ",\"fds\":[");
    for (int i = 0; i < nents; i++) {
        if (i)
            fputc(',', f);
        fprintf(f, "{\"fd\":%d,\"link\":", ents[i].fd);
        jstr(f, ents[i].link);
        fprintf(f, ",\"acc\":%d,\"cloexec\":%d}", ents[i].fl, ents[i].cloexec);
    }
    fprintf(f, "],\"pid\":%d,\"ppid\":%d,\"uid\":%d,\"euid\":%d,\"gid\":%d,\"egid\":%d,\"pgrp\":%d,\"sid\":%d",
            (int)getpid(), (int)getppid(), (int)getuid(), (int)geteuid(), (int)getgid(), (int)getegid(),
            (int)getpgrp(), (int)getsid(0));
    fprintf(f, ",\"foot\":[%d,%d,%d]", foot[0], foot[1], foot[2]);
    if (got >= 0) {
        fprintf(f, ",\"stdin_read\":");
        jstr(f, inbuf);
    }
    if (copied >= 0)
        fprintf(f, ",\"copied\":%lld,\"copied_out\":%lld,\"sum_a\":%u,\"sum_b\":%u,\"out_errno\":%d", copied, outw, ad_a, ad_b, out_err);
    fprintf(f, "}\n");
    fclose(f);
    rename(tmp, out);

    if (strchr(fl, 's')) {
        /* stops itself; a grandchild continues it 150 ms later (the caller's wait must sleep through
         * the stop, try_wait must say "still running"), then it ends as its name says */
        pid_t me = getpid();
        pid_t g = fork();
        if (g == 0) {
            struct timespec ts = {0, 150 * 1000 * 1000};
            for (int fd = 0; fd < 64; fd++)
                close(fd);
            nanosleep(&ts, NULL);
            kill(me, SIGCONT);
            _exit(0);
        }
        signal(SIGCHLD, SIG_IGN);   /* the grandchild is nobody's zombie */
        raise(SIGSTOP);
    }
    int code = atoi(base + 1);
    if (base[0] == 'k') {
        signal(code, SIG_DFL);
        raise(code);
        pause();
    }
    _exit(code);
}
