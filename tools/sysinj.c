/* sysinj - system-call logger and fault injector (ptrace, x86_64 Linux) for the tiny-std
 * verification checks C09 (syscall wrappers) and C12 (descriptor table).   Instrument I5 of
 * DESIGN.md.
 *
 *   sysinj -o LOG [-r RULE]... [-t SECONDS] [-b BUDGET] [-v] [-w] -- PROG ARGS...
 *   (-w: log system calls only inside marker windows; -v: one line per call in force windows too)
 *
 * Every system call of every task of the traced process tree is one ndjson line in LOG
 * ("sys"), so are fork/exec/exit/signal events and the *markers* the drivers emit:
 *
 *   write(-1, "MARK:<op>:begin[:<rest>]")     opens  window <op> (window ids count from 1)
 *   write(-1, "MARK:<op>:end[:<rest>]")       closes it
 *
 * (a write to descriptor -1 fails with EBADF and changes nothing).  At each marker the tracer
 * also lists /proc/<pid>/fd of the marking task ("fds").
 *
 * `src` of a call is "exe" when the instruction pointer lies in the mapping of the main
 * executable (the code under test issues its system calls through inline `syscall`
 * instructions that end up there) and "lib" otherwise (libc, the harness' own plumbing, the
 * std allocator).  `k` numbers the exe-calls of a task inside the current window from 1.
 *
 * Injection rules (-r, comma separated key=value; all keys optional except ret):
 *   win=<op>      only inside windows of that name          (default: any window, not outside)
 *   task=<n>      only task n (1 = the program started)     (default any)
 *   nr=<name|n>   only that system call                      (default any)
 *   src=exe|lib   (default exe)
 *   k=<n>         the n-th call matching the rule in the window (default: every match)
 *   ret=<v>       forced return register (signed or 0x.. 64 bit)
 *   mode=s|p      s: suppress the call (it is not executed) and force the result;
 *                 p: execute it, then overwrite the result.  default: p for close (the kernel
 *                 releases the descriptor even when close reports an error), s otherwise.
 *
 * Force windows (C09): `MARK:<op>:begin:force=<nr>/<mode>/<v1>;<v2>;...` forces the i-th
 * exe-call inside the window to v_i (whatever system call it is; calls other than <nr> are
 * listed under "others" of the summary line); calls beyond the list get the last
 * value again until BUDGET calls were forced, then the tracer writes a "limit" event, kills
 * the process tree and exits with status 3 ("loops forever" becomes data).  Force windows are
 * summarised by one "fwin" line at their end marker instead of one line per call (unless -v).
 *
 * exit status: that of PROG (128+signal if killed), 3 = re-issue limit, 4 = timeout, 2 = tracer error.
 */
#define _GNU_SOURCE
#include <ctype.h>
#include <dirent.h>
#include <errno.h>
#include <signal.h>
#include <stdarg.h>
#include <stdint.h>
#include <stdio.h>
#include <stdlib.h>
#include <string.h>
#include <unistd.h>
#include <sys/ptrace.h>
#include <sys/syscall.h>
#include <sys/types.h>
#include <sys/uio.h>
#include <sys/user.h>
#include <sys/wait.h>
#include <linux/ptrace.h>

#include "sysnames.h" /* generated: static const char *sysnames[]; #define NSYSNAMES */

#define MAXTASK 256
#define MAXRULE 64
#define MAXFORCE 64

struct task {
    pid_t pid;
    int idx;
    int alive, started, in_sys;
    long nr;
    unsigned long long args[6];
    unsigned long long rip;
    int src;            /* 1 exe 2 lib */
    int k;              /* exe-call index inside window */
    int inj;            /* 0 none, 's', 'p' */
    long long forced;
    int forcewin_call;  /* this call counted as an issue of the force window */
    unsigned long long exe_lo, exe_hi;
    int have_maps;
    int marker;
};

struct rule {
    char win[64];
    int task;
    long nr;
    int src;
    int k;
    long long ret;
    int mode;
    int count;
};

static struct task tasks[MAXTASK];
static int ntasks;
static struct rule rules[MAXRULE];
static int nrules;
static FILE *logf;
static int verbose;
static int windows_only; /* -w: no sys lines outside marker windows */
static int budget = 4;
static volatile sig_atomic_t timed_out;

/* window state */
static int win_id, win_open;
static int win_owner; /* task index that opened the current window; markers of other tasks are only logged */
static char win_op[128];
/* force window */
static int fw_active;
static long fw_nr;
static int fw_mode;
static long long fw_vals[MAXFORCE];
static int fw_n, fw_issues;
static long fw_others[16];
static int fw_nothers;
static long long fw_given[MAXFORCE];
static int fw_ngiven;

static void die(const char *fmt, ...) {
    va_list ap;
    va_start(ap, fmt);
    fprintf(stderr, "sysinj: ");
    vfprintf(stderr, fmt, ap);
    fprintf(stderr, "\n");
    va_end(ap);
    for (int i = 0; i < ntasks; i++)
        if (tasks[i].alive) kill(tasks[i].pid, SIGKILL);
    if (logf) fflush(logf);
    exit(2);
}

static const char *sysname(long nr) {
    static char buf[32];
    if (nr >= 0 && nr < NSYSNAMES && sysnames[nr]) return sysnames[nr];
    snprintf(buf, sizeof buf, "sys_%ld", nr);
    return buf;
}

static long sysnr(const char *name) {
    if (isdigit((unsigned char)name[0])) return atol(name);
    for (long i = 0; i < NSYSNAMES; i++)
        if (sysnames[i] && !strcmp(sysnames[i], name)) return i;
    return -2;
}

static struct task *find_task(pid_t pid) {
    for (int i = 0; i < ntasks; i++)
        if (tasks[i].pid == pid && tasks[i].alive) return &tasks[i];
    return NULL;
}

static struct task *new_task(pid_t pid) {
    if (ntasks >= MAXTASK) die("too many tasks");
    struct task *t = &tasks[ntasks];
    memset(t, 0, sizeof *t);
    t->pid = pid;
    t->idx = ++ntasks;
    t->alive = 1;
    return t;
}

static void json_str(FILE *f, const char *s, size_t n) {
    fputc('"', f);
    for (size_t i = 0; i < n; i++) {
        unsigned char c = (unsigned char)s[i];
        if (c == '"' || c == '\\') fprintf(f, "\\%c", c);
        else if (c < 0x20 || c >= 0x7f) fprintf(f, "\\u%04x", c);
        else fputc(c, f);
    }
    fputc('"', f);
}

static void read_maps(struct task *t) {
    char path[64], exe[4096], line[4352];
    t->exe_lo = t->exe_hi = 0;
    t->have_maps = 1;
    snprintf(path, sizeof path, "/proc/%d/exe", t->pid);
    ssize_t n = readlink(path, exe, sizeof exe - 1);
    if (n <= 0) return;
    exe[n] = 0;
    snprintf(path, sizeof path, "/proc/%d/maps", t->pid);
    FILE *f = fopen(path, "r");
    if (!f) return;
    while (fgets(line, sizeof line, f)) {
        unsigned long long lo, hi;
        char perms[8], name[4096];
        name[0] = 0;
        if (sscanf(line, "%llx-%llx %7s %*s %*s %*s %4095[^\n]", &lo, &hi, perms, name) < 3) continue;
        if (strcmp(name, exe)) continue;
        if (!t->exe_lo || lo < t->exe_lo) t->exe_lo = lo;
        if (hi > t->exe_hi) t->exe_hi = hi;
    }
    fclose(f);
}

static int read_mem(pid_t pid, unsigned long long addr, char *buf, size_t len) {
    struct iovec l = {buf, len}, r = {(void *)(uintptr_t)addr, len};
    ssize_t n = process_vm_readv(pid, &l, 1, &r, 1, 0);
    return n == (ssize_t)len ? 0 : -1;
}

static void log_fds(pid_t pid) {
    char path[64];
    int fds[4096], n = 0;
    snprintf(path, sizeof path, "/proc/%d/fd", pid);
    DIR *d = opendir(path);
    fprintf(logf, "[");
    if (d) {
        struct dirent *e;
        while ((e = readdir(d)))
            if (isdigit((unsigned char)e->d_name[0]) && n < 4096) fds[n++] = atoi(e->d_name);
        closedir(d);
        for (int i = 1; i < n; i++) { /* insertion sort */
            int v = fds[i], j = i - 1;
            while (j >= 0 && fds[j] > v) { fds[j + 1] = fds[j]; j--; }
            fds[j + 1] = v;
        }
        for (int i = 0; i < n; i++) fprintf(logf, "%s%d", i ? "," : "", fds[i]);
    }
    fprintf(logf, "]");
}

static void kill_all(void) {
    for (int i = 0; i < ntasks; i++)
        if (tasks[i].alive) kill(tasks[i].pid, SIGKILL);
}

static long long parse_ll(const char *s) {
    if (s[0] == '-') return -(long long)strtoull(s + 1, NULL, 0);
    return (long long)strtoull(s, NULL, 0);
}

static void parse_rule(const char *spec) {
    if (nrules >= MAXRULE) die("too many rules");
    struct rule *r = &rules[nrules++];
    memset(r, 0, sizeof *r);
    r->nr = -1;
    r->src = 1;
    int have_ret = 0;
    char *dup = strdup(spec), *save = NULL;
    for (char *tok = strtok_r(dup, ",", &save); tok; tok = strtok_r(NULL, ",", &save)) {
        char *eq = strchr(tok, '=');
        if (!eq) die("bad rule token %s", tok);
        *eq++ = 0;
        if (!strcmp(tok, "win")) snprintf(r->win, sizeof r->win, "%s", eq);
        else if (!strcmp(tok, "task")) r->task = atoi(eq);
        else if (!strcmp(tok, "nr")) { r->nr = sysnr(eq); if (r->nr == -2) die("unknown syscall %s", eq); }
        else if (!strcmp(tok, "src")) r->src = !strcmp(eq, "exe") ? 1 : !strcmp(eq, "lib") ? 2 : 0;
        else if (!strcmp(tok, "k")) r->k = atoi(eq);
        else if (!strcmp(tok, "ret")) { r->ret = parse_ll(eq); have_ret = 1; }
        else if (!strcmp(tok, "mode")) r->mode = eq[0];
        else die("unknown rule key %s", tok);
    }
    free(dup);
    if (!have_ret) die("rule without ret: %s", spec);
}

/* marker: text = "MARK:<op>:<phase>[:<rest>]" */
static void handle_marker(struct task *t, char *text, size_t len) {
    char *f[4] = {0, 0, 0, 0};
    char copy[1024];
    snprintf(copy, sizeof copy, "%.*s", (int)len, text);
    char *p = copy;
    for (int i = 0; i < 4 && p; i++) {
        f[i] = p;
        if (i < 3) {
            char *c = strchr(p, ':');
            if (c) { *c = 0; p = c + 1; } else p = NULL;
        }
    }
    const char *op = f[1] ? f[1] : "", *phase = f[2] ? f[2] : "", *rest = f[3] ? f[3] : "";
    if (win_open && t->idx != win_owner) {
        /* e.g. a forked child that came back into the driver: never moves the window */
        fprintf(logf, "{\"ev\":\"mark\",\"task\":%d,\"pid\":%d,\"win\":%d,\"foreign\":true,\"op\":", t->idx, t->pid, win_id);
        json_str(logf, op, strlen(op));
        fprintf(logf, ",\"phase\":");
        json_str(logf, phase, strlen(phase));
        fprintf(logf, ",\"rest\":");
        json_str(logf, rest, strlen(rest));
        fprintf(logf, "}\n");
        return;
    }
    if (!strcmp(phase, "begin")) {
        win_owner = t->idx;
        win_id++;
        win_open = 1;
        snprintf(win_op, sizeof win_op, "%s", op);
        for (int i = 0; i < nrules; i++) rules[i].count = 0;
        for (int i = 0; i < ntasks; i++) tasks[i].k = 0;
        fw_active = 0;
        if (!strncmp(rest, "force=", 6)) {
            char spec[1024];
            snprintf(spec, sizeof spec, "%s", rest + 6);
            char *a = strchr(spec, '/');
            if (!a) die("bad force marker %s", rest);
            *a++ = 0;
            char *b = strchr(a, '/');
            if (!b) die("bad force marker %s", rest);
            *b++ = 0;
            fw_nr = sysnr(spec);
            if (fw_nr == -2) die("unknown syscall in force marker: %s", spec);
            fw_mode = a[0];
            fw_n = 0;
            char *save = NULL;
            for (char *tok = strtok_r(b, ";", &save); tok && fw_n < MAXFORCE; tok = strtok_r(NULL, ";", &save))
                fw_vals[fw_n++] = parse_ll(tok);
            if (!fw_n) die("force marker without values");
            fw_active = 1;
            fw_issues = 0;
            fw_nothers = 0;
            fw_ngiven = 0;
        }
    }
    if (!fw_active || verbose) {
        fprintf(logf, "{\"ev\":\"mark\",\"task\":%d,\"pid\":%d,\"win\":%d,\"op\":", t->idx, t->pid, win_id);
        json_str(logf, op, strlen(op));
        fprintf(logf, ",\"phase\":");
        json_str(logf, phase, strlen(phase));
        fprintf(logf, ",\"rest\":");
        json_str(logf, rest, strlen(rest));
        fprintf(logf, ",\"fds\":");
        log_fds(t->pid);
        fprintf(logf, "}\n");
    }
    if (!strcmp(phase, "end")) {
        if (fw_active) {
            fprintf(logf, "{\"ev\":\"fwin\",\"win\":%d,\"op\":", win_id);
            json_str(logf, op, strlen(op));
            fprintf(logf, ",\"rest\":");
            json_str(logf, rest, strlen(rest));
            fprintf(logf, ",\"nr\":\"%s\",\"issues\":%d,\"forced\":[", sysname(fw_nr), fw_issues);
            for (int i = 0; i < fw_ngiven; i++) fprintf(logf, "%s\"%lld\"", i ? "," : "", fw_given[i]);
            fprintf(logf, "],\"others\":[");
            for (int i = 0; i < fw_nothers; i++) fprintf(logf, "%s\"%s\"", i ? "," : "", sysname(fw_others[i]));
            fprintf(logf, "]}\n");
        }
        win_open = 0;
        fw_active = 0;
    }
}

static void on_entry(struct task *t, struct user_regs_struct *regs) {
    t->nr = (long)regs->orig_rax;
    t->args[0] = regs->rdi; t->args[1] = regs->rsi; t->args[2] = regs->rdx;
    t->args[3] = regs->r10; t->args[4] = regs->r8; t->args[5] = regs->r9;
    t->rip = regs->rip;
    t->inj = 0;
    t->forcewin_call = 0;
    t->marker = 0;
    if (!t->have_maps) read_maps(t);
    t->src = (t->rip >= t->exe_lo && t->rip < t->exe_hi) ? 1 : 2;
    /* marker? */
    if (t->nr == SYS_write && (int)t->args[0] == -1 && t->args[2] >= 5 && t->args[2] < 1000) {
        char buf[1024];
        size_t len = (size_t)t->args[2];
        if (read_mem(t->pid, t->args[1], buf, len) == 0 && !memcmp(buf, "MARK:", 5)) {
            buf[len] = 0;
            t->marker = 1;
            handle_marker(t, buf, len);
            return;
        }
    }
    if (!win_open) return;
    if (t->src == 1) t->k++;
    if (fw_active && t->src == 1) {
        /* every call the executable issues inside a force window is an issue of the wrapper
         * under test; the expected system call is only cross-checked ("others") */
        if (t->nr != fw_nr && fw_nothers < 16) fw_others[fw_nothers++] = t->nr;
        if (fw_issues >= budget) {
            fprintf(logf, "{\"ev\":\"limit\",\"win\":%d,\"op\":", win_id);
            json_str(logf, win_op, strlen(win_op));
            fprintf(logf, ",\"nr\":\"%s\",\"issues\":%d,\"forced\":[", sysname(fw_nr), fw_issues);
            for (int i = 0; i < fw_ngiven; i++) fprintf(logf, "%s\"%lld\"", i ? "," : "", fw_given[i]);
            fprintf(logf, "],\"others\":[");
            for (int i = 0; i < fw_nothers; i++) fprintf(logf, "%s\"%s\"", i ? "," : "", sysname(fw_others[i]));
            fprintf(logf, "]}\n");
            fflush(logf);
            kill_all();
            exit(3);
        }
        long long v = fw_vals[fw_issues < fw_n ? fw_issues : fw_n - 1];
        fw_issues++;
        if (fw_ngiven < MAXFORCE) fw_given[fw_ngiven++] = v;
        t->inj = fw_mode == 'p' ? 'p' : 's';
        t->forced = v;
        t->forcewin_call = 1;
    }
    for (int i = 0; i < nrules; i++) {
        /* every rule counts every call it matches (also when an earlier rule already injects
         * into this call), so that k means the same call index in all rules */
        struct rule *r = &rules[i];
        if (r->win[0] && strcmp(r->win, win_op)) continue;
        if (r->task && r->task != t->idx) continue;
        if (r->nr >= 0 && r->nr != t->nr) continue;
        if (r->src && r->src != t->src) continue;
        r->count++;
        if (r->k && r->count != r->k) continue;
        if (t->inj) continue;
        t->inj = r->mode ? r->mode : (t->nr == SYS_close ? 'p' : 's');
        t->forced = r->ret;
    }
    if (t->inj == 's') {
        regs->orig_rax = (unsigned long long)-1;
        if (ptrace(PTRACE_SETREGS, t->pid, 0, regs) < 0) die("SETREGS(entry): %s", strerror(errno));
    }
}

static void on_exit_stop(struct task *t, struct user_regs_struct *regs) {
    long long ret = (long long)regs->rax;
    long long real = ret;
    if (t->marker) return;
    if (t->inj) {
        regs->rax = (unsigned long long)t->forced;
        if (ptrace(PTRACE_SETREGS, t->pid, 0, regs) < 0) die("SETREGS(exit): %s", strerror(errno));
        ret = t->forced;
    }
    if (t->forcewin_call && !verbose) return;
    if (fw_active && !verbose && win_open) return;
    if (windows_only && !win_open) return;
    fprintf(logf, "{\"ev\":\"sys\",\"task\":%d,\"pid\":%d,\"win\":%d,\"k\":%d,\"src\":\"%s\",\"name\":\"%s\",\"args\":[",
            t->idx, t->pid, win_open ? win_id : 0, (win_open && t->src == 1) ? t->k : 0,
            t->src == 1 ? "exe" : "lib", sysname(t->nr));
    for (int i = 0; i < 6; i++) fprintf(logf, "%s%lld", i ? "," : "", (long long)t->args[i]);
    fprintf(logf, "],\"ret\":%lld", ret);
    if (real == 0 && t->inj != 's' && (t->nr == SYS_pipe || t->nr == SYS_pipe2 || t->nr == SYS_socketpair)) {
        int pair[2] = {-1, -1};
        if (read_mem(t->pid, t->args[t->nr == SYS_socketpair ? 3 : 0], (char *)pair, sizeof pair) == 0)
            fprintf(logf, ",\"out\":[%d,%d]", pair[0], pair[1]);
    }
    if (t->inj) fprintf(logf, ",\"inj\":{\"mode\":\"%c\",\"real\":%lld}", t->inj, real);
    fprintf(logf, "}\n");
}

static void on_alarm(int s) { (void)s; timed_out = 1; }

int main(int argc, char **argv) {
    const char *logpath = NULL;
    int timeout = 0, i = 1;
    for (; i < argc; i++) {
        if (!strcmp(argv[i], "--")) { i++; break; }
        if (!strcmp(argv[i], "-o") && i + 1 < argc) logpath = argv[++i];
        else if (!strcmp(argv[i], "-r") && i + 1 < argc) parse_rule(argv[++i]);
        else if (!strcmp(argv[i], "-t") && i + 1 < argc) timeout = atoi(argv[++i]);
        else if (!strcmp(argv[i], "-b") && i + 1 < argc) budget = atoi(argv[++i]);
        else if (!strcmp(argv[i], "-v")) verbose = 1;
        else if (!strcmp(argv[i], "-w")) windows_only = 1;
        else die("bad option %s", argv[i]);
    }
    if (i >= argc || !logpath) die("usage: sysinj -o LOG [-r RULE].. [-t S] [-b N] [-v] -- PROG ARGS..");
    logf = fopen(logpath, "we");
    if (!logf) die("cannot open %s", logpath);
    setvbuf(logf, NULL, _IOFBF, 1 << 20);

    pid_t child = fork();
    if (child < 0) die("fork: %s", strerror(errno));
    if (child == 0) {
        if (ptrace(PTRACE_TRACEME, 0, 0, 0) < 0) _exit(126);
        raise(SIGSTOP);
        execvp(argv[i], argv + i);
        _exit(127);
    }
    int status;
    if (waitpid(child, &status, 0) < 0 || !WIFSTOPPED(status)) die("child did not stop");
    long opts = PTRACE_O_TRACESYSGOOD | PTRACE_O_TRACEFORK | PTRACE_O_TRACEVFORK | PTRACE_O_TRACECLONE |
                PTRACE_O_TRACEEXEC | PTRACE_O_EXITKILL;
    if (ptrace(PTRACE_SETOPTIONS, child, 0, opts) < 0) die("SETOPTIONS: %s", strerror(errno));
    struct task *root = new_task(child);
    root->started = 1;
    if (timeout) {
        struct sigaction sa;
        memset(&sa, 0, sizeof sa);
        sa.sa_handler = on_alarm;
        sigaction(SIGALRM, &sa, NULL);
        alarm((unsigned)timeout);
    }
    if (ptrace(PTRACE_SYSCALL, child, 0, 0) < 0) die("PTRACE_SYSCALL: %s", strerror(errno));
    int exit_code = 0;
    int live = 1;
    while (live > 0) {
        pid_t pid = waitpid(-1, &status, __WALL);
        if (timed_out) { /* also when the tracee keeps us busy (a spinning loop of system calls) */
            fprintf(logf, "{\"ev\":\"timeout\",\"win\":%d,\"op\":", win_open ? win_id : 0);
            json_str(logf, win_op, strlen(win_op));
            fprintf(logf, "}\n");
            fflush(logf);
            kill_all();
            return 4;
        }
        if (pid < 0) {
            if (errno == EINTR) continue;
            if (errno == ECHILD) break;
            die("waitpid: %s", strerror(errno));
        }
        struct task *t = find_task(pid);
        if (!t) {
            t = new_task(pid); /* child seen before its parent's fork event */
        }
        if (WIFEXITED(status) || WIFSIGNALED(status)) {
            int st = WIFEXITED(status) ? WEXITSTATUS(status) : 128 + WTERMSIG(status);
            fprintf(logf, "{\"ev\":\"exit\",\"task\":%d,\"pid\":%d,\"status\":%d,\"signaled\":%s,\"win\":%d}\n", t->idx, pid, st,
                    WIFSIGNALED(status) ? "true" : "false", win_open ? win_id : 0);
            t->alive = 0;
            if (t->idx == 1) exit_code = st;
            live = 0;
            for (int j = 0; j < ntasks; j++) live += tasks[j].alive;
            continue;
        }
        if (!WIFSTOPPED(status)) continue;
        int sig = WSTOPSIG(status);
        int event = (unsigned)status >> 16;
        long deliver = 0;
        if (sig == (SIGTRAP | 0x80)) {
            struct user_regs_struct regs;
            if (ptrace(PTRACE_GETREGS, pid, 0, &regs) < 0) {
                if (errno == ESRCH) continue;
                die("GETREGS: %s", strerror(errno));
            }
            struct __ptrace_syscall_info info;
            memset(&info, 0, sizeof info);
            long r = ptrace(PTRACE_GET_SYSCALL_INFO, pid, sizeof info, &info);
            int is_entry = r > 0 ? info.op == PTRACE_SYSCALL_INFO_ENTRY : !t->in_sys;
            if (is_entry) {
                t->in_sys = 1;
                on_entry(t, &regs);
            } else {
                t->in_sys = 0;
                on_exit_stop(t, &regs);
            }
        } else if (sig == SIGTRAP && event) {
            unsigned long msg = 0;
            ptrace(PTRACE_GETEVENTMSG, pid, 0, &msg);
            if (event == PTRACE_EVENT_FORK || event == PTRACE_EVENT_VFORK || event == PTRACE_EVENT_CLONE) {
                struct task *c = find_task((pid_t)msg);
                if (!c) c = new_task((pid_t)msg);
                c->exe_lo = t->exe_lo; c->exe_hi = t->exe_hi; c->have_maps = t->have_maps;
                fprintf(logf, "{\"ev\":\"fork\",\"parent\":%d,\"child\":%d,\"pid\":%d,\"kind\":\"%s\",\"win\":%d}\n", t->idx, c->idx,
                        (int)msg, event == PTRACE_EVENT_CLONE ? "clone" : event == PTRACE_EVENT_VFORK ? "vfork" : "fork",
                        win_open ? win_id : 0);
            } else if (event == PTRACE_EVENT_EXEC) {
                t->have_maps = 0;
                char path[64], exe[4096];
                snprintf(path, sizeof path, "/proc/%d/exe", pid);
                ssize_t n = readlink(path, exe, sizeof exe - 1);
                if (n < 0) n = 0;
                fprintf(logf, "{\"ev\":\"exec\",\"task\":%d,\"pid\":%d,\"exe\":", t->idx, pid);
                json_str(logf, exe, (size_t)n);
                fprintf(logf, ",\"win\":%d}\n", win_open ? win_id : 0);
            }
        } else if (sig == SIGSTOP && !t->started) {
            t->started = 1; /* initial stop of an auto-attached child */
        } else if (sig == SIGTRAP && !event) {
            deliver = 0; /* exec SIGTRAP without TRACEEXEC (not expected) */
        } else {
            if (t->idx == 1 || verbose)
                fprintf(logf, "{\"ev\":\"signal\",\"task\":%d,\"pid\":%d,\"sig\":%d,\"win\":%d}\n", t->idx, pid, sig, win_open ? win_id : 0);
            deliver = sig;
        }
        t->started = 1;
        if (ptrace(PTRACE_SYSCALL, pid, 0, deliver) < 0 && errno != ESRCH) die("PTRACE_SYSCALL: %s", strerror(errno));
    }
    fflush(logf);
    fclose(logf);
    return exit_code;
}
