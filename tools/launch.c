/* launch - exec a program with EXACT argv/envp vectors (arbitrary bytes, entries without '=',
 * duplicates, empty vectors), feed it a stdin payload, and record what the kernel set up for it.
 * Used by the C07 check (lib/checks/c07.py) to start the no-libc start-up probe.
 *
 *   launch <casefile> <outfile> [timeout_ms] [maxfail]
 *
 * After <maxfail> consecutive (or 3*<maxfail> in total) cases that did not exit with status 0 the remaining cases are not run
 * (reported with "status":"skipped"): a probe that hangs or crashes on every start would otherwise
 * cost one timeout per case.
 *
 * casefile (text):                       outfile (ndjson, one object per case):
 *   case <id>                              {"id":<id>,"status":"exit|signal|timeout|execfail","code":N,
 *   bin <path>                              "out":"<hex of the child's stdout>",
 *   arg <hex|->      (0 or more)            "auxv":[[key,val],...]   (/proc/<pid>/auxv, decimal)
 *   env <hex|->      (0 or more)            "random":"<hex 16 bytes at AT_RANDOM>",
 *   in <hex|->       (stdin payload)        "execfn":"<hex string at AT_EXECFN>",
 *   wait <prefix>    (optional)             "cmdline":"<hex /proc/<pid>/cmdline>","environ":"<hex>",
 *   stack            (optional)             "sp":N,"stack":"<hex of memory from the initial sp to the stack top>"}
 *   ids <uid> <gid>  (optional: the child switches to these real/effective ids before the exec)
 *   ids4 <ruid> <euid> <rgid> <egid>  (optional: real and effective ids that DIFFER - AT_UID/AT_EUID/AT_GID/AT_EGID all distinct)
 *   end
 * The /proc data is read after the exec has happened (CLOEXEC sync pipe) and, if `wait` is given,
 * after the child has printed a line starting with <prefix> (so it is past its start-up code)
 * while it blocks reading stdin; the payload is written afterwards.
 */
#define _GNU_SOURCE
#include <errno.h>
#include <fcntl.h>
#include <grp.h>
#include <poll.h>
#include <signal.h>
#include <stdint.h>
#include <stdio.h>
#include <stdlib.h>
#include <string.h>
#include <sys/types.h>
#include <sys/wait.h>
#include <time.h>
#include <unistd.h>

#define MAXV 8192
#define MAXOUT (1 << 20)

static int hexv(int c) { return c <= '9' ? c - '0' : (c | 32) - 'a' + 10; }
static char *unhex(const char *h, size_t *len) {
    size_t n = strcmp(h, "-") == 0 ? 0 : strlen(h) / 2;
    char *b = malloc(n + 1);
    for (size_t i = 0; i < n; i++) b[i] = (char)(hexv(h[2 * i]) << 4 | hexv(h[2 * i + 1]));
    b[n] = 0;
    if (len) *len = n;
    return b;
}
static void puthex(FILE *f, const unsigned char *b, size_t n) {
    for (size_t i = 0; i < n; i++) fprintf(f, "%02x", b[i]);
}
static long now_ms(void) {
    struct timespec ts;
    clock_gettime(CLOCK_MONOTONIC, &ts);
    return ts.tv_sec * 1000 + ts.tv_nsec / 1000000;
}
static size_t slurp(const char *path, unsigned char *buf, size_t cap) {
    int fd = open(path, O_RDONLY);
    if (fd < 0) return 0;
    size_t n = 0;
    for (;;) {
        ssize_t k = read(fd, buf + n, cap - n);
        if (k <= 0) break;
        n += (size_t)k;
        if (n == cap) break;
    }
    close(fd);
    return n;
}

struct kase {
    long id;
    char *bin;
    char *argv[MAXV + 1];
    int argc;
    char *envp[MAXV + 1];
    int envc;
    char *in;
    size_t inlen;
    char *wait;
    int want_stack;
    long uid, gid, euid, egid;
};

static unsigned char out[MAXOUT];
static unsigned char tmp[1 << 18];

static int last_ok;

static void run_case(struct kase *c, FILE *of, long timeout_ms) {
    last_ok = 0;
    int pin[2], pout[2], psync[2];
    if (pipe(pin) || pipe(pout) || pipe2(psync, O_CLOEXEC)) { perror("pipe"); exit(2); }
    fflush(of);
    pid_t pid = fork();
    if (pid < 0) { perror("fork"); exit(2); }
    if (pid == 0) {
        dup2(pin[0], 0);
        dup2(pout[1], 1);
        close(pin[0]); close(pin[1]); close(pout[0]); close(pout[1]); close(psync[0]);
        if (c->gid >= 0 && (setgroups(0, NULL) || setresgid((gid_t)c->gid, (gid_t)(c->egid >= 0 ? c->egid : c->gid), (gid_t)(c->egid >= 0 ? c->egid : c->gid)))) _exit(126);
        if (c->uid >= 0 && setresuid((uid_t)c->uid, (uid_t)(c->euid >= 0 ? c->euid : c->uid), (uid_t)(c->euid >= 0 ? c->euid : c->uid))) _exit(126);
        execve(c->bin, c->argv, c->envp);
        int e = errno;
        if (write(psync[1], &e, sizeof e) < 0) {}
        _exit(127);
    }
    close(pin[0]); close(pout[1]); close(psync[1]);
    int err = 0;
    ssize_t k = read(psync[0], &err, sizeof err);   /* EOF: the exec happened */
    close(psync[0]);
    long deadline = now_ms() + timeout_ms;
    size_t olen = 0;
    int eof = 0, timed_out = 0;
    if (k > 0) {
        int st;
        waitpid(pid, &st, 0);
        close(pin[1]); close(pout[0]);
        fprintf(of, "{\"id\":%ld,\"status\":\"execfail\",\"code\":%d}\n", c->id, err);
        return;
    }
    /* phase 1: wait for the marker line (child past start-up, about to read stdin) */
    if (c->wait) {
        size_t wl = strlen(c->wait);
        for (;;) {
            int found = 0;
            for (size_t i = 0; i + wl <= olen; i++)
                if ((i == 0 || out[i - 1] == '\n') && memcmp(out + i, c->wait, wl) == 0 && memchr(out + i, '\n', olen - i)) { found = 1; break; }
            if (found || eof) break;
            long left = deadline - now_ms();
            if (left <= 0) { timed_out = 1; break; }
            struct pollfd pf = {pout[0], POLLIN, 0};
            if (poll(&pf, 1, (int)left) <= 0) continue;
            ssize_t r = read(pout[0], out + olen, MAXOUT - olen);
            if (r <= 0) eof = 1; else olen += (size_t)r;
        }
    }
    /* the kernel's view */
    char path[64];
    snprintf(path, sizeof path, "/proc/%d/auxv", pid);
    uint64_t aux[128];
    size_t an = slurp(path, (unsigned char *)aux, sizeof aux) / 16;
    fprintf(of, "{\"id\":%ld,\"auxv\":[", c->id);
    uint64_t at_random = 0, at_execfn = 0;
    for (size_t i = 0; i < an; i++) {
        fprintf(of, "%s[%llu,%llu]", i ? "," : "", (unsigned long long)aux[2 * i], (unsigned long long)aux[2 * i + 1]);
        if (aux[2 * i] == 25) at_random = aux[2 * i + 1];
        if (aux[2 * i] == 31) at_execfn = aux[2 * i + 1];
    }
    fprintf(of, "]");
    snprintf(path, sizeof path, "/proc/%d/mem", pid);
    int mfd = open(path, O_RDONLY);
    if (mfd >= 0) {
        unsigned char rb[16];
        if (at_random && pread(mfd, rb, 16, (off_t)at_random) == 16) { fprintf(of, ",\"random\":\""); puthex(of, rb, 16); fprintf(of, "\""); }
        if (at_execfn) {
            ssize_t r = pread(mfd, tmp, 4096, (off_t)at_execfn);
            if (r < 0) r = pread(mfd, tmp, 256, (off_t)at_execfn);
            if (r > 0) { size_t l = strnlen((char *)tmp, (size_t)r); fprintf(of, ",\"execfn\":\""); puthex(of, tmp, l); fprintf(of, "\""); }
        }
        if (c->want_stack) {
            /* field 28 of /proc/<pid>/stat: start_stack = the initial stack pointer (address of argc) */
            char sp_path[64];
            snprintf(sp_path, sizeof sp_path, "/proc/%d/stat", pid);
            size_t sl = slurp(sp_path, tmp, sizeof tmp - 1);
            tmp[sl] = 0;
            char *p = strrchr((char *)tmp, ')');
            unsigned long long sp = 0;
            if (p) {
                p += 2;
                for (int f = 3; f < 28 && p; f++) { p = strchr(p, ' '); if (p) p++; }
                if (p) sp = strtoull(p, NULL, 10);
            }
            /* stack top: end of the [stack] mapping */
            snprintf(sp_path, sizeof sp_path, "/proc/%d/maps", pid);
            size_t ml = slurp(sp_path, tmp, sizeof tmp - 1);
            tmp[ml] = 0;
            unsigned long long top = 0;
            char *ln = (char *)tmp;
            while (ln && *ln) {
                char *nl = strchr(ln, '\n');
                if (nl) *nl = 0;
                if (strstr(ln, "[stack]")) { unsigned long long lo, hi; if (sscanf(ln, "%llx-%llx", &lo, &hi) == 2) top = hi; }
                ln = nl ? nl + 1 : NULL;
            }
            if (sp && top > sp && top - sp < sizeof tmp) {
                ssize_t r = pread(mfd, tmp, top - sp, (off_t)sp);
                if (r > 0) { fprintf(of, ",\"sp\":%llu,\"stack\":\"", sp); puthex(of, tmp, (size_t)r); fprintf(of, "\""); }
            }
        }
        close(mfd);
    }
    snprintf(path, sizeof path, "/proc/%d/cmdline", pid);
    size_t n = slurp(path, tmp, sizeof tmp);
    fprintf(of, ",\"cmdline\":\""); puthex(of, tmp, n); fprintf(of, "\"");
    snprintf(path, sizeof path, "/proc/%d/environ", pid);
    n = slurp(path, tmp, sizeof tmp);
    fprintf(of, ",\"environ\":\""); puthex(of, tmp, n); fprintf(of, "\"");
    /* phase 2: payload, rest of the output */
    signal(SIGPIPE, SIG_IGN);
    size_t woff = 0;
    while (woff < c->inlen) {
        ssize_t w = write(pin[1], c->in + woff, c->inlen - woff);
        if (w <= 0) break;
        woff += (size_t)w;
    }
    close(pin[1]);
    while (!eof && !timed_out) {
        long left = deadline - now_ms();
        if (left <= 0) { timed_out = 1; break; }
        struct pollfd pf = {pout[0], POLLIN, 0};
        if (poll(&pf, 1, (int)left) <= 0) continue;
        ssize_t r = read(pout[0], out + olen, MAXOUT - olen);
        if (r <= 0) eof = 1; else olen += (size_t)r;
    }
    close(pout[0]);
    int st = 0;
    if (timed_out) {
        kill(pid, SIGKILL);
        waitpid(pid, &st, 0);
        fprintf(of, ",\"status\":\"timeout\",\"code\":0");
    } else {
        /* the child closed stdout; give it until the deadline to exit */
        for (;;) {
            pid_t w = waitpid(pid, &st, WNOHANG);
            if (w == pid) break;
            if (now_ms() > deadline) { kill(pid, SIGKILL); waitpid(pid, &st, 0); timed_out = 1; break; }
            usleep(200);
        }
        if (timed_out) fprintf(of, ",\"status\":\"timeout\",\"code\":0");
        else if (WIFSIGNALED(st)) fprintf(of, ",\"status\":\"signal\",\"code\":%d", WTERMSIG(st));
        else { fprintf(of, ",\"status\":\"exit\",\"code\":%d", WEXITSTATUS(st)); last_ok = WEXITSTATUS(st) == 0; }
    }
    fprintf(of, ",\"out\":\""); puthex(of, out, olen); fprintf(of, "\"}\n");
}

int main(int argc, char **argv) {
    if (argc < 3) { fprintf(stderr, "usage: launch <casefile> <outfile> [timeout_ms]\n"); return 2; }
    FILE *cf = fopen(argv[1], "r");
    FILE *of = fopen(argv[2], "w");
    long timeout_ms = argc > 3 ? atol(argv[3]) : 5000;
    long maxfail = argc > 4 ? atol(argv[4]) : 0, fails = 0, total_fails = 0;
    if (!cf || !of) { perror("open"); return 2; }
    static char line[1 << 16];
    struct kase c;
    memset(&c, 0, sizeof c);
    while (fgets(line, sizeof line, cf)) {
        size_t l = strlen(line);
        while (l && (line[l - 1] == '\n' || line[l - 1] == '\r')) line[--l] = 0;
        char *sp = strchr(line, ' ');
        char *val = sp ? sp + 1 : line + l;
        if (sp) *sp = 0;
        if (!strcmp(line, "case")) { memset(&c, 0, sizeof c); c.id = atol(val); c.uid = c.gid = c.euid = c.egid = -1; }
        else if (!strcmp(line, "ids4")) { sscanf(val, "%ld %ld %ld %ld", &c.uid, &c.euid, &c.gid, &c.egid); }
        else if (!strcmp(line, "ids")) { c.uid = atol(val); char *g = strchr(val, ' '); c.gid = g ? atol(g + 1) : -1; }
        else if (!strcmp(line, "bin")) c.bin = strdup(val);
        else if (!strcmp(line, "arg") && c.argc < MAXV) c.argv[c.argc++] = unhex(val, NULL);
        else if (!strcmp(line, "env") && c.envc < MAXV) c.envp[c.envc++] = unhex(val, NULL);
        else if (!strcmp(line, "in")) c.in = unhex(val, &c.inlen);
        else if (!strcmp(line, "wait")) c.wait = strdup(val);
        else if (!strcmp(line, "stack")) c.want_stack = 1;
        else if (!strcmp(line, "end")) {
            c.argv[c.argc] = NULL;
            c.envp[c.envc] = NULL;
            if (c.bin && maxfail && (fails >= maxfail || total_fails >= 3 * maxfail)) fprintf(of, "{\"id\":%ld,\"status\":\"skipped\",\"code\":0}\n", c.id);
            else if (c.bin) { run_case(&c, of, timeout_ms); fails = last_ok ? 0 : fails + 1; total_fails += !last_ok; }
            free(c.bin); free(c.in); free(c.wait);
            for (int i = 0; i < c.argc; i++) free(c.argv[i]);
            for (int i = 0; i < c.envc; i++) free(c.envp[i]);
            memset(&c, 0, sizeof c);
        }
    }
    fclose(of);
    return 0;
}
