/* stepstores - single-step the mem* calls of the C08 probe and log every store into its arena.
 *
 *   stepstores <probe> <stdin-file> <stdout-file> <outfile> [arena_len]
 *
 * The probe (probe/mem, mode "steps") brackets each call by the marker system calls
 * write(-1, "B", <arena address>) and write(-1, "E", ...).  Between the two markers the tracer
 * single-steps the child and compares the arena (arena_len bytes, default 208) after every instruction
 * with its previous contents; an instruction that changed cells [lo, hi] is logged as the store <<lo, hi-lo+1>>.
 * Output (ndjson, one line per bracketed call, in order):
 *   {"k":<index>,"steps":<instructions>,"stores":[[off,len],...]}            normal
 *   {"k":<index>,"steps":N,"stores":[...],"died":"signal <n>"}               the child faulted inside the call
 * The sequence of stores is what specs/MemAlgTrace.tla compares with the transcription MemAlg.tla and what
 * specs/MemStores.tla judges ("never writes a byte outside the destination range").
 *
 * A store that writes back the value it finds is invisible to a comparison of memory.  The tracer therefore
 * plays a CONCURRENT WRITER of the neighbouring bytes: the B marker also carries the call's destination offset d,
 * length n and source offset s (r10, r8, r9); after every instruction the tracer changes every arena byte within 16
 * bytes of the destination that is neither in [d, d+n) nor in the source range.  A read-modify-write of a whole
 * word that straddles the end of the destination (load, merge, store) then puts the OLD neighbour bytes back -
 * the foreign store is lost - and shows up as a store whose range leaves [d, d+n).
 */
#define _GNU_SOURCE
#include <errno.h>
#include <fcntl.h>
#include <signal.h>
#include <stdint.h>
#include <stdio.h>
#include <stdlib.h>
#include <string.h>
#include <sys/ptrace.h>
#include <sys/types.h>
#include <sys/uio.h>
#include <sys/user.h>
#include <sys/wait.h>
#include <unistd.h>

static int write_mem(pid_t pid, uint64_t addr, void *buf, size_t len) {
    struct iovec l = {buf, len}, r = {(void *)addr, len};
    return process_vm_writev(pid, &l, 1, &r, 1, 0) == (ssize_t)len ? 0 : -1;
}

static int read_mem(pid_t pid, uint64_t addr, void *buf, size_t len) {
    struct iovec l = {buf, len}, r = {(void *)addr, len};
    return process_vm_readv(pid, &l, 1, &r, 1, 0) == (ssize_t)len ? 0 : -1;
}

int main(int argc, char **argv) {
    if (argc < 5) { fprintf(stderr, "usage: stepstores <probe> <stdin-file> <stdout-file> <outfile> [arena_len]\n"); return 2; }
    size_t alen = argc > 5 ? (size_t)atol(argv[5]) : 208;
    if (alen > 4096) alen = 4096;
    FILE *of = fopen(argv[4], "w");
    if (!of) { perror("outfile"); return 2; }
    pid_t pid = fork();
    if (pid < 0) { perror("fork"); return 2; }
    if (pid == 0) {
        int in = open(argv[2], O_RDONLY), out = open(argv[3], O_WRONLY | O_CREAT | O_TRUNC, 0644);
        if (in < 0 || out < 0) _exit(126);
        dup2(in, 0); dup2(out, 1);
        ptrace(PTRACE_TRACEME, 0, 0, 0);
        char *av[] = {argv[1], NULL}, *ev[] = {NULL};
        execve(argv[1], av, ev);
        _exit(127);
    }
    int st;
    waitpid(pid, &st, 0);                     /* exec stop */
    if (!WIFSTOPPED(st)) { fprintf(stderr, "child did not stop at exec\n"); return 2; }
    ptrace(PTRACE_SETOPTIONS, pid, 0, PTRACE_O_TRACESYSGOOD | PTRACE_O_EXITKILL);
    long k = 0;
    int in_syscall = 0;
    unsigned char prev[4096], cur[4096];
    for (;;) {
        if (ptrace(PTRACE_SYSCALL, pid, 0, 0) < 0) break;
        if (waitpid(pid, &st, 0) < 0 || WIFEXITED(st) || WIFSIGNALED(st)) break;
        if (!(WIFSTOPPED(st) && WSTOPSIG(st) == (SIGTRAP | 0x80))) {
            if (WIFSTOPPED(st) && WSTOPSIG(st) != SIGTRAP) { ptrace(PTRACE_KILL, pid, 0, 0); break; }   /* fault outside a call */
            continue;
        }
        in_syscall = !in_syscall;
        if (!in_syscall) continue;            /* look at entries only */
        struct user_regs_struct regs;
        ptrace(PTRACE_GETREGS, pid, 0, &regs);
        if (regs.orig_rax != 1 || (long)regs.rdi != -1) continue;
        unsigned char tag = 0;
        read_mem(pid, regs.rsi, &tag, 1);
        if (tag != 'B') continue;
        uint64_t base = regs.rdx;
        long cd = (long)regs.r10, cn = (long)regs.r8, cs = (long)regs.r9;   /* destination offset, length, source offset (-1: none) */
        long wlo = cd - 16 < 0 ? 0 : cd - 16, whi = cd + cn + 16 > (long)alen ? (long)alen : cd + cn + 16;
        /* let the marker call finish */
        ptrace(PTRACE_SYSCALL, pid, 0, 0);
        waitpid(pid, &st, 0);
        in_syscall = 0;
        if (read_mem(pid, base, prev, alen)) { fprintf(stderr, "cannot read arena\n"); break; }
        fprintf(of, "{\"k\":%ld,\"stores\":[", k);
        long steps = 0, nst = 0;
        int died = 0;
        for (;;) {
            ptrace(PTRACE_GETREGS, pid, 0, &regs);
            long insn = ptrace(PTRACE_PEEKTEXT, pid, (void *)regs.rip, 0);
            if ((insn & 0xffff) == 0x050f && regs.rax == 1 && (long)regs.rdi == -1) break;   /* next: the E marker */
            if (ptrace(PTRACE_SINGLESTEP, pid, 0, 0) < 0) { died = -1; break; }
            waitpid(pid, &st, 0);
            if (WIFEXITED(st) || WIFSIGNALED(st)) { died = -1; break; }
            if (WIFSTOPPED(st) && WSTOPSIG(st) != SIGTRAP) { died = WSTOPSIG(st); break; }
            steps++;
            if (steps > 2000000) { died = -2; break; }
            if (read_mem(pid, base, cur, alen)) { died = -1; break; }
            if (memcmp(cur, prev, alen)) {
                size_t lo = 0, hi = alen - 1;
                while (cur[lo] == prev[lo]) lo++;
                while (cur[hi] == prev[hi]) hi--;
                fprintf(of, "%s[%zu,%zu]", nst ? "," : "", lo, hi - lo + 1);
                nst++;
                memcpy(prev, cur, alen);
            }
            /* the concurrent writer: change every neighbouring byte that is neither destination nor source */
            if (cd >= 0 && cn >= 0 && cd + cn <= (long)alen) {
                for (long o = wlo; o < whi; o++) {
                    if (o >= cd && o < cd + cn) continue;
                    if (cs >= 0 && o >= cs && o < cs + cn) continue;
                    prev[o] = (unsigned char)(prev[o] + 1);
                }
                if (cd > wlo) write_mem(pid, base + (uint64_t)wlo, prev + wlo, (size_t)(cd - wlo));
                if (whi > cd + cn) write_mem(pid, base + (uint64_t)(cd + cn), prev + cd + cn, (size_t)(whi - cd - cn));
            }
        }
        fprintf(of, "],\"steps\":%ld", steps);
        if (died > 0) fprintf(of, ",\"died\":\"signal %d\"", died);
        else if (died == -2) fprintf(of, ",\"died\":\"step limit\"");
        else if (died) fprintf(of, ",\"died\":\"gone\"");
        fprintf(of, "}\n");
        k++;
        if (died) { ptrace(PTRACE_KILL, pid, 0, 0); waitpid(pid, &st, 0); break; }
    }
    fclose(of);
    return 0;
}
