/* spawntrace - ptrace tracer of the C13 check (Command::spawn): follows forks, logs the
 * process-level system calls of every task of the tree as ndjson, recognises the driver's
 * markers, records execve arguments / exits / reaps, injects ONE planned failure in the chosen
 * process, and turns a hang into data.  x86_64 Linux.  Self-contained (does not use sysinj).
 *
 *   spawntrace -o LOG [-i task=T,nr=NAME,k=K,(err=E|ret=V)] [-t MILLISECONDS] [-s SCHEDULE] [-f FD:r|w:PATH]... -- PROG ARGS...
 *
 * -s free|parent-first|child-first fixes the interleaving of the caller and the forked child at the two
 * extremes the model allows: parent-first parks the child at birth until the caller enters its read on
 * the sync pipe; child-first parks the caller when fork returns until the child exec'ed / exited.
 * -D detaches a child as soon as it has exec'ed successfully (no exit event for it then).
 * -f FD:r|w|a:PATH opens PATH (read / write+truncate / write+append, no truncation) on descriptor FD for
 * PROG (not close-on-exec); the tracer keeps the same open file
 * description and logs its file offset at the end ({"ev":"rawpos","fd":40,"pos":3}).  At the markers spawn:begin and
 * returned:* the descriptor table of the marking task is logged:
 *   {"ev":"fds","task":1,"at":"begin","pid":..,"pgrp":..,"fds":[{"fd":0,"link":"..","acc":0,"cloexec":0},..],"cwd":".."}
 *
 * Tasks are numbered in order of creation: 1 = PROG, 2 = the first process it forks, ...
 * The window opens at task 1's marker  write(-1, "MARK:spawn:begin")  and closes at task 1's
 * "MARK:spawn:end"; tasks created inside the window are in the window from birth (until they
 * exec successfully).  Inside the window the listed system calls are logged
 *   {"ev":"sys","task":2,"nr":"dup3","k":1,"args":[5,0,0],"ret":-9,"inj":true}
 * where k numbers the calls of that system call by that task inside the window (a forked child
 * starts its own counts at 0).  The injection rule matches (task, nr, k): the call is NOT
 * executed (syscall number replaced by -1) and its result is forced to -E (or V) - once, or with the
 * key `persist` for the k-th AND every later call of that system call by that task (a failure that
 * does not go away: a retry loop around it never ends); `close` is
 * executed and only its result overwritten (the kernel releases the descriptor even when close
 * reports an error).
 * Always logged: {"ev":"mark","task":t,"text":"returned:ok:0"} for every write(-1,"MARK:...")
 * {"ev":"fork","parent":1,"child":2}, {"ev":"exec","task":2,"path":..,"argv":[..],"envp":[..],
 * "envp_null":false,"ret":0,"inj":false}, {"ev":"exit","task":2,"status":1792} (raw wait status),
 * wait4 results carry "reaped":<task>,"wstatus":<raw>, chdir carries "path".  At the end
 * {"ev":"end","root_status":..,"timeout":false,"alive_at_root_exit":[..]} ; on timeout
 * {"ev":"timeout","alive":[{"task":1,"in":"read","execd":false},..]} precedes it and the tree is killed.
 * exit status: 0 normal end, 4 timeout, 2 tracer error.
 */
#define _GNU_SOURCE
#include <dirent.h>
#include <errno.h>
#include <fcntl.h>
#include <signal.h>
#include <stdarg.h>
#include <stddef.h>
#include <stdint.h>
#include <stdio.h>
#include <stdlib.h>
#include <string.h>
#include <time.h>
#include <unistd.h>
#include <sys/ptrace.h>
#include <sys/syscall.h>
#include <sys/time.h>
#include <sys/types.h>
#include <sys/uio.h>
#include <sys/user.h>
#include <sys/wait.h>
#include <linux/ptrace.h>

#define MAXTASK 64

static const struct { long nr; const char *name; } SYS[] = {
    {SYS_read, "read"}, {SYS_write, "write"}, {SYS_open, "open"}, {SYS_openat, "openat"},
    {SYS_close, "close"}, {SYS_pipe, "pipe"}, {SYS_pipe2, "pipe2"}, {SYS_dup, "dup"},
    {SYS_dup2, "dup2"}, {SYS_dup3, "dup3"}, {SYS_fork, "fork"}, {SYS_vfork, "vfork"},
    {SYS_clone, "clone"}, {SYS_clone3, "clone3"}, {SYS_execve, "execve"}, {SYS_execveat, "execveat"},
    {SYS_exit, "exit"}, {SYS_exit_group, "exit_group"}, {SYS_wait4, "wait4"}, {SYS_waitid, "waitid"},
    {SYS_chdir, "chdir"}, {SYS_fchdir, "fchdir"}, {SYS_setuid, "setuid"}, {SYS_setgid, "setgid"},
    {SYS_setpgid, "setpgid"}, {SYS_setsid, "setsid"}, {SYS_setreuid, "setreuid"}, {SYS_setregid, "setregid"},
    {SYS_setresuid, "setresuid"}, {SYS_setresgid, "setresgid"}, {SYS_kill, "kill"}, {SYS_fcntl, "fcntl"},
    {SYS_chroot, "chroot"}, {SYS_umask, "umask"}, {SYS_prctl, "prctl"},
};
#define NSYS ((int)(sizeof SYS / sizeof SYS[0]))

static int sysidx(long nr)
{
    for (int i = 0; i < NSYS; i++)
        if (SYS[i].nr == nr)
            return i;
    return -1;
}
static int sysbyname(const char *s)
{
    for (int i = 0; i < NSYS; i++)
        if (!strcmp(SYS[i].name, s))
            return i;
    return -1;
}

struct task {
    pid_t pid;
    int idx;          /* 1.. ; 0 = not yet numbered (stop seen before the parent's fork event) */
    int alive;
    int pending_stop; /* first stop seen, waiting for numbering */
    int expect_stop;  /* numbered at the parent's fork event, automatic SIGSTOP still to come */
    int logged;       /* calls of this task written to the log (capped: a spinning task must not flood it) */
    int hold;         /* schedule control: park this task at its next stop */
    int parked, parksig;
    int in_sys;
    int inwin;
    int execd;
    long nr;
    unsigned long long a[6];
    int cnt[NSYS];
    int k;
    int injected;     /* 1: call suppressed, result forced; 2: call executed, result overwritten */
    long long forced;
    /* execve bookkeeping */
    char *exec_json;
};

static struct task T[MAXTASK];
static int ntask = 0, nextidx = 1;
static FILE *LOG;
static int window = 0;
static volatile sig_atomic_t timed_out = 0;

static struct { int on, task, sys, k; long long val; int fired; int persist; } INJ;
/* schedule control (-s): 0 free; 1 parent-first: the forked child (task 2) is parked at its first stop until
 * the caller (task 1) is entering its first read (then blocks on the sync pipe); 2 child-first: the caller is
 * parked when fork returns until the child has exec'ed, exited or passed the return marker */
static int DETACH_EXEC = 0;   /* -D: let go of a child once it has exec'ed (its stops are then real stops) */
static int SCHED = 0;
static int sched_done = 0;
static int child2_done = 0;

static void resume(struct task *t, int sig)
{
    if (t->hold) {
        t->parked = 1;
        t->parksig = sig;
        return;
    }
    ptrace(PTRACE_SYSCALL, t->pid, 0, sig);
}
static void release(struct task *t)
{
    t->hold = 0;
    if (t->parked) {
        t->parked = 0;
        ptrace(PTRACE_SYSCALL, t->pid, 0, t->parksig);
    }
}
static struct task *bynum(int idx);

static void die(const char *fmt, ...)
{
    va_list ap;
    va_start(ap, fmt);
    fprintf(stderr, "spawntrace: ");
    vfprintf(stderr, fmt, ap);
    fprintf(stderr, "\n");
    va_end(ap);
    for (int i = 0; i < ntask; i++)
        if (T[i].alive)
            kill(T[i].pid, SIGKILL);
    exit(2);
}

static struct task *find(pid_t pid)
{
    for (int i = 0; i < ntask; i++)
        if (T[i].pid == pid && T[i].alive)
            return &T[i];
    return NULL;
}
static struct task *bynum(int idx)
{
    for (int i = 0; i < ntask; i++)
        if (T[i].idx == idx && T[i].alive)
            return &T[i];
    return NULL;
}
static void child_done(void)
{
    /* child-first: the child has exec'ed / exited / escaped -> let the caller go on */
    struct task *p = bynum(1);
    child2_done = 1;
    if (SCHED == 2 && p) {
        if (p->hold)
            fprintf(LOG, "{\"ev\":\"sched\",\"what\":\"child exec'ed / exited / escaped; caller released\"}\n");
        release(p);
    }
}
static struct task *newtask(pid_t pid)
{
    if (ntask >= MAXTASK)
        die("too many tasks");
    struct task *t = &T[ntask++];
    memset(t, 0, sizeof *t);
    t->pid = pid;
    t->alive = 1;
    return t;
}

static size_t rdmem(pid_t pid, unsigned long long addr, void *buf, size_t len)
{
    struct iovec l = {buf, len}, r = {(void *)(uintptr_t)addr, len};
    ssize_t n = process_vm_readv(pid, &l, 1, &r, 1, 0);
    if (n == (ssize_t)len)
        return len;
    /* may straddle an unmapped page: read word by word */
    size_t got = 0;
    while (got < len) {
        errno = 0;
        long w = ptrace(PTRACE_PEEKDATA, pid, (void *)(uintptr_t)(addr + got), 0);
        if (errno)
            break;
        size_t c = len - got < sizeof w ? len - got : sizeof w;
        memcpy((char *)buf + got, &w, c);
        got += c;
    }
    return got;
}

/* read a NUL-terminated string (max cap-1 bytes); returns length or -1 */
static int rdstr(pid_t pid, unsigned long long addr, char *buf, size_t cap)
{
    size_t n = 0;
    while (n < cap - 1) {
        char c;
        if (rdmem(pid, addr + n, &c, 1) != 1)
            return -1;
        if (!c)
            break;
        buf[n++] = c;
    }
    buf[n] = 0;
    return (int)n;
}

struct sbuf { char *p; size_t n, cap; };
static void sb_put(struct sbuf *b, const char *s, size_t n)
{
    if (b->n + n + 1 > b->cap) {
        b->cap = (b->n + n + 1) * 2 + 64;
        b->p = realloc(b->p, b->cap);
    }
    memcpy(b->p + b->n, s, n);
    b->n += n;
    b->p[b->n] = 0;
}
static void sb_puts(struct sbuf *b, const char *s) { sb_put(b, s, strlen(s)); }
static void sb_jstr(struct sbuf *b, const char *s)
{
    char t[8];
    sb_puts(b, "\"");
    for (; *s; s++) {
        unsigned char c = (unsigned char)*s;
        if (c == '"' || c == '\\') {
            t[0] = '\\', t[1] = (char)c, t[2] = 0;
            sb_puts(b, t);
        } else if (c < 0x20 || c >= 0x7f) {
            snprintf(t, sizeof t, "\\u%04x", c);
            sb_puts(b, t);
        } else
            sb_put(b, (const char *)&c, 1);
    }
    sb_puts(b, "\"");
}

/* JSON array of the strings of a NULL-terminated pointer vector in the tracee */
static void sb_vec(struct sbuf *b, pid_t pid, unsigned long long addr, int *isnull, int *bad)
{
    char s[4096];
    *isnull = addr == 0;
    *bad = 0;
    sb_puts(b, "[");
    for (int i = 0; addr && i < 4096; i++) {
        unsigned long long p;
        if (rdmem(pid, addr + 8ull * (unsigned)i, &p, 8) != 8) {
            *bad = 1;
            break;
        }
        if (!p)
            break;
        if (rdstr(pid, p, s, sizeof s) < 0) {
            *bad = 1;
            break;
        }
        if (i)
            sb_puts(b, ",");
        sb_jstr(b, s);
    }
    sb_puts(b, "]");
}

/* descriptor table, cwd and process group of a (stopped) task, as the tracer sees them */
static void dump_fds(struct task *t, const char *at)
{
    char p[64], link[4096], line[256];
    snprintf(p, sizeof p, "/proc/%d/fd", (int)t->pid);
    DIR *d = opendir(p);
    fprintf(LOG, "{\"ev\":\"fds\",\"task\":%d,\"at\":\"%s\",\"pid\":%d,\"pgrp\":%d,\"fds\":[", t->idx, at, (int)t->pid, (int)getpgid(t->pid));
    int first = 1;
    int nums[1024], n = 0;
    struct dirent *de;
    while (d && (de = readdir(d)) && n < 1024)
        if (de->d_name[0] >= '0' && de->d_name[0] <= '9')
            nums[n++] = atoi(de->d_name);
    if (d)
        closedir(d);
    for (int i = 0; i < n; i++)      /* ascending order */
        for (int j = i + 1; j < n; j++)
            if (nums[j] < nums[i]) {
                int x = nums[i];
                nums[i] = nums[j];
                nums[j] = x;
            }
    for (int i = 0; i < n; i++) {
        snprintf(p, sizeof p, "/proc/%d/fd/%d", (int)t->pid, nums[i]);
        ssize_t m = readlink(p, link, sizeof link - 1);
        if (m < 0)
            continue;
        link[m] = 0;
        long flags = 0;
        snprintf(p, sizeof p, "/proc/%d/fdinfo/%d", (int)t->pid, nums[i]);
        FILE *f = fopen(p, "re");
        if (f) {
            while (fgets(line, sizeof line, f))
                if (!strncmp(line, "flags:", 6))
                    flags = strtol(line + 6, NULL, 8);
            fclose(f);
        }
        struct sbuf b = {0};
        sb_jstr(&b, link);
        fprintf(LOG, "%s{\"fd\":%d,\"link\":%s,\"acc\":%ld,\"cloexec\":%d}", first ? "" : ",", nums[i], b.p, flags & O_ACCMODE,
                (flags & O_CLOEXEC) ? 1 : 0);
        free(b.p);
        first = 0;
    }
    snprintf(p, sizeof p, "/proc/%d/cwd", (int)t->pid);
    ssize_t m = readlink(p, link, sizeof link - 1);
    link[m < 0 ? 0 : m] = 0;
    struct sbuf b = {0};
    sb_jstr(&b, link);
    fprintf(LOG, "],\"cwd\":%s}\n", b.p);
    free(b.p);
}

static void on_alarm(int sig)
{
    (void)sig;
    timed_out = 1;
}

static long long i32(unsigned long long v) { return (long long)(int32_t)(uint32_t)v; }

static void sys_enter(struct task *t, struct user_regs_struct *r)
{
    t->nr = (long)r->orig_rax;
    t->a[0] = r->rdi, t->a[1] = r->rsi, t->a[2] = r->rdx, t->a[3] = r->r10, t->a[4] = r->r8, t->a[5] = r->r9;
    t->injected = 0;
    t->k = 0;
    /* markers */
    if (t->nr == SYS_write && (int32_t)t->a[0] == -1) {
        char m[512];
        size_t len = t->a[2] < sizeof m - 1 ? (size_t)t->a[2] : sizeof m - 1;
        if (rdmem(t->pid, t->a[1], m, len) == len && len >= 5 && !memcmp(m, "MARK:", 5)) {
            m[len] = 0;
            struct sbuf b = {0};
            sb_jstr(&b, m + 5);
            fprintf(LOG, "{\"ev\":\"mark\",\"task\":%d,\"text\":%s,\"execd\":%s}\n", t->idx, b.p, t->execd ? "true" : "false");
            free(b.p);
            if (!strcmp(m + 5, "spawn:begin"))
                dump_fds(t, "begin");
            else if (!strncmp(m + 5, "returned:", 9)) {
                dump_fds(t, "returned");
                if (t->idx == 2)
                    child_done();
            }
            if (t->idx == 1 && !strcmp(m + 5, "spawn:begin")) {
                window = 1;
                t->inwin = 1;
                memset(t->cnt, 0, sizeof t->cnt);
            } else if (t->idx == 1 && !strcmp(m + 5, "spawn:end")) {
                window = 0;
                t->inwin = 0;
            }
            t->nr = -2; /* do not log as a system call */
            return;
        }
    }
    int si = sysidx(t->nr);
    if (si < 0 || !t->inwin)
        return;
    t->k = ++t->cnt[si];
    if (SCHED == 1 && t->idx == 1 && t->nr == SYS_read && !sched_done)
        sched_done = 2;   /* main loop: resume the caller, give it time to block, then release the child */
    if (t->nr == SYS_execve) {
        char path[4096];
        struct sbuf b = {0};
        int n1, n2, b1, b2;
        if (rdstr(t->pid, t->a[0], path, sizeof path) < 0)
            strcpy(path, "<unreadable>");
        sb_puts(&b, "\"path\":");
        sb_jstr(&b, path);
        sb_puts(&b, ",\"argv\":");
        sb_vec(&b, t->pid, t->a[1], &n1, &b1);
        sb_puts(&b, ",\"envp\":");
        sb_vec(&b, t->pid, t->a[2], &n2, &b2);
        sb_puts(&b, n1 ? ",\"argv_null\":true" : ",\"argv_null\":false");
        sb_puts(&b, n2 ? ",\"envp_null\":true" : ",\"envp_null\":false");
        sb_puts(&b, (b1 || b2) ? ",\"unreadable\":true" : ",\"unreadable\":false");
        free(t->exec_json);
        t->exec_json = b.p;
    }
    if (INJ.on && INJ.task == t->idx && INJ.sys == si &&
        (INJ.persist ? t->k >= INJ.k : (!INJ.fired && INJ.k == t->k))) {
        INJ.fired = 1;
        t->forced = INJ.val;
        if (t->nr == SYS_close) {
            /* Linux releases the descriptor even when close reports an error: execute, then overwrite */
            t->injected = 2;
        } else {
            t->injected = 1;
            r->orig_rax = (unsigned long long)-1;
            if (ptrace(PTRACE_SETREGS, t->pid, 0, r) < 0)
                die("SETREGS (enter) failed: %s", strerror(errno));
        }
    }
}

static void sys_exit(struct task *t, struct user_regs_struct *r)
{
    if (t->nr == -2)
        return;
    int si = sysidx(t->nr);
    if (si < 0 || !t->k)
        return;
    long long ret = (long long)r->rax;
    if (!t->injected && (ret == -512 || ret == -513 || ret == -514 || ret == -516)) {
        /* ERESTART*: the call was interrupted by a signal stop and will be re-issued by the kernel
         * (the program never sees this value): not a completed call, it keeps its number k */
        t->cnt[si]--;
        fprintf(LOG, "{\"ev\":\"restart\",\"task\":%d,\"nr\":\"%s\",\"k\":%d}\n", t->idx, SYS[si].name, t->k);
        return;
    }
    if (t->injected) {
        r->rax = (unsigned long long)t->forced;
        if (ptrace(PTRACE_SETREGS, t->pid, 0, r) < 0)
            die("SETREGS (exit) failed: %s", strerror(errno));
        ret = t->forced;
    }
    if (++t->logged > (t->idx == 1 ? 20000 : 300)) {
        /* a task that spins (e.g. repeats a failing call for ever): say so once, stop logging its calls */
        if (t->logged == (t->idx == 1 ? 20001 : 301))
            fprintf(LOG, "{\"ev\":\"flood\",\"task\":%d,\"nr\":\"%s\"}\n", t->idx, SYS[si].name);
        if (t->nr == SYS_execve && ret == 0) {
            t->execd = 1;
            t->inwin = 0;
            if (t->idx == 2)
                child_done();
        }
        return;
    }
    if (t->nr == SYS_execve) {
        fprintf(LOG, "{\"ev\":\"exec\",\"task\":%d,\"k\":%d,%s,\"ret\":%lld,\"inj\":%s}\n", t->idx, t->k,
                t->exec_json ? t->exec_json : "\"path\":\"?\"", ret, t->injected ? "true" : "false");
        if (ret == 0) {
            t->execd = 1;
            t->inwin = 0; /* the new program's calls are not the subject */
            if (t->idx == 2)
                child_done();
        }
        return;
    }
    if (SCHED == 2 && t->idx == 1 && (t->nr == SYS_fork || t->nr == SYS_vfork || t->nr == SYS_clone) && ret > 0 && !sched_done) {
        sched_done = 1;
        if (!child2_done)
            t->hold = 1;   /* parked by the resume that follows this stop */
    }
    fprintf(LOG, "{\"ev\":\"sys\",\"task\":%d,\"nr\":\"%s\",\"k\":%d,\"args\":[%lld,%lld,%lld],\"ret\":%lld,\"inj\":%s", t->idx,
            SYS[si].name, t->k, i32(t->a[0]), i32(t->a[1]), i32(t->a[2]), ret, t->injected ? "true" : "false");
    if (t->nr == SYS_wait4 && ret > 0) {
        int ws = 0;
        struct task *c = NULL;
        for (int i = 0; i < ntask; i++)
            if (T[i].pid == (pid_t)ret)
                c = &T[i];
        if (t->a[1] && rdmem(t->pid, t->a[1], &ws, 4) == 4)
            fprintf(LOG, ",\"wstatus\":%d", ws);
        fprintf(LOG, ",\"reaped\":%d", c ? c->idx : 0);
    }
    if (t->nr == SYS_chdir) {
        char path[4096];
        struct sbuf b = {0};
        if (rdstr(t->pid, t->a[0], path, sizeof path) < 0)
            strcpy(path, "<unreadable>");
        sb_jstr(&b, path);
        fprintf(LOG, ",\"path\":%s", b.p);
        free(b.p);
    }
    if ((t->nr == SYS_pipe2 || t->nr == SYS_pipe) && ret == 0) {
        int fds[2];
        if (rdmem(t->pid, t->a[0], fds, 8) == 8)
            fprintf(LOG, ",\"fds\":[%d,%d]", fds[0], fds[1]);
    }
    if ((t->nr == SYS_read || t->nr == SYS_write) && ret > 0 && ret <= 16) {
        unsigned char buf[16];
        if (rdmem(t->pid, t->a[1], buf, (size_t)ret) == (size_t)ret) {
            fprintf(LOG, ",\"data\":[");
            for (int i = 0; i < ret; i++)
                fprintf(LOG, "%s%d", i ? "," : "", buf[i]);
            fprintf(LOG, "]");
        }
    }
    fprintf(LOG, "}\n");
}

int main(int argc, char **argv)
{
    const char *logpath = NULL;
    const char *opens[8];
    int nopen = 0;
    long timeout_ms = 10000;
    int ai = 1;
    for (; ai < argc; ai++) {
        if (!strcmp(argv[ai], "--")) {
            ai++;
            break;
        } else if (!strcmp(argv[ai], "-o") && ai + 1 < argc)
            logpath = argv[++ai];
        else if (!strcmp(argv[ai], "-t") && ai + 1 < argc)
            timeout_ms = atol(argv[++ai]);
        else if (!strcmp(argv[ai], "-D"))
            DETACH_EXEC = 1;
        else if (!strcmp(argv[ai], "-s") && ai + 1 < argc) {
            const char *m = argv[++ai];
            SCHED = !strcmp(m, "parent-first") ? 1 : !strcmp(m, "child-first") ? 2 : 0;
        } else if (!strcmp(argv[ai], "-f") && ai + 1 < argc && nopen < 8)
            opens[nopen++] = argv[++ai];
        else if (!strcmp(argv[ai], "-i") && ai + 1 < argc) {
            char *spec = strdup(argv[++ai]), *tok, *sp = NULL;
            INJ.on = 1;
            INJ.task = 1, INJ.k = 1, INJ.sys = -1;
            for (tok = strtok_r(spec, ",", &sp); tok; tok = strtok_r(NULL, ",", &sp)) {
                if (!strncmp(tok, "task=", 5))
                    INJ.task = atoi(tok + 5);
                else if (!strncmp(tok, "nr=", 3))
                    INJ.sys = sysbyname(tok + 3);
                else if (!strncmp(tok, "k=", 2))
                    INJ.k = atoi(tok + 2);
                else if (!strncmp(tok, "err=", 4))
                    INJ.val = -atoll(tok + 4);
                else if (!strncmp(tok, "ret=", 4))
                    INJ.val = atoll(tok + 4);
                else if (!strcmp(tok, "persist"))
                    INJ.persist = 1;
                else
                    die("bad injection key %s", tok);
            }
            if (INJ.sys < 0)
                die("unknown system call in -i");
        } else
            die("usage: spawntrace -o LOG [-i task=T,nr=NAME,k=K,err=E] [-t ms] -- PROG ARGS");
    }
    if (!logpath || ai >= argc)
        die("usage: spawntrace -o LOG [-i ...] [-t ms] -- PROG ARGS");
    LOG = fopen(logpath, "we");
    if (!LOG)
        die("cannot open %s", logpath);

    /* -f FD:r|w:PATH : descriptors the program finds open (for Stdio::RawFd).  Opened HERE, so that the
     * tracer shares the open file description with whoever ends up using the descriptor: its file
     * offset at the end tells whether the child really worked on THIS description (not on a re-opened
     * file of the same name) */
    int rawfds[8], nraw = 0;
    for (int i = 0; i < nopen; i++) {
        int want = atoi(opens[i]);
        const char *c1 = strchr(opens[i], ':');
        if (!c1 || !c1[1] || c1[2] != ':')
            die("bad -f %s", opens[i]);
        int fd = open(c1 + 3, c1[1] == 'w' ? (O_WRONLY | O_CREAT | O_TRUNC) : c1[1] == 'a' ? (O_WRONLY | O_APPEND) : O_RDONLY, 0644);
        if (fd < 0)
            die("cannot open %s", c1 + 3);
        if (fd != want) {
            if (dup2(fd, want) < 0)
                die("dup2 to %d failed", want);
            close(fd);
        }
        rawfds[nraw++] = want;
    }
    pid_t root = fork();
    if (root < 0)
        die("fork: %s", strerror(errno));
    if (root == 0) {
        if (ptrace(PTRACE_TRACEME, 0, 0, 0) < 0)
            _exit(126);
        raise(SIGSTOP);
        execv(argv[ai], argv + ai);
        _exit(127);
    }
    int st;
    if (waitpid(root, &st, 0) != root || !WIFSTOPPED(st))
        die("root did not stop");
    long opts = PTRACE_O_TRACESYSGOOD | PTRACE_O_TRACEFORK | PTRACE_O_TRACEVFORK | PTRACE_O_TRACECLONE |
                PTRACE_O_TRACEEXEC | PTRACE_O_EXITKILL;
    if (ptrace(PTRACE_SETOPTIONS, root, 0, opts) < 0)
        die("SETOPTIONS: %s", strerror(errno));
    struct task *rt = newtask(root);
    rt->idx = nextidx++;
    struct sigaction sa;
    memset(&sa, 0, sizeof sa);
    sa.sa_handler = on_alarm;
    sigaction(SIGALRM, &sa, NULL);
    /* the watchdog keeps ringing every 50 ms after it went off, so that a SIGALRM that arrives while the
     * tracer is not inside waitpid() cannot be lost */
    struct itimerval itv = {{0, 50000}, {timeout_ms / 1000, (timeout_ms % 1000) * 1000}};
    setitimer(ITIMER_REAL, &itv, NULL);
    ptrace(PTRACE_SYSCALL, root, 0, 0);

    int root_status = -1, root_gone = 0;
    char alive_at_root_exit[256] = "";
    int nalive = 1;
    while (nalive > 0) {
        if (timed_out)
            break;
        pid_t pid = waitpid(-1, &st, __WALL);
        if (pid < 0) {
            if (errno == EINTR && timed_out)
                break;
            if (errno == EINTR)
                continue;
            if (errno == ECHILD)
                break;
            die("waitpid: %s", strerror(errno));
        }
        struct task *t = find(pid);
        if (WIFEXITED(st) || WIFSIGNALED(st)) {
            if (!t)
                continue;
            t->alive = 0;
            nalive--;
            fprintf(LOG, "{\"ev\":\"exit\",\"task\":%d,\"status\":%d,\"execd\":%s}\n", t->idx, st, t->execd ? "true" : "false");
            if (t->idx == 2)
                child_done();
            if (t->idx == 1)
                for (int i = 0; i < ntask; i++)
                    if (T[i].alive)
                        release(&T[i]);
            if (t->idx == 1) {
                root_status = st;
                root_gone = 1;
                size_t o = 0;
                for (int i = 0; i < ntask; i++)
                    if (T[i].alive && T[i].idx > 0)
                        o += (size_t)snprintf(alive_at_root_exit + o, sizeof alive_at_root_exit - o, "%s{\"task\":%d,\"execd\":%s}",
                                              o ? "," : "", T[i].idx, T[i].execd ? "true" : "false");
            }
            continue;
        }
        if (!WIFSTOPPED(st))
            continue;
        if (!t) {
            /* a new child whose first stop arrives before its parent's fork event */
            t = newtask(pid);
            nalive++;
            t->pending_stop = 1;
            continue;
        }
        int sig = WSTOPSIG(st);
        unsigned ev = (unsigned)st >> 16;
        if (ev == PTRACE_EVENT_FORK || ev == PTRACE_EVENT_VFORK || ev == PTRACE_EVENT_CLONE) {
            unsigned long msg = 0;
            ptrace(PTRACE_GETEVENTMSG, pid, 0, &msg);
            struct task *c = find((pid_t)msg);
            int was_pending = 0;
            if (!c) {
                c = newtask((pid_t)msg);
                nalive++;
                c->expect_stop = 1;
            } else
                was_pending = c->pending_stop;
            c->idx = nextidx++;
            c->inwin = t->inwin;
            if (SCHED == 1 && c->idx == 2 && t->idx == 1 && t->inwin && !sched_done)
                c->hold = 1;
            fprintf(LOG, "{\"ev\":\"fork\",\"parent\":%d,\"child\":%d,\"pid\":%d}\n", t->idx, c->idx, (int)c->pid);
            if (was_pending) {
                c->pending_stop = 0;
                resume(c, 0);
            }
            resume(t, 0);
            continue;
        }
        if (ev == PTRACE_EVENT_EXEC) {
            resume(t, 0);
            continue;
        }
        if (sig == (SIGTRAP | 0x80)) {
            struct user_regs_struct r;
            struct ptrace_syscall_info si;
            if (ptrace(PTRACE_GETREGS, pid, 0, &r) < 0) {
                resume(t, 0);
                continue;
            }
            long n = ptrace(PTRACE_GET_SYSCALL_INFO, pid, sizeof si, &si);
            int entry;
            if (n > 0 && (si.op == PTRACE_SYSCALL_INFO_ENTRY || si.op == PTRACE_SYSCALL_INFO_EXIT))
                entry = si.op == PTRACE_SYSCALL_INFO_ENTRY;
            else
                entry = !t->in_sys;
            if (entry) {
                t->in_sys = 1;
                sys_enter(t, &r);
            } else {
                t->in_sys = 0;
                sys_exit(t, &r);
            }
            fflush(LOG);
            if (DETACH_EXEC && !entry && t->execd && t->idx != 1) {
                /* a ptraced task never really stops (its stop is reported to the tracer, not to its
                 * parent): the exec'ed program is let go so that SIGSTOP / SIGCONT work as in real life */
                fprintf(LOG, "{\"ev\":\"detached\",\"task\":%d}\n", t->idx);
                ptrace(PTRACE_DETACH, pid, 0, 0);
                t->alive = 0;
                nalive--;
                continue;
            }
            resume(t, 0);
            if (sched_done == 2) {
                /* parent-first: the caller is entering its read on the sync pipe */
                struct task *c = bynum(2);
                sched_done = 1;
                usleep(1500);
                fprintf(LOG, "{\"ev\":\"sched\",\"what\":\"caller entered read on the sync pipe; child released\"}\n");
                if (c)
                    release(c);
            }
            continue;
        }
        if (sig == SIGSTOP && t->expect_stop) {
            /* the automatic SIGSTOP of a freshly attached child (numbered before it stopped) */
            t->expect_stop = 0;
            resume(t, 0);
            continue;
        }
        if (sig == SIGTRAP && ev == 0) {
            resume(t, 0);
            continue;
        }
        /* signal delivery stop: pass the signal on */
        fprintf(LOG, "{\"ev\":\"signal\",\"task\":%d,\"sig\":%d}\n", t->idx, sig);
        resume(t, sig);
    }
    int to = 0;
    if (timed_out && nalive > 0) {
        to = 1;
        fprintf(LOG, "{\"ev\":\"timeout\",\"alive\":[");
        int first = 1;
        for (int i = 0; i < ntask; i++)
            if (T[i].alive && T[i].idx > 0) {
                int si = sysidx(T[i].nr);
                fprintf(LOG, "%s{\"task\":%d,\"in\":\"%s\",\"execd\":%s}", first ? "" : ",", T[i].idx,
                        T[i].in_sys ? (si >= 0 ? SYS[si].name : "other") : "user", T[i].execd ? "true" : "false");
                first = 0;
            }
        fprintf(LOG, "]}\n");
        for (int i = 0; i < ntask; i++)
            if (T[i].alive)
                kill(T[i].pid, SIGKILL);
        {
            struct itimerval off = {{0, 0}, {0, 0}};
            setitimer(ITIMER_REAL, &off, NULL);
        }
        while (waitpid(-1, &st, __WALL) > 0 || errno == EINTR)
            ;
    }
    for (int i = 0; i < nraw; i++)
        fprintf(LOG, "{\"ev\":\"rawpos\",\"fd\":%d,\"pos\":%lld}\n", rawfds[i], (long long)lseek(rawfds[i], 0, SEEK_CUR));
    fprintf(LOG, "{\"ev\":\"end\",\"root_status\":%d,\"root_exited\":%s,\"timeout\":%s,\"inj_fired\":%s,\"alive_at_root_exit\":[%s]}\n",
            root_status, root_gone ? "true" : "false", to ? "true" : "false", INJ.fired ? "true" : "false", alive_at_root_exit);
    fclose(LOG);
    return to ? 4 : 0;
}
