//! C18 driver: the io_uring wrapper of rusl against the REAL kernel.
//!
//! Two identical "worlds" (directory + handle table) live under a private root: every operation
//! of a batch is submitted through the wrapper (`setup_io_uring`, the `IoUringSubmissionQueueEntry`
//! constructors, `get_next_sqe_slot`, `flush_submission_queue`, `io_uring_enter`, `get_next_cqe`)
//! on world A and executed as the equivalent direct system call (libc, not rusl) on world B.
//! One ndjson record per batch: submissions, completions in reap order, direct results, payload and
//! side-effect comparison.  Judged by TLC (specs/UringOpsTrace.tla).
//!
//! usage: uring_ops run <batches.ndjson> <root> <entries> <flags>
//!        uring_ops probe                         which set-up flag combinations the kernel accepts
//!        uring_ops teardown <entries> <flags> <with_op>   set up, (one op), drop - run under strace
use std::ffi::CString;
use std::io::BufRead;

use rusl::io_uring::{io_uring_enter, setup_io_uring};
use rusl::platform::{
    AddressFamily, Fd, IoUring, IoUringEnterFlags, IoUringParamFlags, IoUringSQEFlags,
    IoUringSubmissionQueueEntry, Mode, OpenFlags, PollAddMultiFlags, PollEvents, RenameFlags,
    SocketFlags, SocketOptions, SocketType, Statx, StatxFlags, StatxMask, TimeSpec,
};
use rusl::string::unix_str::UnixStr;
use vharness::{guarded, json, quiet_panics, Out, Value};

/// names; resolved against one of three directories: 0 = the world's root, 1 = its subdirectory d, 2 = the process'
/// working directory (shared by both worlds, read-only use)
const NAMES: [&str; 8] = ["f0", "f1", "nx", "d", "d/x", "x", "cw", "ln"];
/// everything of a world that an operation can change, as paths from the world's root
const DIGEST: [&str; 9] = ["f0", "f1", "nx", "d", "d/x", "d/f0", "d/nx", "ln", "nx/x"];
const NHANDLES: usize = 3;
const BADFD: i32 = 999_999;
const ECANCELED: i64 = -125;

/// every wall-clock limit of this driver is multiplied by VERIF_WAIT_SCALE (re-runs of a scenario whose limit tripped)
fn wait_scale() -> u64 {
    std::env::var("VERIF_WAIT_SCALE").ok().and_then(|x| x.parse::<f64>().ok()).map_or(1, |f| f.max(1.0).ceil() as u64)
}
fn mono_ns() -> u64 {
    let mut t = libc::timespec { tv_sec: 0, tv_nsec: 0 };
    unsafe { libc::clock_gettime(libc::CLOCK_MONOTONIC, &mut t) };
    t.tv_sec as u64 * 1_000_000_000 + t.tv_nsec as u64
}
/// how long a timeout variant must at least take (ms)
fn timeout_floor_ms(abs: u64) -> u64 {
    match abs {
        2 | 3 => 40,
        1 => 0,
        _ => 1,
    }
}
fn errno() -> i64 {
    i64::from(unsafe { *libc::__errno_location() })
}
fn ret(r: i64) -> i64 {
    if r < 0 {
        -errno()
    } else {
        r
    }
}
fn cstr(s: &str) -> CString {
    CString::new(s).unwrap()
}

struct World {
    path: String,
    dir: i32,
    dird: i32,
    h: [i32; NHANDLES],
}

impl World {
    fn open(root: &str, name: &str) -> World {
        let path = format!("{root}/{name}");
        std::fs::create_dir_all(&path).unwrap();
        let dir = unsafe { libc::open(cstr(&path).as_ptr(), libc::O_RDONLY | libc::O_DIRECTORY | libc::O_CLOEXEC) };
        assert!(dir >= 0);
        World { path, dir, dird: -1, h: [-1; NHANDLES] }
    }
    /// directory descriptor selected by an operation's "dir" field (None = AT_FDCWD)
    fn dirfd(&self, sel: u64) -> Option<i32> {
        match sel {
            0 => Some(self.dir),
            1 => Some(self.dird),
            _ => None,
        }
    }
    /// the initial content: f0 = "hello world, 0123456789", f1 empty, d/ empty dir; h0 open on f0
    fn reset(&mut self) {
        for h in &mut self.h {
            if *h >= 0 {
                unsafe { libc::close(*h) };
            }
            *h = -1;
        }
        let _ = std::fs::remove_dir_all(&self.path);
        std::fs::create_dir_all(format!("{}/d", self.path)).unwrap();
        std::fs::write(format!("{}/f0", self.path), b"hello world, 0123456789").unwrap();
        std::fs::write(format!("{}/f1", self.path), b"").unwrap();
        std::os::unix::fs::symlink("f0", format!("{}/ln", self.path)).unwrap();
        unsafe {
            libc::close(self.dir);
            if self.dird >= 0 {
                libc::close(self.dird);
            }
        }
        self.dir = unsafe { libc::open(cstr(&self.path).as_ptr(), libc::O_RDONLY | libc::O_DIRECTORY | libc::O_CLOEXEC) };
        assert!(self.dir >= 0);
        self.dird = unsafe { libc::openat(self.dir, cstr("d").as_ptr(), libc::O_RDONLY | libc::O_DIRECTORY | libc::O_CLOEXEC) };
        assert!(self.dird >= 0);
        self.h[0] = unsafe { libc::openat(self.dir, cstr("f0").as_ptr(), libc::O_RDWR | libc::O_CLOEXEC) };
        assert!(self.h[0] >= 0);
    }
    /// descriptor behind handle `h` (a number that is certainly closed if the handle is empty)
    fn fd(&self, h: usize) -> i32 {
        if self.h[h] >= 0 {
            self.h[h]
        } else {
            BADFD
        }
    }
    /// apply the effects of a batch on the handle table, in operation order: results[k] of ops[k];
    /// `start` = the table at the start of the batch (what the operations referred to)
    fn apply(&mut self, ops: &[Value], results: &[i64], start: [i32; NHANDLES]) {
        // descriptors the batch itself closed (their numbers may have been handed out again since)
        let closed: Vec<i32> = ops
            .iter()
            .zip(results.iter())
            .filter(|(op, res)| op["op"] == "close" && **res == 0)
            .map(|(op, _)| start[op["h"].as_u64().unwrap_or(0) as usize])
            .collect();
        for (op, res) in ops.iter().zip(results.iter()) {
            let kind = op["op"].as_str().unwrap();
            let h = op["h"].as_u64().unwrap_or(0) as usize;
            if (kind == "openat" || kind == "socket") && *res >= 0 {
                let old = self.h[h];
                if old >= 0 && !closed.contains(&old) {
                    unsafe { libc::close(old) };
                }
                self.h[h] = *res as i32;
            }
            if kind == "close" && *res == 0 {
                if self.h[h] == start[h] {
                    self.h[h] = -1;
                }
            }
        }
    }
    /// what the world looks like: every name (type, size, content) and which handles are open
    fn digest(&self) -> Value {
        let mut names = Vec::new();
        use std::os::unix::fs::PermissionsExt;
        for n in DIGEST {
            let p = format!("{}/{}", self.path, n);
            match std::fs::symlink_metadata(&p) {
                Err(_) => names.push(json!([n, "absent"])),
                Ok(m) if m.file_type().is_symlink() => names.push(json!([n, "symlink", std::fs::read_link(&p).map(|t| t.to_string_lossy().to_string()).unwrap_or_default()])),
                Ok(m) if m.is_dir() => {
                    let mut kids: Vec<String> = std::fs::read_dir(&p).map(|d| d.filter_map(|e| e.ok().map(|e| e.file_name().to_string_lossy().to_string())).collect()).unwrap_or_default();
                    kids.sort();
                    names.push(json!([n, "dir", m.permissions().mode() & 0o7777, kids]));
                }
                Ok(m) => {
                    let c = std::fs::read(&p).unwrap_or_default();
                    names.push(json!([n, "file", m.permissions().mode() & 0o7777, m.len(), String::from_utf8_lossy(&c[..c.len().min(80)])]));
                }
            }
        }
        let mut extra: Vec<String> = std::fs::read_dir(&self.path)
            .map(|d| d.filter_map(|e| e.ok().map(|e| e.file_name().to_string_lossy().to_string())).filter(|n| !DIGEST.contains(&n.as_str())).collect())
            .unwrap_or_default();
        extra.sort();
        let hs: Vec<bool> = self.h.iter().map(|h| *h >= 0 && unsafe { libc::fcntl(*h, libc::F_GETFD) } >= 0).collect();
        json!({"names": names, "extra": extra, "handles": hs})
    }
}

fn open_flags(k: u64) -> (OpenFlags, i32) {
    match k {
        0 => (OpenFlags::O_RDONLY, libc::O_RDONLY),
        1 => (OpenFlags::O_WRONLY | OpenFlags::O_CREAT, libc::O_WRONLY | libc::O_CREAT),
        2 => (OpenFlags::O_RDWR | OpenFlags::O_CREAT | OpenFlags::O_EXCL, libc::O_RDWR | libc::O_CREAT | libc::O_EXCL),
        3 => (OpenFlags::O_RDWR | OpenFlags::O_TRUNC, libc::O_RDWR | libc::O_TRUNC),
        // the other flag class for which the kernel consults `mode`: an unnamed file in the directory `path`
        4 => (OpenFlags::O_TMPFILE | OpenFlags::O_RDWR, libc::O_TMPFILE | libc::O_RDWR),
        5 => (OpenFlags::O_DIRECTORY | OpenFlags::O_RDONLY, libc::O_DIRECTORY | libc::O_RDONLY),
        // flags that only show in the properties of the new descriptor
        7 => (OpenFlags::O_RDONLY | OpenFlags::O_CLOEXEC | OpenFlags::O_NONBLOCK, libc::O_RDONLY | libc::O_CLOEXEC | libc::O_NONBLOCK),
        8 => (OpenFlags::O_WRONLY | OpenFlags::O_APPEND, libc::O_WRONLY | libc::O_APPEND),
        _ => (OpenFlags::O_NOFOLLOW | OpenFlags::O_RDONLY, libc::O_NOFOLLOW | libc::O_RDONLY),
    }
}
const WDATA: [&[u8]; 2] = [b"ab", b"The quick brown fox jumps over the lazy dog."];
const RLEN: [usize; 2] = [4, 64];

/// memory an operation's SQE points to; must stay alive until its completion was reaped
#[derive(Default)]
struct Keep {
    paths: Vec<rusl::string::unix_str::UnixString>,
    bufs: Vec<Vec<u8>>,
    iov: Vec<Box<[libc::iovec; 2]>>,
    stx: Vec<Box<libc::statx>>,
    ts: Vec<Box<TimeSpec>>,
    /// user_data -> earliest admissible completion time (CLOCK_MONOTONIC ns) of a timeout entry
    deadline: std::collections::HashMap<u64, u64>,
}

fn upath(keep: &mut Keep, s: &str) -> &'static UnixStr {
    let u = rusl::string::unix_str::UnixString::try_from_str(s).unwrap();
    keep.paths.push(u);
    let r: &UnixStr = keep.paths.last().unwrap();
    unsafe { &*(r as *const UnixStr) }
}
fn iov2(keep: &mut Keep, total: usize, fill: Option<&[u8]>) -> (usize, usize) {
    // two buffers: the first takes 3 bytes (or less), the second the rest
    let a = total.min(3);
    let mut b0 = vec![0u8; a.max(1)];
    let mut b1 = vec![0u8; (total - a).max(1)];
    if let Some(d) = fill {
        b0[..a].copy_from_slice(&d[..a]);
        b1[..total - a].copy_from_slice(&d[a..]);
    }
    let v = Box::new([
        libc::iovec { iov_base: b0.as_mut_ptr().cast(), iov_len: a },
        libc::iovec { iov_base: b1.as_mut_ptr().cast(), iov_len: total - a },
    ]);
    keep.bufs.push(b0);
    keep.bufs.push(b1);
    let p = v.as_ptr() as usize;
    keep.iov.push(v);
    (p, keep.bufs.len() - 2)
}

/// the two registered buffers of the ring (64 bytes each)
static mut REGBUF: [usize; 2] = [0, 0];
fn regbuf(i: usize) -> *mut u8 {
    unsafe { REGBUF[i] as *mut u8 }
}

struct Built {
    sqe: IoUringSubmissionQueueEntry,
    buf_ix: Option<usize>,
    stx_ix: Option<usize>,
}

/// SQE of `op` on world `w` through the wrapper's constructors
fn build(op: &Value, w: &World, u: u64, link: bool, keep: &mut Keep) -> Built {
    // link: the next entry belongs to this chain; hard: with IOSQE_IO_HARDLINK (the chain survives a failure of this entry)
    let fl = if link && op["hard"].as_bool().unwrap_or(false) {
        IoUringSQEFlags::IOSQE_IO_HARDLINK
    } else if link {
        IoUringSQEFlags::IOSQE_IO_LINK
    } else {
        IoUringSQEFlags::empty()
    };
    let g = |k: &str| op[k].as_u64().unwrap_or(0);
    let dirsel = |k: &str| w.dirfd(g(k)).map(|d| Fd::try_new(d).unwrap());
    let dir = dirsel("dir");
    let mode = |k: &str, dflt: u32| Mode::from(if g(k) == 1 { dflt & 0o700 } else { dflt });
    let kind = op["op"].as_str().unwrap();
    let mut buf_ix = None;
    let mut stx_ix = None;
    let sqe = unsafe {
        match kind {
            "openat" => {
                let (of, _) = open_flags(g("fl"));
                IoUringSubmissionQueueEntry::new_openat(dir, upath(keep, NAMES[g("name") as usize]), of, mode("mode", 0o644), u, fl)
            }
            "close" => IoUringSubmissionQueueEntry::new_close(Fd::try_new(w.fd(g("h") as usize)).unwrap(), u, fl),
            "readv" => {
                let (p, ix) = iov2(keep, RLEN[g("len") as usize], None);
                buf_ix = Some(ix);
                IoUringSubmissionQueueEntry::new_readv(Fd::try_new(w.fd(g("h") as usize)).unwrap(), p, 2, u, fl)
            }
            "writev" => {
                let d = WDATA[g("data") as usize];
                let (p, _) = iov2(keep, d.len(), Some(d));
                IoUringSubmissionQueueEntry::new_writev(Fd::try_new(w.fd(g("h") as usize)).unwrap(), p, 2, u, fl)
            }
            "readfix" => {
                let b = g("buf") as usize;
                std::ptr::write_bytes(regbuf(b), 0, 128);
                // boff: the transfer starts 8 bytes into the registered buffer (address != buffer base)
                IoUringSubmissionQueueEntry::new_readv_fixed(Fd::try_new(w.fd(g("h") as usize)).unwrap(), b as u16, regbuf(b).add(8 * g("boff") as usize) as u64,
                    RLEN[g("len") as usize] as u32, u, fl)
            }
            "writefix" => {
                let b = g("buf") as usize;
                let d = WDATA[g("data") as usize];
                std::ptr::write_bytes(regbuf(b), b'#', 128);
                std::ptr::copy_nonoverlapping(d.as_ptr(), regbuf(b).add(8 * g("boff") as usize), d.len());
                IoUringSubmissionQueueEntry::new_writev_fixed(Fd::try_new(w.fd(g("h") as usize)).unwrap(), b as u16, regbuf(b).add(8 * g("boff") as usize) as u64,
                    d.len() as u32, u, fl)
            }
            "statx" => {
                let b: Box<libc::statx> = Box::new(std::mem::zeroed());
                keep.stx.push(b);
                stx_ix = Some(keep.stx.len() - 1);
                let p = (&mut **keep.stx.last_mut().unwrap()) as *mut libc::statx;
                if g("empty") == 1 {
                    // the file behind a handle: empty path + AT_EMPTY_PATH
                    IoUringSubmissionQueueEntry::new_statx(Some(Fd::try_new(w.fd(g("h") as usize)).unwrap()), upath(keep, ""), StatxFlags::AT_EMPTY_PATH,
                        StatxMask::STATX_BASIC_STATS, p.cast::<Statx>(), u, fl)
                } else {
                    IoUringSubmissionQueueEntry::new_statx(dir, upath(keep, NAMES[g("name") as usize]), StatxFlags::empty(),
                        StatxMask::STATX_BASIC_STATS, p.cast::<Statx>(), u, fl)
                }
            }
            "mkdirat" => IoUringSubmissionQueueEntry::new_mkdirat(dir, upath(keep, NAMES[g("name") as usize]), mode("mode", 0o755), u, fl),
            "unlinkat" => IoUringSubmissionQueueEntry::new_unlink_at(dir, upath(keep, NAMES[g("name") as usize]), g("rmdir") != 0, u, fl),
            "renameat" => {
                let a = upath(keep, NAMES[g("name") as usize]);
                let b = upath(keep, NAMES[g("name2") as usize]);
                let rf = match g("rf") {
                    1 => RenameFlags::RENAME_NOREPLACE,
                    2 => RenameFlags::RENAME_EXCHANGE,
                    _ => RenameFlags::empty(),
                };
                IoUringSubmissionQueueEntry::new_rename_at(dir, dirsel("dir2"), a, b, rf, u, fl)
            }
            "socket" => {
                let (dom, ty) = if g("kind") == 0 { (AddressFamily::AF_UNIX, SocketType::SOCK_STREAM) } else { (AddressFamily::AF_INET, SocketType::SOCK_DGRAM) };
                IoUringSubmissionQueueEntry::new_socket(dom, SocketOptions::new(ty, sock_flags(g("sfl")).0), g("proto") as u32, u, fl)
            }
            "timeout" => {
                // abs 0: relative 1 ms; 1: absolute, 10 s after boot (long past on CLOCK_MONOTONIC); 2: absolute, 40 ms from
                // now on CLOCK_MONOTONIC; 3: relative 40 ms.  cnt: completion count (fires early once that many other
                // completions were posted)
                let cnt = if g("cnt") > 0 { Some(g("cnt")) } else { None };
                let (ts, relative) = match g("abs") {
                    1 => (TimeSpec::new(10, 0), false),
                    2 => {
                        let d = mono_ns() + 40_000_000;
                        (TimeSpec::new((d / 1_000_000_000) as i64, (d % 1_000_000_000) as i64), false)
                    }
                    3 => (TimeSpec::new(0, 40_000_000), true),
                    // long timers for the completion-count batches (the count must win the race even on a loaded machine)
                    4 => (TimeSpec::new(20, 0), true),
                    5 => {
                        let d = mono_ns() + 20_000_000_000;
                        (TimeSpec::new((d / 1_000_000_000) as i64, (d % 1_000_000_000) as i64), false)
                    }
                    _ => (TimeSpec::new(0, 1_000_000), true),
                };
                keep.deadline.insert(u, match g("abs") {
                    1 => 0,
                    2 | 5 => ts.seconds() as u64 * 1_000_000_000 + ts.nanoseconds() as u64,
                    4 => mono_ns() + 20_000_000_000,
                    a => mono_ns() + timeout_floor_ms(a) * 1_000_000,
                });
                keep.ts.push(Box::new(ts));
                IoUringSubmissionQueueEntry::new_timeout(keep.ts.last().unwrap(), relative, cnt, u, fl)
            }
            "poll" => {
                let ev = if g("ev") == 0 { PollEvents::POLLIN } else { PollEvents::POLLOUT };
                IoUringSubmissionQueueEntry::new_poll_add(Fd::try_new(w.fd(g("h") as usize)).unwrap(), ev, PollAddMultiFlags::empty(), u, fl)
            }
            _ => panic!("unknown op {kind}"),
        }
    };
    Built { sqe, buf_ix, stx_ix }
}

/// attributes of the object a descriptor was opened on (type and permission bits, size, link count)
fn fd_facts(fd: i32) -> Value {
    let mut st: libc::stat = unsafe { std::mem::zeroed() };
    if unsafe { libc::fstat(fd, &mut st) } != 0 {
        return json!({"fstat": -errno()});
    }
    json!({"mode": st.st_mode, "size": st.st_size, "nlink": st.st_nlink,
        "accmode": unsafe { libc::fcntl(fd, libc::F_GETFL) } & (libc::O_ACCMODE | libc::O_APPEND | libc::O_NONBLOCK | libc::O_DIRECTORY | libc::O_NOFOLLOW),
        "cloexec": unsafe { libc::fcntl(fd, libc::F_GETFD) } & libc::FD_CLOEXEC != 0})
}

/// the four flag combinations socket() / accept4() take: (wrapper's, libc's)
fn sock_flags(k: u64) -> (SocketFlags, i32) {
    match k % 4 {
        0 => (SocketFlags::SOCK_CLOEXEC, libc::SOCK_CLOEXEC),
        1 => (SocketFlags::SOCK_NONBLOCK, libc::SOCK_NONBLOCK),
        2 => (SocketFlags::SOCK_CLOEXEC | SocketFlags::SOCK_NONBLOCK, libc::SOCK_CLOEXEC | libc::SOCK_NONBLOCK),
        _ => (SocketFlags::empty(), 0),
    }
}

/// what kind of socket a descriptor is (and whether it is close-on-exec / non-blocking)
fn sock_facts(fd: i32) -> Value {
    let opt = |name: i32| -> i32 {
        let mut v: i32 = -1;
        let mut l: u32 = 4;
        unsafe { libc::getsockopt(fd, libc::SOL_SOCKET, name, std::ptr::addr_of_mut!(v).cast(), &mut l) };
        v
    };
    json!({"domain": opt(libc::SO_DOMAIN), "type": opt(libc::SO_TYPE), "protocol": opt(libc::SO_PROTOCOL),
        "cloexec": unsafe { libc::fcntl(fd, libc::F_GETFD) } & libc::FD_CLOEXEC != 0,
        "nonblock": unsafe { libc::fcntl(fd, libc::F_GETFL) } & libc::O_NONBLOCK != 0})
}

fn stx_json(s: &libc::statx) -> Value {
    json!({"mode": s.stx_mode, "size": s.stx_size, "nlink": s.stx_nlink, "mask": s.stx_mask & libc::STATX_BASIC_STATS})
}

/// the equivalent direct system call on world `w`; -> (result, payload)
fn direct(op: &Value, w: &World) -> (i64, Value) {
    let g = |k: &str| op[k].as_u64().unwrap_or(0);
    let kind = op["op"].as_str().unwrap();
    let dirsel = |k: &str| w.dirfd(g(k)).unwrap_or(libc::AT_FDCWD);
    let dfd = dirsel("dir");
    let mode = |k: &str, dflt: u32| if g(k) == 1 { dflt & 0o700 } else { dflt };
    unsafe {
        match kind {
            "openat" => {
                let (_, of) = open_flags(g("fl"));
                let r = ret(i64::from(libc::openat(dfd, cstr(NAMES[g("name") as usize]).as_ptr(), of, mode("mode", 0o644))));
                (r, if r >= 0 { fd_facts(r as i32) } else { Value::Null })
            }
            "close" => (ret(i64::from(libc::close(w.fd(g("h") as usize)))), Value::Null),
            "readv" => {
                let mut keep = Keep::default();
                let (p, ix) = iov2(&mut keep, RLEN[g("len") as usize], None);
                // the wrapper's readv entry carries file offset 0
                let r = ret(libc::preadv(w.fd(g("h") as usize), p as *const libc::iovec, 2, 0) as i64);
                let mut data = keep.bufs[ix].clone();
                data.extend_from_slice(&keep.bufs[ix + 1]);
                (r, if r >= 0 { json!(String::from_utf8_lossy(&data[..(r as usize).min(data.len())])) } else { Value::Null })
            }
            "writev" => {
                let mut keep = Keep::default();
                let d = WDATA[g("data") as usize];
                let (p, _) = iov2(&mut keep, d.len(), Some(d));
                (ret(libc::pwritev(w.fd(g("h") as usize), p as *const libc::iovec, 2, 0) as i64), Value::Null)
            }
            "readfix" => {
                let mut tmp = [0u8; 64];
                let r = ret(libc::pread(w.fd(g("h") as usize), tmp.as_mut_ptr().cast(), RLEN[g("len") as usize], 0) as i64);
                (r, if r >= 0 { json!(String::from_utf8_lossy(&tmp[..(r as usize).min(64)])) } else { Value::Null })
            }
            "writefix" => {
                let d = WDATA[g("data") as usize];
                (ret(libc::pwrite(w.fd(g("h") as usize), d.as_ptr().cast(), d.len(), 0) as i64), Value::Null)
            }
            "statx" => {
                let mut s: libc::statx = std::mem::zeroed();
                let r = if g("empty") == 1 {
                    ret(i64::from(libc::statx(w.fd(g("h") as usize), cstr("").as_ptr(), libc::AT_EMPTY_PATH, libc::STATX_BASIC_STATS, &mut s)))
                } else {
                    ret(i64::from(libc::statx(dfd, cstr(NAMES[g("name") as usize]).as_ptr(), 0, libc::STATX_BASIC_STATS, &mut s)))
                };
                (r, if r == 0 { stx_json(&s) } else { Value::Null })
            }
            "mkdirat" => (ret(i64::from(libc::mkdirat(dfd, cstr(NAMES[g("name") as usize]).as_ptr(), mode("mode", 0o755)))), Value::Null),
            "unlinkat" => (ret(i64::from(libc::unlinkat(dfd, cstr(NAMES[g("name") as usize]).as_ptr(), if g("rmdir") != 0 { libc::AT_REMOVEDIR } else { 0 }))), Value::Null),
            "renameat" => (ret(i64::from(libc::renameat2(dfd, cstr(NAMES[g("name") as usize]).as_ptr(), dirsel("dir2"), cstr(NAMES[g("name2") as usize]).as_ptr(), g("rf") as u32))), Value::Null),
            "socket" => {
                let (dom, ty) = if g("kind") == 0 { (libc::AF_UNIX, libc::SOCK_STREAM) } else { (libc::AF_INET, libc::SOCK_DGRAM) };
                let r = ret(i64::from(libc::socket(dom, ty | sock_flags(g("sfl")).1, g("proto") as i32)));
                (r, if r >= 0 { sock_facts(r as i32) } else { Value::Null })
            }
            "timeout" => {
                let t0 = std::time::Instant::now();
                if g("cnt") > 0 && op["follower"].as_bool().unwrap_or(false) {
                    // another completion of the batch is posted behind it: the count is reached, the timer never fires
                    return (0, json!({"fast": true, "not_early": Value::Null, "count_reached": true}));
                }
                let (r, deadline) = match g("abs") {
                    1 | 2 => {
                        let d = if g("abs") == 1 { 10_000_000_000 } else { mono_ns() + 40_000_000 };
                        let ts = libc::timespec { tv_sec: (d / 1_000_000_000) as i64, tv_nsec: (d % 1_000_000_000) as i64 };
                        let e = libc::clock_nanosleep(libc::CLOCK_MONOTONIC, libc::TIMER_ABSTIME, &ts, std::ptr::null_mut());
                        (if e == 0 { 0 } else { -i64::from(e) }, if g("abs") == 1 { 0 } else { d })
                    }
                    a => {
                        let d = mono_ns() + timeout_floor_ms(a) * 1_000_000;
                        let ts = libc::timespec { tv_sec: 0, tv_nsec: (timeout_floor_ms(a) * 1_000_000) as i64 };
                        (ret(i64::from(libc::nanosleep(&ts, std::ptr::null_mut()))), d)
                    }
                };
                let _ = t0;
                (r, json!({"fast": true, "not_early": mono_ns() >= deadline}))
            }
            "poll" => {
                let mut p = libc::pollfd { fd: w.fd(g("h") as usize), events: if g("ev") == 0 { libc::POLLIN } else { libc::POLLOUT }, revents: 0 };
                let r = ret(i64::from(libc::poll(&mut p, 1, 0)));
                (r, json!({"revents": p.revents}))
            }
            _ => panic!("unknown op {kind}"),
        }
    }
}

fn param_flags(bits: u32) -> IoUringParamFlags {
    let all = [
        IoUringParamFlags::IORING_SETUP_IOPOLL, IoUringParamFlags::IORING_SETUP_SQPOLL, IoUringParamFlags::IORING_SETUP_SQ_AFF,
        IoUringParamFlags::IORING_SETUP_CQSIZE, IoUringParamFlags::IORING_SETUP_CLAMP, IoUringParamFlags::IORING_SETUP_ATTACH_WQ,
        IoUringParamFlags::IORING_SETUP_R_DISABLED, IoUringParamFlags::IORING_SETUP_SUBMIT_ALL, IoUringParamFlags::IORING_SETUP_COOP_TASKRUN,
        IoUringParamFlags::IORING_SETUP_TASKRUN_FLAG, IoUringParamFlags::IORING_SETUP_SQE128, IoUringParamFlags::IORING_SETUP_CQE32,
        IoUringParamFlags::IORING_SETUP_SINGLE_ISSUER, IoUringParamFlags::IORING_SETUP_DEFER_TASKRUN,
    ];
    let mut f = IoUringParamFlags::empty();
    for a in all {
        if bits & a.bits() != 0 {
            f = f | a;
        }
    }
    f
}

fn run(batches: &str, root: &str, entries: u32, flagbits: u32, lowfd: i32, out: &mut Out) {
    // the working directory: a third place with one file of its own, used read-only through dir_fd = None
    std::fs::create_dir_all(format!("{root}/C")).unwrap();
    std::fs::write(format!("{root}/C/cw"), b"cwd file").unwrap();
    std::env::set_current_dir(format!("{root}/C")).unwrap();
    unsafe { libc::umask(0o027) }; // creation modes are observable through the mask: 0644 -> 0640, 0755 -> 0750, 0600 stays
    // lowfd 0 / 2: world A's directory is opened AS descriptor 0 / 2 (closed first), so that every path-taking
    // entry carries that number as its dir_fd
    if lowfd >= 0 {
        unsafe { libc::close(lowfd) };
    }
    let mut a = World::open(root, "A");
    if lowfd >= 0 {
        assert_eq!(a.dir, lowfd, "world A's directory did not get descriptor {lowfd}");
    }
    let mut b = World::open(root, "B");
    a.reset();
    if lowfd >= 0 {
        assert_eq!(a.dir, lowfd, "world A's directory did not keep descriptor {lowfd}");
    }
    b.reset();
    let sqpoll = flagbits & IoUringParamFlags::IORING_SETUP_SQPOLL.bits() != 0;
    // a polling thread goes idle after 50 ms (sq_thread_idle): batches that sleep first find it asleep
    let mut ring: IoUring = match setup_io_uring(entries, param_flags(flagbits), 0, 50) {
        Ok(r) => r,
        Err(e) => {
            out.ev(&json!({"ev":"setup_failed","entries":entries,"flags":flagbits,"err":format!("{e}")}));
            return;
        }
    };
    out.ev(&geometry(&ring, entries, flagbits));
    // two registered buffers (IORING_REGISTER_BUFFERS through the wrapper)
    let mut rb0 = vec![0u8; 128];
    let mut rb1 = vec![0u8; 128];
    unsafe {
        REGBUF = [rb0.as_mut_ptr() as usize, rb1.as_mut_ptr() as usize];
        let reg = rusl::io_uring::io_uring_register_buffers(ring.fd, &[rusl::platform::IoSliceMut::new(&mut rb0), rusl::platform::IoSliceMut::new(&mut rb1)]);
        out.ev(&json!({"ev":"ring","entries":entries,"flags":flagbits,"register_buffers_ok":reg.is_ok()}));
        assert!(reg.is_ok(), "io_uring_register_buffers failed");
    }
    let mut next_u: u64 = 1000;
    let mut lost_in_a_row = 0;
    let mut graveyard: std::collections::VecDeque<Keep> = std::collections::VecDeque::new();
    let f = std::io::BufReader::new(std::fs::File::open(batches).unwrap());
    for line in f.lines() {
        let line = line.unwrap();
        if line.trim().is_empty() {
            continue;
        }
        let bt: Value = serde_json::from_str(&line).unwrap();
        if bt["reset"].as_bool().unwrap_or(false) {
            a.reset();
            b.reset();
        }
        let ops = bt["ops"].as_array().unwrap();
        let n = ops.len();
        if let Some(ms) = bt["sleep_ms"].as_u64() {
            std::thread::sleep(std::time::Duration::from_millis(ms));
        }
        if sqpoll {
            // the polling thread posts completions before it publishes the consumed head: wait until the submission ring
            // is drained (flush returns the number of unconsumed entries) so that "slot refused" means what it says
            let t0 = std::time::Instant::now();
            while guarded(|| ring.flush_submission_queue()).unwrap_or(0) != 0 && t0.elapsed().as_millis() < u128::from(1000 * wait_scale()) {
                std::thread::yield_now();
            }
        }
        let mut keep = Keep::default();
        let mut subs = Vec::new();
        let mut built = Vec::new();
        let mut panicked = Value::Null;
        // ---- world A: through the wrapper
        let mut filled = 0usize;
        for op in ops {
            let u = next_u;
            next_u += 1;
            let link = op["link"].as_bool().unwrap_or(false);
            let bl = build(op, &a, u, link, &mut keep);
            let slot = guarded(|| ring.get_next_sqe_slot());
            let mut got_slot = false;
            match slot {
                Ok(Some(p)) => {
                    unsafe { std::ptr::copy_nonoverlapping(&bl.sqe as *const IoUringSubmissionQueueEntry, p, 1) };
                    filled += 1;
                    got_slot = true;
                }
                Ok(None) => {}
                Err(m) => panicked = json!({"call":"get_next_sqe_slot","msg":m}),
            }
            let mut s = json!({"u":u,"op":op["op"],"link":link,"hard":link && op["hard"].as_bool().unwrap_or(false),"req":0,"got_slot":got_slot});
            if op["op"] == "readv" || op["op"] == "readfix" {
                s["req"] = json!(RLEN[op["len"].as_u64().unwrap_or(0) as usize]);
            }
            if op["op"] == "writev" || op["op"] == "writefix" {
                s["req"] = json!(WDATA[op["data"].as_u64().unwrap_or(0) as usize].len());
            }
            subs.push(s);
            built.push(bl);
        }
        let mut to_submit = match guarded(|| ring.flush_submission_queue()) {
            Ok(v) => i64::from(v),
            Err(m) => {
                panicked = json!({"call":"flush_submission_queue","msg":m});
                -1
            }
        };
        let mut enter_ret: i64 = 0;
        let mut attempts: Vec<i64> = Vec::new();
        if sqpoll {
            // the tail store and the flag load must not be reordered (a full barrier, as liburing has it)
            std::sync::atomic::fence(std::sync::atomic::Ordering::SeqCst);
            if ring.needs_wakeup() {
                enter_ret = io_uring_enter(ring.fd, 0, 0, IoUringEnterFlags::IORING_ENTER_SQ_WAKEUP).map_or(-1, |v| v as i64);
            }
            enter_ret = if enter_ret < 0 { enter_ret } else { to_submit };
        } else if to_submit > 0 {
            // io_uring_enter may fail without having taken anything (EINTR, EAGAIN, EBUSY; EBADFD on a ring created
            // disabled): the caller flushes again - which must again report everything still unconsumed - and retries
            for _ in 0..4 {
                enter_ret = match io_uring_enter(ring.fd, to_submit as u32, 0, IoUringEnterFlags::IORING_ENTER_GETEVENTS) {
                    Ok(v) => v as i64,
                    Err(e) => -i64::from(e.code.map_or(1, |c| c.raw())),
                };
                attempts.push(enter_ret);
                if ![-4, -11, -16, -77].contains(&enter_ret) {
                    break;
                }
                if enter_ret == -77 {
                    // IORING_REGISTER_ENABLE_RINGS (the wrapper has no call for it)
                    unsafe { libc::syscall(libc::SYS_io_uring_register, ring.fd.value(), 12, 0usize, 0) };
                }
                to_submit = guarded(|| ring.flush_submission_queue()).map_or(-1, i64::from);
                if to_submit <= 0 {
                    break; // nothing left to hand over, says the wrapper
                }
            }
        }
        // reap until every submission has completed (or 2 s passed), then look once more for extras
        let mut cqes = Vec::new();
        let submitted_at = std::time::Instant::now();
        let mut arrival: std::collections::HashMap<u64, u128> = std::collections::HashMap::new();
        let mut arrival_ns: std::collections::HashMap<u64, u64> = std::collections::HashMap::new();
        // completions of operations the kernel hands to its worker threads can take long on a loaded machine;
        // a ring that lost completions several batches in a row is not waited for any more
        let deadline = std::time::Instant::now() + std::time::Duration::from_millis(if lost_in_a_row >= 2 { 30 * wait_scale() } else { 2500 * wait_scale() });
        let mut extra_round = false;
        loop {
            loop {
                let r = guarded(|| ring.get_next_cqe().map(|c| (c.0.user_data, c.0.res, c.0.flags)));
                match r {
                    Ok(Some((u, res, fl))) => {
                        arrival.entry(u).or_insert(submitted_at.elapsed().as_millis());
                        arrival_ns.entry(u).or_insert(mono_ns());
                        cqes.push(json!({"u":u,"res":res,"flags":fl}));
                        if cqes.len() > 4 * n + 16 {
                            break; // a ring that keeps returning completions: enough to be judged
                        }
                    }
                    Ok(None) => break,
                    Err(m) => {
                        panicked = json!({"call":"get_next_cqe","msg":m});
                        break;
                    }
                }
            }
            if extra_round || !panicked.is_null() || std::time::Instant::now() > deadline || cqes.len() > 4 * n + 16 {
                break;
            }
            if cqes.len() >= n {
                extra_round = true;
            } else {
                std::thread::sleep(std::time::Duration::from_micros(100));
            }
            if sqpoll && ring.needs_wakeup() {
                let _ = io_uring_enter(ring.fd, 0, 0, IoUringEnterFlags::IORING_ENTER_SQ_WAKEUP);
            }
            let _ = io_uring_enter(ring.fd, 0, 0, IoUringEnterFlags::IORING_ENTER_GETEVENTS);
        }
        // payloads of world A
        let mut payload_a = Vec::new();
        for (k, op) in ops.iter().enumerate() {
            let res = cqes.iter().find(|c| c["u"] == subs[k]["u"]).and_then(|c| c["res"].as_i64()).unwrap_or(i64::MIN);
            let p = match op["op"].as_str().unwrap() {
                "readv" if res >= 0 => {
                    let ix = built[k].buf_ix.unwrap();
                    let mut data = keep.bufs[ix].clone();
                    data.extend_from_slice(&keep.bufs[ix + 1]);
                    json!(String::from_utf8_lossy(&data[..(res as usize).min(data.len())]))
                }
                "readfix" if res >= 0 => {
                    let b = op["buf"].as_u64().unwrap_or(0) as usize;
                    let data = unsafe { std::slice::from_raw_parts(regbuf(b).add(8 * op["boff"].as_u64().unwrap_or(0) as usize), 64) };
                    json!(String::from_utf8_lossy(&data[..(res as usize).min(64)]))
                }
                "statx" if res == 0 => stx_json(&keep.stx[built[k].stx_ix.unwrap()]),
                "socket" if res >= 0 => sock_facts(res as i32),
                "openat" if res >= 0 => fd_facts(res as i32),
                "timeout" if res != ECANCELED && res != i64::MIN => {
                    let u = subs[k]["u"].as_u64().unwrap_or(0);
                    // no upper bound on the completion time enters the comparison (a loaded machine is slow); a completion that
                    // does not come at all is a missing completion, which is re-confirmed in isolation by the check
                    let _ = arrival.get(&u);
                    let fast = true;
                    if res == 0 {
                        json!({"fast": fast, "not_early": Value::Null}) // completion count reached: no lower bound
                    } else {
                        json!({"fast": fast, "not_early": arrival_ns.get(&u).copied().unwrap_or(0) >= keep.deadline.get(&u).copied().unwrap_or(0)})
                    }
                }
                _ => Value::Null,
            };
            payload_a.push(p);
        }
        lost_in_a_row = if cqes.len() < n { lost_in_a_row + 1 } else { 0 };
        // results of world A in operation order (i64::MIN: no completion)
        let res_a: Vec<i64> = (0..n)
            .map(|k| cqes.iter().find(|c| c["u"] == subs[k]["u"]).and_then(|c| c["res"].as_i64()).unwrap_or(i64::MIN))
            .collect();
        let start_a = a.h;
        a.apply(ops, &res_a, start_a);
        // ---- world B: the direct calls, in order; what the kernel did not execute (-ECANCELED) is not executed.
        // Like the entries of the batch, every call refers to the handle table as it was when the batch was built.
        let start_b = b.h;
        let mut directs = Vec::new();
        let mut payload_b = Vec::new();
        let mut res_b = Vec::new();
        for (k, op) in ops.iter().enumerate() {
            if res_a[k] == ECANCELED {
                directs.push(json!({"u":subs[k]["u"],"res":ECANCELED,"ran":false}));
                payload_b.push(Value::Null);
                res_b.push(ECANCELED);
                continue;
            }
            let mut opx = op.clone();
            opx["follower"] = json!(k + 1 < n);
            let (r, mut p) = direct(&opx, &b);
            res_b.push(r);
            let kind = op["op"].as_str().unwrap();
            let mut d = json!({"u":subs[k]["u"],"res":r,"ran":true});
            if p["count_reached"] == true {
                d["count_reached"] = json!(true);
                p = json!({"fast": true, "not_early": Value::Null});
            }
            if kind == "poll" {
                d["revents"] = p["revents"].clone();
                payload_b.push(Value::Null);
            } else {
                payload_b.push(p);
            }
            directs.push(d);
        }
        // attributes of what was opened are taken at the end of the batch in both worlds (later operations of the
        // batch may rename over / unlink / write the file)
        for (k, op) in ops.iter().enumerate() {
            if op["op"] == "openat" && res_b[k] >= 0 {
                payload_b[k] = fd_facts(res_b[k] as i32);
            }
        }
        b.apply(ops, &res_b, start_b);
        let (da, db) = (a.digest(), b.digest());
        let payload_same: Vec<bool> = payload_a.iter().zip(payload_b.iter()).map(|(x, y)| x == y).collect();
        let mut rec = json!({"ev":"batch","b":bt["b"],"n":n,"subs":subs,"filled":filled,"to_submit":to_submit,"enter":enter_ret,"enter_attempts":attempts,
            "cqes":cqes,"direct":directs,"payload_same":payload_same,"side_same":da == db,"panic":!panicked.is_null()});
        if da != db {
            rec["side"] = json!({"a":da,"b":db});
            // keep later batches meaningful
            a.reset();
            b.reset();
        }
        if payload_same.iter().any(|x| !x) {
            rec["payload"] = json!({"a":payload_a,"b":payload_b});
        }
        if !panicked.is_null() {
            rec["panic_info"] = panicked.clone();
        }
        rec["ops"] = bt["ops"].clone();
        out.ev(&rec);
        out.flush(); // whatever happens next, this batch is on record
        if !panicked.is_null() {
            break;
        }
        // memory of completed operations is kept for a while: a wrapper that hands out wrong completions
        // makes the driver move on while the kernel still works on the batch
        graveyard.push_back(keep);
        if graveyard.len() > 512 {
            graveyard.pop_front();
        }
    }
    drop(ring);
}


// ------------------------------------------------------------------------------------------------
// socket scripts (generated from specs/UringSock.tla): connect / accept / sendmsg / recvmsg
// ------------------------------------------------------------------------------------------------
struct SockWorld {
    path: String,
    listener: i32,
    client: [i32; 3],          // index 1..2
    server_side: [i32; 3],     // accepted descriptor per client
    pending: std::collections::VecDeque<usize>,
    file: i32,                 // the descriptor that is passed around
    file_ino: u64,
    dgram_tx: i32,             // datagram sender connected to a receiver nobody reads (its queue fills up)
    dgram_rx: i32,
    /// listeners 1..3 bound to abstract names (sun_path bytes, leading NUL): short / interior NULs / maximal length
    alisten: [i32; 4],
    aname: [Vec<u8>; 4],
    tag: String,
    pending_on: [std::collections::VecDeque<usize>; 4],
    /// a TCP listener on 127.0.0.1 (ephemeral port) and the clients connected to it (directly) but not yet accepted
    ilisten: i32,
    iport: u16,
    iclients: std::collections::VecDeque<(i32, u16)>,
    iaccepted: Vec<i32>,
}

fn sockaddr_of(sun_path: &[u8]) -> (libc::sockaddr_un, u32) {
    let mut sa: libc::sockaddr_un = unsafe { std::mem::zeroed() };
    sa.sun_family = libc::AF_UNIX as u16;
    for (i, b) in sun_path.iter().enumerate().take(108) {
        sa.sun_path[i] = *b as libc::c_char;
    }
    (sa, (2 + sun_path.len().min(108)) as u32)
}

fn ino_of(fd: i32) -> u64 {
    let mut st: libc::stat = unsafe { std::mem::zeroed() };
    if unsafe { libc::fstat(fd, &mut st) } == 0 {
        st.st_ino
    } else {
        0
    }
}

impl SockWorld {
    fn new(root: &str, name: &str, run: u64) -> SockWorld {
        let dir = format!("{root}/{name}");
        std::fs::create_dir_all(&dir).unwrap();
        let path = format!("{dir}/s{run}");
        let _ = std::fs::remove_file(&path);
        std::fs::write(format!("{dir}/passed.txt"), b"passed around").unwrap();
        unsafe {
            let listener = libc::socket(libc::AF_UNIX, libc::SOCK_STREAM | libc::SOCK_CLOEXEC, 0);
            let mut sa: libc::sockaddr_un = std::mem::zeroed();
            sa.sun_family = libc::AF_UNIX as u16;
            for (i, b) in path.bytes().enumerate() {
                sa.sun_path[i] = b as libc::c_char;
            }
            let len = (2 + path.len() + 1) as u32;
            assert_eq!(0, libc::bind(listener, std::ptr::addr_of!(sa).cast(), len));
            assert_eq!(0, libc::listen(listener, 8));
            let c1 = libc::socket(libc::AF_UNIX, libc::SOCK_STREAM | libc::SOCK_CLOEXEC, 0);
            let c2 = libc::socket(libc::AF_UNIX, libc::SOCK_STREAM | libc::SOCK_CLOEXEC, 0);
            let file = libc::open(cstr(&format!("{dir}/passed.txt")).as_ptr(), libc::O_RDONLY | libc::O_CLOEXEC);
            let dgram_rx = libc::socket(libc::AF_UNIX, libc::SOCK_DGRAM | libc::SOCK_CLOEXEC, 0);
            let dpath = format!("{path}.d");
            let _ = std::fs::remove_file(&dpath);
            let mut da: libc::sockaddr_un = std::mem::zeroed();
            da.sun_family = libc::AF_UNIX as u16;
            for (i, b) in dpath.bytes().enumerate() {
                da.sun_path[i] = b as libc::c_char;
            }
            let dlen = (2 + dpath.len() + 1) as u32;
            assert_eq!(0, libc::bind(dgram_rx, std::ptr::addr_of!(da).cast(), dlen));
            let dgram_tx = libc::socket(libc::AF_UNIX, libc::SOCK_DGRAM | libc::SOCK_CLOEXEC, 0);
            assert_eq!(0, libc::connect(dgram_tx, std::ptr::addr_of!(da).cast(), dlen));
            // abstract names are global to the network namespace: process id, run and world make them unique
            let tag = format!("vc18-{}-{}-{}", std::process::id(), run, name);
            let mut aname: [Vec<u8>; 4] = Default::default();
            aname[1] = [b"\0".as_slice(), tag.as_bytes(), b"s"].concat();
            aname[2] = [b"\0".as_slice(), tag.as_bytes(), b"\0mid\0x"].concat();
            aname[3] = [b"\0".as_slice(), tag.as_bytes()].concat();
            aname[3].resize(108, b'z');
            let mut alisten = [-1; 4];
            for l in 1..4 {
                alisten[l] = libc::socket(libc::AF_UNIX, libc::SOCK_STREAM | libc::SOCK_CLOEXEC, 0);
                let (sa, len) = sockaddr_of(&aname[l]);
                assert_eq!(0, libc::bind(alisten[l], std::ptr::addr_of!(sa).cast(), len), "bind abstract {l}");
                assert_eq!(0, libc::listen(alisten[l], 8));
            }
            // client 2 has a name of its own, so that accept has a peer address of non-trivial length to report
            let (ca, clen) = sockaddr_of(&[b"\0".as_slice(), tag.as_bytes(), b"-client\0!"].concat());
            assert_eq!(0, libc::bind(c2, std::ptr::addr_of!(ca).cast(), clen));
            SockWorld { path, listener, client: [-1, c1, c2], server_side: [-1; 3], pending: Default::default(), file, file_ino: ino_of(file), dgram_tx, dgram_rx,
                alisten, aname, tag, pending_on: Default::default(), ilisten: -1, iport: 0, iclients: Default::default(), iaccepted: Vec::new() }
        }
    }
    /// TCP listener on the loopback; false if the sandbox has none
    fn inet_listen(&mut self) -> bool {
        unsafe {
            let l = libc::socket(libc::AF_INET, libc::SOCK_STREAM | libc::SOCK_CLOEXEC, 0);
            let mut sa: libc::sockaddr_in = std::mem::zeroed();
            sa.sin_family = libc::AF_INET as u16;
            sa.sin_addr.s_addr = u32::from_ne_bytes([127, 0, 0, 1]);
            if l < 0 || libc::bind(l, std::ptr::addr_of!(sa).cast(), 16) != 0 || libc::listen(l, 8) != 0 {
                return false;
            }
            let mut len: u32 = 16;
            libc::getsockname(l, std::ptr::addr_of_mut!(sa).cast(), &mut len);
            self.ilisten = l;
            self.iport = u16::from_be(sa.sin_port);
            true
        }
    }
    /// a client connects directly; its local port is what accept must report as the peer's
    fn inet_connect(&mut self) -> bool {
        unsafe {
            let c = libc::socket(libc::AF_INET, libc::SOCK_STREAM | libc::SOCK_CLOEXEC, 0);
            let mut sa: libc::sockaddr_in = std::mem::zeroed();
            sa.sin_family = libc::AF_INET as u16;
            sa.sin_addr.s_addr = u32::from_ne_bytes([127, 0, 0, 1]);
            sa.sin_port = self.iport.to_be();
            if libc::connect(c, std::ptr::addr_of!(sa).cast(), 16) != 0 {
                return false;
            }
            let mut len: u32 = 16;
            libc::getsockname(c, std::ptr::addr_of_mut!(sa).cast(), &mut len);
            self.iclients.push_back((c, u16::from_be(sa.sin_port)));
            true
        }
    }
    /// what accept reported about an inet peer: length, family, whether it is the oldest waiting client
    fn inet_peer(&mut self, fd: i32, peer: &[u8], len: u64) -> Value {
        let (c, port) = self.iclients.pop_front().unwrap_or((-1, 0));
        self.iaccepted.push(fd);
        self.iaccepted.push(c);
        json!({"addrlen": len, "family": u16::from_ne_bytes([peer[0], peer[1]]), "peer_is_the_client": u16::from_be_bytes([peer[2], peer[3]]) == port,
            "peer_addr": [peer[4], peer[5], peer[6], peer[7]], "facts": sock_facts(fd)})
    }
    fn close_all(&mut self) {
        unsafe {
            for fd in self.iaccepted.drain(..).chain(self.iclients.drain(..).map(|c| c.0)).chain(std::iter::once(self.ilisten)) {
                if fd >= 0 {
                    libc::close(fd);
                }
            }
            for fd in [self.listener, self.client[1], self.client[2], self.server_side[1], self.server_side[2], self.file, self.dgram_tx, self.dgram_rx,
                       self.alisten[1], self.alisten[2], self.alisten[3]] {
                if fd >= 0 {
                    libc::close(fd);
                }
            }
        }
        let _ = std::fs::remove_file(&self.path);
        let _ = std::fs::remove_file(format!("{}.d", self.path));
    }
    /// control buffer after a recvmsg -> (number of descriptors received, all refer to the passed file); closes them
    fn received_fds(&self, ctrl: &[u8], controllen: usize) -> (usize, bool) {
        let mut n = 0;
        let mut same = true;
        let mut off = 0usize;
        while off + 16 <= controllen.min(ctrl.len()) {
            let len = usize::from_ne_bytes(ctrl[off..off + 8].try_into().unwrap());
            let level = i32::from_ne_bytes(ctrl[off + 8..off + 12].try_into().unwrap());
            let ty = i32::from_ne_bytes(ctrl[off + 12..off + 16].try_into().unwrap());
            if len < 16 || off + len > ctrl.len() {
                break;
            }
            if level == libc::SOL_SOCKET && ty == libc::SCM_RIGHTS {
                let mut p = off + 16;
                while p + 4 <= off + len {
                    let fd = i32::from_ne_bytes(ctrl[p..p + 4].try_into().unwrap());
                    n += 1;
                    same = same && ino_of(fd) == self.file_ino;
                    unsafe { libc::close(fd) };
                    p += 4;
                }
            }
            off += (len + 7) & !7;
        }
        (n, same)
    }
}

const SDATA: &[u8] = b"Ping!";

/// one step through the wrapper: -> (completions, payload)
fn sock_ring(ring: &mut IoUring, w: &mut SockWorld, step: &Value, u: u64, lost_in_a_row: &mut u32) -> (Vec<Value>, Value, bool, i64, i64, Option<String>) {
    let kind = step[0].as_str().unwrap();
    let c = step[1].as_u64().unwrap_or(0) as usize;
    let n = step[2].as_u64().unwrap_or(0) as usize;
    let fl = IoUringSQEFlags::empty();
    // everything an entry points to lives until the end of this function (after the completion)
    let upath = rusl::string::unix_str::UnixString::try_from_str(&w.path).unwrap();
    // step = ["connect", client, listener] / ["accept", listener]: listener 0 is the path one, 1..3 the abstract ones
    let lsel = if kind == "connect" { n } else if kind == "accept" { c } else { 0 };
    let arg = if kind == "connect" && lsel > 0 {
        rusl::platform::SocketArgUnix::verif_from_sun_path(&w.aname[lsel])
    } else {
        rusl::platform::SocketAddressUnix::try_from_unix(&upath).unwrap()
    };
    let lfd = if lsel > 0 { w.alisten[lsel] } else { w.listener };
    let mut peer = [0u8; 112];
    // the caller's address buffer length: not the capacity constant; sometimes too short (the kernel truncates the
    // address and still reports its full length)
    let mut peer_len: u64 = if u % 3 == 0 { 10 } else { 64 };
    let data = &SDATA[..n.min(SDATA.len()).max(if kind == "sendfd" || kind == "dsend" { 1 } else { 0 })];
    let ios = [rusl::platform::IoSlice::new(data)];
    let fds = [Fd::try_new(w.file).unwrap()];
    let guard = rusl::platform::MsgHdrBorrow::create_send(None, &ios, if kind == "sendfd" { Some(rusl::platform::ControlMessageSend::ScmRights(&fds)) } else { None });
    let mut rbuf = [0u8; 32];
    let mut ctrl = [0u8; 64];
    let rlen = n.min(32);
    let mut riov = [libc::iovec { iov_base: rbuf.as_mut_ptr().cast(), iov_len: rlen }];
    let mut rhdr: libc::msghdr = unsafe { std::mem::zeroed() };
    rhdr.msg_iov = riov.as_mut_ptr();
    rhdr.msg_iovlen = 1;
    rhdr.msg_control = ctrl.as_mut_ptr().cast();
    rhdr.msg_controllen = ctrl.len();
    let sqe = unsafe {
        match kind {
            "connect" => IoUringSubmissionQueueEntry::new_connect_unix(Fd::try_new(w.client[c]).unwrap(), &arg, u, fl),
            "accept" => IoUringSubmissionQueueEntry::new_accept_unix(Fd::try_new(lfd).unwrap(), peer.as_mut_ptr().cast(), &mut peer_len,
                sock_flags(u).0, u, fl),
            // inet listener: ["iaccept"]; the client connected directly
            "iaccept" => IoUringSubmissionQueueEntry::new_accept_inet(Fd::try_new(w.ilisten).unwrap(), peer.as_mut_ptr().cast(), &mut peer_len, sock_flags(c as u64).0, u, fl),
            "send" | "sendfd" => IoUringSubmissionQueueEntry::new_sendmsg(Fd::try_new(w.client[c]).unwrap(), &guard, 0, u, fl),
            // a send flag with an observable effect: MSG_DONTWAIT on a datagram socket whose receiver's queue is full
            "dsend" => IoUringSubmissionQueueEntry::new_sendmsg(Fd::try_new(w.dgram_tx).unwrap(), &guard, libc::MSG_DONTWAIT, u, fl),
            "recv" => IoUringSubmissionQueueEntry::new_recvmsg(Fd::try_new(w.server_side[c]).unwrap(), std::ptr::addr_of_mut!(rhdr).cast(), 0, u, fl),
            "peek" => IoUringSubmissionQueueEntry::new_recvmsg(Fd::try_new(w.server_side[c]).unwrap(), std::ptr::addr_of_mut!(rhdr).cast(), libc::MSG_PEEK, u, fl),
            _ => panic!("unknown sock step {kind}"),
        }
    };
    let mut panicked = None;
    let mut got_slot = false;
    match guarded(|| ring.get_next_sqe_slot()) {
        Ok(Some(p)) => {
            unsafe { std::ptr::copy_nonoverlapping(&sqe as *const IoUringSubmissionQueueEntry, p, 1) };
            got_slot = true;
        }
        Ok(None) => {}
        Err(m) => panicked = Some(m),
    }
    let to_submit = guarded(|| ring.flush_submission_queue()).map_or(-1, i64::from);
    let enter = if to_submit > 0 {
        match io_uring_enter(ring.fd, to_submit as u32, 0, IoUringEnterFlags::IORING_ENTER_GETEVENTS) {
            Ok(v) => v as i64,
            Err(e) => -i64::from(e.code.map_or(1, |c| c.raw())),
        }
    } else {
        0
    };
    let mut cqes = Vec::new();
    let deadline = std::time::Instant::now() + std::time::Duration::from_millis(if *lost_in_a_row >= 2 { 30 * wait_scale() } else { 2500 * wait_scale() });
    let mut extra = false;
    loop {
        while let Ok(Some((cu, res))) = guarded(|| ring.get_next_cqe().map(|c| (c.0.user_data, c.0.res))) {
            cqes.push(json!({"u":cu,"res":res}));
            if cqes.len() > 20 {
                break;
            }
        }
        if extra || std::time::Instant::now() > deadline || cqes.len() > 20 {
            break;
        }
        if !cqes.is_empty() {
            extra = true;
        } else {
            std::thread::sleep(std::time::Duration::from_micros(100));
        }
        let _ = io_uring_enter(ring.fd, 0, 0, IoUringEnterFlags::IORING_ENTER_GETEVENTS);
    }
    let res = cqes.iter().find(|c| c["u"] == u).and_then(|c| c["res"].as_i64()).unwrap_or(i64::MIN);
    *lost_in_a_row = if cqes.is_empty() { *lost_in_a_row + 1 } else { 0 };
    let payload = match kind {
        "accept" if res >= 0 => {
            w.server_side[w.pending_on[lsel].pop_front().unwrap_or(0)] = res as i32;
            json!({"addrlen": peer_len, "family": u16::from_ne_bytes([peer[0], peer[1]]), "facts": sock_facts(res as i32),
                "peer": String::from_utf8_lossy(&peer[2..64]).trim_end_matches('\0').replace(&w.tag, "?")})
        }
        "recv" | "peek" if res >= 0 => {
            let (nf, same) = w.received_fds(&ctrl, rhdr.msg_controllen);
            json!({"data": String::from_utf8_lossy(&rbuf[..(res as usize).min(32)]), "fds": nf, "same_file": same})
        }
        "iaccept" if res >= 0 => w.inet_peer(res as i32, &peer, peer_len),
        "connect" => {
            if res == 0 {
                w.pending_on[lsel].push_back(c);
            }
            Value::Null
        }
        _ => Value::Null,
    };
    (cqes, payload, got_slot, to_submit, enter, panicked)
}

/// the same step as direct system calls
fn sock_direct(w: &mut SockWorld, step: &Value, u: u64) -> (i64, Value) {
    let kind = step[0].as_str().unwrap();
    let c = step[1].as_u64().unwrap_or(0) as usize;
    let n = step[2].as_u64().unwrap_or(0) as usize;
    unsafe {
        match kind {
            "connect" => {
                let l = n;
                let (sa, len) = if l > 0 { sockaddr_of(&w.aname[l]) } else { sockaddr_of(&[w.path.as_bytes(), b"\0"].concat()) };
                let r = ret(i64::from(libc::connect(w.client[c], std::ptr::addr_of!(sa).cast(), len)));
                if r == 0 {
                    w.pending_on[l].push_back(c);
                }
                (r, Value::Null)
            }
            "accept" => {
                let mut peer = [0u8; 112];
                let mut len: u32 = if u % 3 == 0 { 10 } else { 64 };
                let l = c; // ["accept", listener]
                let lfd = if l > 0 { w.alisten[l] } else { w.listener };
                let r = ret(i64::from(libc::accept4(lfd, peer.as_mut_ptr().cast(), &mut len, sock_flags(u).1)));
                if r >= 0 {
                    w.server_side[w.pending_on[l].pop_front().unwrap_or(0)] = r as i32;
                    (r, json!({"addrlen": len, "family": u16::from_ne_bytes([peer[0], peer[1]]), "facts": sock_facts(r as i32),
                        "peer": String::from_utf8_lossy(&peer[2..64]).trim_end_matches('\0').replace(&w.tag, "?")}))
                } else {
                    (r, Value::Null)
                }
            }
            "iaccept" => {
                let mut peer = [0u8; 112];
                let mut len: u32 = if u % 3 == 0 { 10 } else { 64 };
                let r = ret(i64::from(libc::accept4(w.ilisten, peer.as_mut_ptr().cast(), &mut len, sock_flags(c as u64).1)));
                if r >= 0 {
                    let p = w.inet_peer(r as i32, &peer, u64::from(len));
                    (r, p)
                } else {
                    (r, Value::Null)
                }
            }
            "dsend" => {
                let mut iov = [libc::iovec { iov_base: SDATA.as_ptr().cast_mut().cast(), iov_len: 1 }];
                let mut hdr: libc::msghdr = std::mem::zeroed();
                hdr.msg_iov = iov.as_mut_ptr();
                hdr.msg_iovlen = 1;
                (ret(libc::sendmsg(w.dgram_tx, &hdr, libc::MSG_DONTWAIT | libc::MSG_NOSIGNAL) as i64), Value::Null)
            }
            "send" | "sendfd" => {
                let data = &SDATA[..n.min(SDATA.len()).max(if kind == "sendfd" { 1 } else { 0 })];
                let mut iov = [libc::iovec { iov_base: data.as_ptr().cast_mut().cast(), iov_len: data.len() }];
                let mut hdr: libc::msghdr = std::mem::zeroed();
                hdr.msg_iov = iov.as_mut_ptr();
                hdr.msg_iovlen = 1;
                let mut ctrl = [0u8; 24];
                if kind == "sendfd" {
                    ctrl[..8].copy_from_slice(&20usize.to_ne_bytes());
                    ctrl[8..12].copy_from_slice(&libc::SOL_SOCKET.to_ne_bytes());
                    ctrl[12..16].copy_from_slice(&libc::SCM_RIGHTS.to_ne_bytes());
                    ctrl[16..20].copy_from_slice(&w.file.to_ne_bytes());
                    hdr.msg_control = ctrl.as_mut_ptr().cast();
                    hdr.msg_controllen = 24;
                }
                (ret(libc::sendmsg(w.client[c], &hdr, libc::MSG_NOSIGNAL) as i64), Value::Null)
            }
            "recv" | "peek" => {
                let mut rbuf = [0u8; 32];
                let mut ctrl = [0u8; 64];
                let mut iov = [libc::iovec { iov_base: rbuf.as_mut_ptr().cast(), iov_len: n.min(32) }];
                let mut hdr: libc::msghdr = std::mem::zeroed();
                hdr.msg_iov = iov.as_mut_ptr();
                hdr.msg_iovlen = 1;
                hdr.msg_control = ctrl.as_mut_ptr().cast();
                hdr.msg_controllen = ctrl.len();
                let r = ret(libc::recvmsg(w.server_side[c], &mut hdr, libc::MSG_DONTWAIT | if kind == "peek" { libc::MSG_PEEK } else { 0 }) as i64);
                if r >= 0 {
                    let (nf, same) = w.received_fds(&ctrl, hdr.msg_controllen);
                    (r, json!({"data": String::from_utf8_lossy(&rbuf[..(r as usize).min(32)]), "fds": nf, "same_file": same}))
                } else {
                    (r, Value::Null)
                }
            }
            _ => panic!("unknown sock step {kind}"),
        }
    }
}

fn run_sock(scripts: &str, root: &str, entries: u32, flagbits: u32, out: &mut Out) {
    let mut ring: IoUring = match setup_io_uring(entries, param_flags(flagbits), 0, 100) {
        Ok(r) => r,
        Err(e) => {
            out.ev(&json!({"ev":"setup_failed","entries":entries,"flags":flagbits,"err":format!("{e}")}));
            return;
        }
    };
    out.ev(&json!({"ev":"ring","entries":entries,"flags":flagbits}));
    let mut u: u64 = 5000;
    let mut lost: u32 = 0;
    let f = std::io::BufReader::new(std::fs::File::open(scripts).unwrap());
    for line in f.lines() {
        let line = line.unwrap();
        if line.trim().is_empty() {
            continue;
        }
        let sc: Value = serde_json::from_str(&line).unwrap();
        let run = sc["run"].as_u64().unwrap();
        let mut a = SockWorld::new(root, "A", run);
        let mut b = SockWorld::new(root, "B", run);
        for (k, step) in sc["steps"].as_array().unwrap().iter().enumerate() {
            u += 1;
            if step[0] == "iconnect" {
                // not an operation of the ring: a TCP client connects to each world's loopback listener
                if a.ilisten < 0 && !(a.inet_listen() && b.inet_listen()) {
                    out.ev(&json!({"ev":"no_loopback"}));
                    break;
                }
                if !(a.inet_connect() && b.inet_connect()) {
                    out.ev(&json!({"ev":"no_loopback"}));
                    break;
                }
                continue;
            }
            let (cqes, pa, got_slot, to_submit, enter, panicked) = sock_ring(&mut ring, &mut a, step, u, &mut lost);
            let (rb, pb) = sock_direct(&mut b, step, u);
            let op = match step[0].as_str().unwrap() {
                "send" | "sendfd" | "dsend" => "sendmsg",
                "iaccept" => "accept",
                "recv" | "peek" => "recvmsg",
                x => x,
            };
            let rec = json!({"ev":"batch","b":k,"run":run,"n":1,"step":step,"ops":[{"op":op,"step":step}],
                "subs":[{"u":u,"op":op,"link":false,"req":0,"got_slot":got_slot}],"filled":i32::from(got_slot),"to_submit":to_submit,"enter":enter,
                "cqes":cqes,"direct":[{"u":u,"res":rb,"ran":true}],"payload_same":[pa == pb],"side_same":true,"panic":panicked.is_some(),
                "payload":{"a":[pa],"b":[pb]}});
            out.ev(&rec);
            out.flush();
            if panicked.is_some() {
                break;
            }
            // the script was generated so that no step blocks; that only holds while both worlds follow it
            let ra = rec["cqes"].as_array().unwrap().iter().find(|c| c["u"] == u).and_then(|c| c["res"].as_i64()).unwrap_or(i64::MIN);
            if (ra >= 0) != (rb >= 0) || (ra < 0 && ra != rb) {
                break;
            }
        }
        a.close_all();
        b.close_all();
    }
    drop(ring);
}

/// set-up geometry: what the wrapper extracted vs what the kernel reports for an identical, independent
/// io_uring_setup call (raw syscall, own params block) and what follows from the requested size
fn geometry(ring: &IoUring, requested: u32, flagbits: u32) -> Value {
    let (se, sm, ce, cm) = ring.verif_ring_geometry();
    let mut p = [0u32; 30]; // struct io_uring_params, 120 bytes: sq_entries, cq_entries, flags, sq_thread_cpu, sq_thread_idle, features, ...
    p[2] = flagbits;
    p[4] = 100;
    let fd = unsafe { libc::syscall(libc::SYS_io_uring_setup, requested, p.as_mut_ptr()) };
    if fd >= 0 {
        unsafe { libc::close(fd as i32) };
    }
    // every ring pointer the wrapper derived, as an offset into its mapping, against the offset the kernel reports for
    // exactly that field: [sq head, tail, flags, dropped, array, cq head, tail, overflow, cqes, flags]
    let w_off: Vec<i64> = ring.verif_ring_pointer_offsets().iter().map(|o| if *o == usize::MAX { -1 } else { (*o).min(1 << 40) as i64 }).collect();
    let k_off: Vec<i64> = vec![p[10], p[11], p[14], p[15], p[16], p[20], p[21], p[24], p[25]].into_iter().map(i64::from)
        .chain(std::iter::once(if p[26] == 0 { -1 } else { i64::from(p[26]) })).collect();
    // the submission index array as set-up left it: entry i must name submission entry i
    let bad_ix = (0..se).find(|i| unsafe { ring.verif_sq_index_array(*i) } != *i);
    json!({"ev":"geometry","requested":requested,"flags":flagbits,"twin_ok":fd >= 0,
        "w_sq_entries":se,"w_sq_mask":sm,"w_cq_entries":ce,"w_cq_mask":cm,"k_sq_entries":p[0],"k_cq_entries":p[1],
        "w_off":w_off,"k_off":k_off,"array_ok":bad_ix.is_none(),
        "array_first_bad":bad_ix.map_or(-1, i64::from),"array_head":(0..se.min(8)).map(|i| unsafe { ring.verif_sq_index_array(i) }).collect::<Vec<u32>>()})
}

fn mark(s: &str) {
    unsafe { libc::write(-1, s.as_ptr().cast(), s.len()) };
}

fn main() {
    quiet_panics();
    let a: Vec<String> = std::env::args().collect();
    let mut out = Out::new();
    match a[1].as_str() {
        "run" => {
            // the driver's own bookkeeping can fail once the code under test has gone wrong badly enough
            // (e.g. descriptors leak until EMFILE): keep what was recorded and say so
            let lowfd = a.get(6).and_then(|x| x.parse().ok()).unwrap_or(-1);
            let r = guarded(|| run(&a[2], &a[3], a[4].parse().unwrap(), a[5].parse().unwrap(), lowfd, &mut out));
            if let Err(m) = r {
                out.ev(&json!({"ev":"aborted","why":m}));
            }
        }
        "sock" => {
            let r = guarded(|| run_sock(&a[2], &a[3], a[4].parse().unwrap(), a[5].parse().unwrap(), &mut out));
            if let Err(m) = r {
                out.ev(&json!({"ev":"aborted","why":m}));
            }
        }
        "constants" => {
            let mut m = serde_json::Map::new();
            macro_rules! c { ($t:ident, $($n:ident),*) => { $( m.insert(stringify!($n).to_string(), json!(u64::from($t::$n.bits()))); )* } }
            c!(IoUringSQEFlags, IOSQE_FIXED_FILE, IOSQE_IO_DRAIN, IOSQE_IO_LINK, IOSQE_IO_HARDLINK, IOSQE_ASYNC, IOSQE_BUFFER_SELECT, IOSQE_CQE_SKIP_SUCCESS);
            c!(IoUringParamFlags, IORING_SETUP_IOPOLL, IORING_SETUP_SQPOLL, IORING_SETUP_SQ_AFF, IORING_SETUP_CQSIZE, IORING_SETUP_CLAMP, IORING_SETUP_ATTACH_WQ,
                IORING_SETUP_R_DISABLED, IORING_SETUP_SUBMIT_ALL, IORING_SETUP_COOP_TASKRUN, IORING_SETUP_TASKRUN_FLAG, IORING_SETUP_SQE128, IORING_SETUP_CQE32,
                IORING_SETUP_SINGLE_ISSUER, IORING_SETUP_DEFER_TASKRUN);
            c!(IoUringEnterFlags, IORING_ENTER_GETEVENTS, IORING_ENTER_SQ_WAKEUP, IORING_ENTER_SQ_WAIT, IORING_ENTER_EXT_ARG, IORING_ENTER_REGISTERED_RING);
            {
                use rusl::platform::IoUringFeatFlags as F;
                c!(F, IORING_FEAT_SINGLE_MMAP, IORING_FEAT_NODROP, IORING_FEAT_SUBMIT_STABLE, IORING_FEAT_RW_CUR_POS, IORING_FEAT_CUR_PERSONALITY,
                    IORING_FEAT_FAST_POLL, IORING_FEAT_POLL_32BITS, IORING_FEAT_SQPOLL_NONFIXED, IORING_FEAT_EXT_ARG, IORING_FEAT_NATIVE_WORKERS,
                    IORING_FEAT_RSRC_TAGS, IORING_FEAT_CQE_SKIP, IORING_FEAT_LINKED_FILE);
            }
            m.insert("IORING_POLL_ADD_MULTI".into(), json!(PollAddMultiFlags::ADD_MULTI.bits()));
            m.insert("IORING_POLL_UPDATE_EVENTS".into(), json!(PollAddMultiFlags::UPDATE_EVENTS.bits()));
            m.insert("IORING_POLL_UPDATE_USER_DATA".into(), json!(PollAddMultiFlags::UPDATE_USER_DATA.bits()));
            {
                use rusl::platform::IoUringOp as O;
                macro_rules! o { ($($v:ident => $n:expr),*) => { $( m.insert($n.to_string(), json!(O::$v as u8)); )* } }
                o!(Nop => "IORING_OP_NOP", Readv => "IORING_OP_READV", Writev => "IORING_OP_WRITEV", Fsync => "IORING_OP_FSYNC", ReadFixed => "IORING_OP_READ_FIXED",
                   WriteFixed => "IORING_OP_WRITE_FIXED", PollAdd => "IORING_OP_POLL_ADD", Sendmsg => "IORING_OP_SENDMSG", Recvmsg => "IORING_OP_RECVMSG",
                   Timeout => "IORING_OP_TIMEOUT", Accept => "IORING_OP_ACCEPT", Connect => "IORING_OP_CONNECT", Openat => "IORING_OP_OPENAT", Close => "IORING_OP_CLOSE",
                   Statx => "IORING_OP_STATX", Read => "IORING_OP_READ", Write => "IORING_OP_WRITE", Renameat => "IORING_OP_RENAMEAT", Unlinkat => "IORING_OP_UNLINKAT",
                   Mkdirat => "IORING_OP_MKDIRAT", Symlinkat => "IORING_OP_SYMLINKAT", Linkat => "IORING_OP_LINKAT", Socket => "IORING_OP_SOCKET", Shutdown => "IORING_OP_SHUTDOWN");
            }
            out.ev(&json!({"ev":"constants","lib":Value::Object(m)}));
        }
        "overflow" => {
            // SQPOLL ring with a 2-slot... completion ring: completions are left unreaped until the ring overflows
            // (IORING_SQ_CQ_OVERFLOW in the flags word), the polling thread goes idle, then one more entry is submitted
            // by the wake-up protocol, checked ONCE, before anything is reaped.  Every entry must complete exactly once.
            let r = setup_io_uring(1, param_flags(IoUringParamFlags::IORING_SETUP_SQPOLL.bits()), 0, 50);
            match r {
                Err(e) => out.ev(&json!({"ev":"setup_failed","err":format!("{e}")})),
                Ok(mut ring) => {
                    let submit = |ring: &mut IoUring, u: u64| -> bool {
                        let Some(p) = ring.get_next_sqe_slot() else { return false };
                        unsafe { p.write(IoUringSubmissionQueueEntry::new_close(Fd::try_new(BADFD).unwrap(), u, IoUringSQEFlags::empty())) };
                        ring.flush_submission_queue();
                        std::sync::atomic::fence(std::sync::atomic::Ordering::SeqCst);
                        if ring.needs_wakeup() {
                            let _ = io_uring_enter(ring.fd, 0, 0, IoUringEnterFlags::IORING_ENTER_SQ_WAKEUP);
                        }
                        true
                    };
                    let n: u64 = 9;
                    let mut filled = 0u32;
                    for u in 1..n {
                        // wait until the polling thread took the previous entry (the ring has one slot)
                        let t0 = std::time::Instant::now();
                        while ring.flush_submission_queue() != 0 && t0.elapsed().as_millis() < u128::from(1000 * wait_scale()) {
                            std::thread::yield_now();
                        }
                        if submit(&mut ring, u) {
                            filled += 1;
                        }
                    }
                    std::thread::sleep(std::time::Duration::from_millis(300)); // past sq_thread_idle
                    let t0 = std::time::Instant::now();
                    while ring.flush_submission_queue() != 0 && t0.elapsed().as_millis() < u128::from(1000 * wait_scale()) {
                        std::thread::yield_now();
                    }
                    if submit(&mut ring, n) {
                        filled += 1;
                    }
                    std::thread::sleep(std::time::Duration::from_millis(300 * wait_scale()));
                    let mut seen = vec![0u8; n as usize + 1];
                    let (mut completed, mut dups, mut unknown, mut bad_res) = (0u32, 0u32, 0u32, 0u32);
                    let deadline = std::time::Instant::now() + std::time::Duration::from_secs(2 * wait_scale());
                    while (completed as u64) < n && std::time::Instant::now() < deadline {
                        while let Some((u, res)) = ring.get_next_cqe().map(|c| (c.0.user_data, c.0.res)) {
                            if u == 0 || u > n { unknown += 1 } else if seen[u as usize] != 0 { dups += 1 } else { seen[u as usize] = 1; completed += 1 }
                            if res != -9 { bad_res += 1 }
                        }
                        let _ = io_uring_enter(ring.fd, 0, 0, IoUringEnterFlags::IORING_ENTER_GETEVENTS); // flushes the overflow list, wakes nobody
                        std::thread::sleep(std::time::Duration::from_millis(1));
                    }
                    out.ev(&json!({"ev":"lap","scenario":"sqpoll_cq_overflow_idle","n":n,"filled":filled,"to_submit":0,"enter":0,"completed":completed,"dups":dups,"unknown":unknown,"bad_res":bad_res}));
                }
            }
        }
        "probe" => {
            let singles: Vec<u32> = (0..14).map(|k| 1u32 << k).collect();
            let mut combos: Vec<u32> = vec![0];
            combos.extend(singles.iter());
            for i in 0..14 {
                for j in (i + 1)..14 {
                    combos.push((1 << i) | (1 << j));
                }
            }
            combos.push((1 << 10) | (1 << 11) | (1 << 8)); // SQE128|CQE32|COOP_TASKRUN
            combos.push((1 << 12) | (1 << 13) | (1 << 10) | (1 << 11)); // SINGLE_ISSUER|DEFER_TASKRUN|SQE128|CQE32
            let mut ok = Vec::new();
            let mut refused = Vec::new();
            for c in combos {
                match setup_io_uring(4, param_flags(c), 0, 100) {
                    Ok(r) => {
                        ok.push(c);
                        drop(r);
                    }
                    Err(e) => refused.push(json!([c, e.code.map_or(0, |x| x.raw())])),
                }
            }
            out.ev(&json!({"ev":"probe","accepted":ok,"refused":refused}));
        }
        "teardown" => {
            let entries: u32 = a[2].parse().unwrap();
            let flags: u32 = a[3].parse().unwrap();
            let with_op = a[4] == "1";
            let lap = a[4] == "2";
            mark("MARK:setup:begin");
            let r = setup_io_uring(entries, param_flags(flags), 0, 100);
            mark("MARK:setup:end");
            match r {
                Err(e) => out.ev(&json!({"ev":"setup_failed","err":format!("{e}")})),
                Ok(mut ring) => {
                    mark("MARK:geom:begin"); // the twin set-up call in here is not the ring's business
                    out.ev(&geometry(&ring, entries, flags));
                    out.flush();
                    mark("MARK:geom:end");
                    let fd = ring.fd.value();
                    if with_op {
                        let e = IoUringSubmissionQueueEntry::new_close(Fd::try_new(BADFD).unwrap(), 1, IoUringSQEFlags::empty());
                        if let Some(p) = ring.get_next_sqe_slot() {
                            unsafe { p.write(e) };
                        }
                        let n = ring.flush_submission_queue();
                        let _ = io_uring_enter(ring.fd, n, 0, IoUringEnterFlags::IORING_ENTER_GETEVENTS);
                        for _ in 0..1000 {
                            if ring.get_next_cqe().is_some() {
                                break;
                            }
                            let _ = io_uring_enter(ring.fd, 0, 0, IoUringEnterFlags::IORING_ENTER_GETEVENTS);
                        }
                    }
                    if lap {
                        // one lap over the whole ring: every submission slot (up to the LAST index-array entry) filled once
                        // with close(<closed descriptor>) numbered 1..n, submitted in one go, every completion reaped
                        let (n, _, _, _) = ring.verif_ring_geometry();
                        let mut filled = 0u32;
                        for k in 1..=n {
                            match ring.get_next_sqe_slot() {
                                Some(p) => {
                                    let e = IoUringSubmissionQueueEntry::new_close(Fd::try_new(BADFD).unwrap(), u64::from(k), IoUringSQEFlags::empty());
                                    unsafe { p.write(e) };
                                    filled += 1;
                                }
                                None => break,
                            }
                        }
                        let ts = ring.flush_submission_queue();
                        let er = io_uring_enter(ring.fd, ts, 0, IoUringEnterFlags::IORING_ENTER_GETEVENTS).map_or(-1, |v| v as i64);
                        let mut seen = vec![0u8; n as usize + 1];
                        let (mut completed, mut dups, mut unknown, mut bad_res) = (0u32, 0u32, 0u32, 0u32);
                        let deadline = std::time::Instant::now() + std::time::Duration::from_secs(5 * wait_scale());
                        while completed + dups + unknown < filled && std::time::Instant::now() < deadline {
                            while let Some((u, res)) = ring.get_next_cqe().map(|c| (c.0.user_data, c.0.res)) {
                                if u == 0 || u > u64::from(n) {
                                    unknown += 1;
                                } else if seen[u as usize] != 0 {
                                    dups += 1;
                                } else {
                                    seen[u as usize] = 1;
                                    completed += 1;
                                }
                                if res != -9 {
                                    bad_res += 1;
                                }
                                if completed + dups + unknown > 3 * n + 16 {
                                    break;
                                }
                            }
                            let _ = io_uring_enter(ring.fd, 0, 0, IoUringEnterFlags::IORING_ENTER_GETEVENTS);
                        }
                        out.ev(&json!({"ev":"lap","n":n,"filled":filled,"to_submit":ts,"enter":er,"completed":completed,"dups":dups,"unknown":unknown,"bad_res":bad_res}));
                        out.flush();
                    }
                    mark("MARK:drop:begin");
                    drop(ring);
                    mark("MARK:drop:end");
                    out.ev(&json!({"ev":"teardown","fd":fd,"entries":entries,"flags":flags}));
                }
            }
        }
        _ => panic!("usage"),
    }
    out.flush();
}
