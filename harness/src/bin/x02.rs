//! X02 driver: small parsers and conversions no listed property claims.
//!
//!   x02 passwd <vectors.ndjson> [start]   getpwuid_r over a bind-mounted /etc/passwd (own mount namespace)
//!        {"F":[byte..],"uid":n,"B":buffer size,"pre":"zero"|"nl"|"decoy"}
//!   x02 strlen <vectors.ndjson> [start]   buf_strlen / strlen, operand ends at a PROT_NONE page
//!        {"b":[byte..]}
//!   x02 num <vectors.ndjson> [start]      NonNegativeI32, ClockId, Mode, TimeSpec::try_from(Duration)
//!   x02 prng <vectors.ndjson> [start]     Prng::new(seed): next_u64 x n, twice, and through Iterator
//!   x02 hostname <vectors.ndjson> [start] host_name() in an own UTS namespace after sethostname(bytes)
//!   x02 pty <count>                       openpty(None, None, None) count times on a fresh devpts instance
//!
//! Every vector mode runs its vectors in a forked child.  A vector that spins (10 ms of CPU time,
//! ITIMER_PROF) or faults is DATA: the child writes {"i":k,"r":"hang"|"crash"} and exits, the parent
//! forks the next child behind it.  Panics are caught (catch_unwind) and reported as {"r":"panic"}.
#![allow(clippy::all)]
#![allow(static_mut_refs)]
use std::io::BufRead;
use std::time::Duration;
use vharness::{guarded, json, quiet_panics, Value};

static mut CUR: *mut u64 = std::ptr::null_mut();

fn put(v: &Value) {
    let mut s = serde_json::to_string(v).unwrap();
    s.push('\n');
    unsafe {
        libc::write(1, s.as_ptr().cast(), s.len());
    }
}
extern "C" fn on_prof(_sig: i32) {
    unsafe {
        let msg = format!("{{\"i\":{},\"r\":\"hang\"}}\n", *CUR);
        libc::write(1, msg.as_ptr().cast(), msg.len());
        libc::_exit(43);
    }
}
extern "C" fn on_segv(_sig: i32) {
    unsafe {
        let msg = format!("{{\"i\":{},\"r\":\"crash\"}}\n", *CUR);
        libc::write(1, msg.as_ptr().cast(), msg.len());
        libc::_exit(42);
    }
}
fn arm(ms: i64) {
    let it = libc::itimerval {
        it_interval: libc::timeval { tv_sec: 0, tv_usec: 0 },
        it_value: libc::timeval { tv_sec: ms / 1000, tv_usec: (ms % 1000) * 1000 },
    };
    unsafe {
        libc::setitimer(libc::ITIMER_PROF, &it, std::ptr::null_mut());
    }
}

/// Runs `f(i, vector)` for every vector from `start` on, in forked children (see module doc).
fn run_vectors(path: &str, start: usize, mut f: impl FnMut(usize, &Value) -> Value) {
    let file = std::io::BufReader::new(std::fs::File::open(path).unwrap());
    let vecs: Vec<Value> = file.lines().map(|l| serde_json::from_str(&l.unwrap()).unwrap()).collect();
    unsafe {
        CUR = libc::mmap(std::ptr::null_mut(), 4096, libc::PROT_READ | libc::PROT_WRITE,
                         libc::MAP_SHARED | libc::MAP_ANONYMOUS, -1, 0).cast();
        assert!(CUR as isize != -1);
    }
    let mut i = start;
    while i < vecs.len() {
        let pid = unsafe { libc::fork() };
        assert!(pid >= 0);
        if pid == 0 {
            unsafe {
                libc::signal(libc::SIGPROF, on_prof as usize);
                libc::signal(libc::SIGSEGV, on_segv as usize);
                libc::signal(libc::SIGBUS, on_segv as usize);
            }
            for k in i..vecs.len() {
                unsafe {
                    *CUR = k as u64;
                }
                arm(10);
                let mut r = f(k, &vecs[k]);
                arm(0);
                r["i"] = json!(k);
                put(&r);
            }
            unsafe { libc::_exit(0) };
        }
        let mut st = 0;
        unsafe {
            libc::waitpid(pid, &mut st, 0);
        }
        if libc::WIFEXITED(st) && libc::WEXITSTATUS(st) == 0 {
            break;
        }
        if libc::WIFEXITED(st) && (libc::WEXITSTATUS(st) == 43 || libc::WEXITSTATUS(st) == 42) {
            i = unsafe { *CUR } as usize + 1;
            continue;
        }
        // killed by something else: report the vector as a crash and go on
        let k = unsafe { *CUR } as usize;
        put(&json!({"i": k, "r": "crash", "status": st}));
        i = k + 1;
    }
}

/// `n` bytes that END at a PROT_NONE page.
struct Guarded {
    base: *mut u8,
    size: usize,
}
impl Guarded {
    fn new(size: usize) -> Self {
        let size = (size + 4095) / 4096 * 4096 + 4096;
        unsafe {
            let p = libc::mmap(std::ptr::null_mut(), size + 4096, libc::PROT_READ | libc::PROT_WRITE,
                               libc::MAP_PRIVATE | libc::MAP_ANONYMOUS, -1, 0);
            assert!(p != libc::MAP_FAILED);
            assert_eq!(0, libc::mprotect(p.cast::<u8>().add(size).cast(), 4096, libc::PROT_NONE));
            Guarded { base: p.cast(), size }
        }
    }
    fn tail(&self, n: usize) -> &'static mut [u8] {
        assert!(n <= self.size);
        unsafe { std::slice::from_raw_parts_mut(self.base.add(self.size - n), n) }
    }
}
fn bytes_of(v: &Value) -> Vec<u8> {
    v.as_array().unwrap().iter().map(|x| x.as_u64().unwrap() as u8).collect()
}
fn bv(b: &[u8]) -> Value {
    Value::Array(b.iter().map(|x| json!(*x)).collect())
}
fn cstr(s: &str) -> std::ffi::CString {
    std::ffi::CString::new(s).unwrap()
}

// ---------------------------------------------------------------------------------------- passwd
const DECOY: &[u8] = b"z:x:9:9::/:/z\n";
fn passwd_mode(path: &str, start: usize) {
    use tiny_std::unix::passwd::getpw_r::getpwuid_r;
    let tmp = format!("/tmp/x02-passwd-{}", std::process::id());
    std::fs::write(&tmp, b"").unwrap();
    unsafe {
        if libc::unshare(libc::CLONE_NEWNS) != 0
            || libc::mount(std::ptr::null(), cstr("/").as_ptr(), std::ptr::null(), libc::MS_REC | libc::MS_PRIVATE, std::ptr::null()) != 0
            || libc::mount(cstr(&tmp).as_ptr(), cstr("/etc/passwd").as_ptr(), std::ptr::null(), libc::MS_BIND, std::ptr::null()) != 0
        {
            eprintln!("cannot set up the mount namespace: {}", std::io::Error::last_os_error());
            std::process::exit(3);
        }
    }
    let g = Guarded::new(1 << 16);
    let mut last: Option<Vec<u8>> = None;
    run_vectors(path, start, |_i, v| {
        let file = bytes_of(&v["F"]);
        if last.as_ref() != Some(&file) {
            std::fs::write("/etc/passwd", &file).unwrap();
            last = Some(file);
        }
        let uid = v["uid"].as_u64().unwrap() as u32;
        let buf = g.tail(v["B"].as_u64().unwrap() as usize);
        match v["pre"].as_str().unwrap() {
            "zero" => buf.fill(0),
            "nl" => buf.fill(b'\n'),
            _ => buf.iter_mut().enumerate().for_each(|(i, b)| *b = DECOY[i % DECOY.len()]),
        }
        let r = guarded(|| match getpwuid_r(uid, buf) {
            Ok(Some(p)) => json!({"r": "some", "f": [bv(p.name.as_bytes()), bv(p.passwd.as_bytes()),
                bv(p.uid.to_string().as_bytes()), bv(p.gid.to_string().as_bytes()), bv(p.gecos.as_bytes()),
                bv(p.dir.as_bytes()), bv(p.shell.as_bytes())]}),
            Ok(None) => json!({"r": "none"}),
            Err(e) => json!({"r": "err", "msg": format!("{e:?}")}),
        });
        r.unwrap_or_else(|m| json!({"r": "panic", "msg": m}))
    });
    let _ = std::fs::remove_file(&tmp);
}

// ---------------------------------------------------------------------------------------- strlen
fn strlen_mode(path: &str, start: usize) {
    use rusl::string::strlen::{buf_strlen, strlen};
    let g = Guarded::new(1 << 20);
    run_vectors(path, start, |_i, v| {
        let b = bytes_of(&v["b"]);
        let slot = g.tail(b.len());
        slot.copy_from_slice(&b);
        let slot: &'static [u8] = slot;
        let bs = guarded(|| match buf_strlen(slot) {
            Ok(n) => json!([1, n]),
            Err(_) => json!([2]),
        })
        .unwrap_or_else(|_| json!([3]));
        // strlen's contract needs a terminator inside the operand
        let sl = if b.contains(&0) {
            guarded(|| json!([1, unsafe { strlen(slot.as_ptr()) }])).unwrap_or_else(|_| json!([3]))
        } else {
            Value::Null
        };
        json!({"r": "ok", "buf_strlen": bs, "strlen": sl})
    });
}

// ---------------------------------------------------------------------------------------- numbers
fn num_mode(path: &str, start: usize) {
    use rusl::platform::{ClockId, Mode, NonNegativeI32, TimeSpec};
    run_vectors(path, start, |_i, v| {
        let op = v["op"].as_str().unwrap().to_string();
        let a = v["a"].as_i64().unwrap_or(0);
        let b = v["b"].as_i64().unwrap_or(0);
        let r = guarded(|| match op.as_str() {
            "try_new" => match NonNegativeI32::try_new(a as i32) {
                Ok(n) => json!({"ok": true, "value": n.value(), "u32": n.into_u32(), "u64": n.into_u64().to_string(),
                                "u128": n.into_u128().to_string(), "usize": n.into_usize().to_string(), "display": n.to_string()}),
                Err(e) => json!({"ok": false, "err": e}),
            },
            "comptime" => json!({"ok": true, "value": NonNegativeI32::comptime_checked_new(a as i32).value()}),
            "bits" => {
                let (x, y) = (NonNegativeI32::try_new(a as i32).unwrap(), NonNegativeI32::try_new(b as i32).unwrap());
                let (mut ax, mut ox) = (x, x);
                ax &= y;
                ox |= y;
                json!({"ok": true, "and": (x & y).value(), "or": (x | y).value(), "and_assign": ax.value(), "or_assign": ox.value(),
                       "cmp": format!("{:?}", x.cmp(&y)), "eq": x == y})
            }
            "consts" => json!({"ok": true, "max": NonNegativeI32::MAX.value(), "zero": NonNegativeI32::ZERO.value(),
                               "default": NonNegativeI32::default().value()}),
            "clockid" => json!({"ok": true, "from": ClockId::from(a as i32).into_i32(), "from_raw": ClockId::from_raw(a as i32).into_i32()}),
            "mode" => json!({"ok": true, "bits": Mode::from(a as u32).bits()}),
            "timespec" => {
                let secs: u64 = v["secs"].as_str().unwrap().parse().unwrap();
                let nanos = v["nanos"].as_u64().unwrap() as u32;
                match TimeSpec::try_from(Duration::new(secs, nanos)) {
                    Ok(t) => json!({"ok": true, "sec": t.seconds().to_string(), "nsec": t.nanoseconds()}),
                    Err(_) => json!({"ok": false}),
                }
            }
            _ => panic!("unknown op"),
        });
        match r {
            Ok(mut x) => {
                x["r"] = json!("ok");
                x
            }
            Err(m) => json!({"r": "panic", "msg": m}),
        }
    });
}

// ---------------------------------------------------------------------------------------- prng
fn prng_mode(path: &str, start: usize) {
    use tiny_std::unix::random::Prng;
    run_vectors(path, start, |_i, v| {
        let seed: u64 = v["seed"].as_str().unwrap().parse().unwrap();
        let n = v["n"].as_u64().unwrap() as usize;
        let r = guarded(|| {
            let mut p1 = Prng::new(seed);
            let mut p2 = Prng::new(seed);
            let a: Vec<String> = (0..n).map(|_| p1.next_u64().to_string()).collect();
            let b: Vec<String> = (0..n).map(|_| p2.next_u64().to_string()).collect();
            let c: Vec<String> = Prng::new(seed).take(n).map(|x| x.to_string()).collect();
            json!({"r": "ok", "a": a, "b": b, "iter": c})
        });
        r.unwrap_or_else(|m| json!({"r": "panic", "msg": m}))
    });
}

// ---------------------------------------------------------------------------------------- hostname
fn hostname_mode(path: &str, start: usize) {
    unsafe {
        if libc::unshare(libc::CLONE_NEWUTS) != 0 {
            eprintln!("cannot unshare the UTS namespace: {}", std::io::Error::last_os_error());
            std::process::exit(3);
        }
    }
    run_vectors(path, start, |_i, v| {
        let name = bytes_of(&v["name"]);
        if unsafe { libc::sethostname(name.as_ptr().cast(), name.len()) } != 0 {
            return json!({"r": "refused"});
        }
        let r = guarded(|| match tiny_std::unix::host_name::host_name() {
            Ok(s) => json!({"r": "ok", "name": bv(s.as_bytes())}),
            Err(_) => json!({"r": "err"}),
        });
        r.unwrap_or_else(|m| json!({"r": "panic", "msg": m}))
    });
}

// ---------------------------------------------------------------------------------------- pty
fn pty_mode(count: usize) {
    use tiny_std::unix::misc::openpty::openpty;
    unsafe {
        if libc::unshare(libc::CLONE_NEWNS) != 0
            || libc::mount(std::ptr::null(), cstr("/").as_ptr(), std::ptr::null(), libc::MS_REC | libc::MS_PRIVATE, std::ptr::null()) != 0
            || libc::mount(cstr("devpts").as_ptr(), cstr("/dev/pts").as_ptr(), cstr("devpts").as_ptr(), 0,
                           cstr("newinstance,ptmxmode=0666,mode=0620").as_ptr().cast()) != 0
        {
            eprintln!("cannot set up a devpts instance: {}", std::io::Error::last_os_error());
            std::process::exit(3);
        }
        // /dev/ptmx must be the multiplexer of the new instance
        if libc::mount(cstr("/dev/pts/ptmx").as_ptr(), cstr("/dev/ptmx").as_ptr(), std::ptr::null(), libc::MS_BIND, std::ptr::null()) != 0 {
            eprintln!("cannot bind /dev/pts/ptmx: {}", std::io::Error::last_os_error());
            std::process::exit(3);
        }
    }
    let mut keep = Vec::new();
    for k in 0..count {
        let r = guarded(|| match openpty(None, None, None) {
            Ok(h) => {
                let mut n: i32 = -1;
                unsafe {
                    libc::ioctl(h.master.value(), libc::TIOCGPTN, &mut n);
                }
                let link = std::fs::read_link(format!("/proc/self/fd/{}", h.slave.value()))
                    .map(|p| p.to_string_lossy().into_owned()).unwrap_or_default();
                unsafe {
                    libc::close(h.slave.value());
                }
                (Some(h.master.value()), json!({"r": "ok", "ptn": n, "slave": link}))
            }
            Err(e) => (None, json!({"r": "err", "msg": format!("{e:?}")})),
        });
        let mut v = match r {
            Ok((m, v)) => {
                if let Some(m) = m {
                    keep.push(m);
                }
                v
            }
            Err(m) => json!({"r": "panic", "msg": m}),
        };
        v["k"] = json!(k);
        // without a slave the kernel still handed out the number: find it from the masters we hold
        put(&v);
    }
}

fn main() {
    quiet_panics();
    let argv: Vec<String> = std::env::args().collect();
    let start: usize = argv.get(3).and_then(|s| s.parse().ok()).unwrap_or(0);
    match argv[1].as_str() {
        "passwd" => passwd_mode(&argv[2], start),
        "strlen" => strlen_mode(&argv[2], start),
        "num" => num_mode(&argv[2], start),
        "prng" => prng_mode(&argv[2], start),
        "hostname" => hostname_mode(&argv[2], start),
        "pty" => pty_mode(argv[2].parse().unwrap()),
        _ => panic!("usage"),
    }
}
