//! C09 driver: calls every raw system-call wrapper of rusl with benign arguments between two
//! markers while tools/sysinj forces the kernel's answers, and prints the decoded `Result`.
//!
//! usage: sysw list                         one JSON line per wrapper {w, fn, nr, kind, retry, pass}
//!        sysw run <plan.ndjson> [start]    plan lines {"i":n,"w":"unistd.open","raws":["-16","0"]}
//!                                          (raws = decimal text of the 64-bit answers to force);
//!                                          stdout: {"i":n,"w":..,"tag":"unit|val|err|errnocode|none","v":"<u64>","code":n}
//!
//! Between the begin and the end marker nothing but the wrapper runs (no allocation, no
//! formatting): the tracer attributes every system call issued from the executable's text in
//! that window to the wrapper.  Marker: write(-1, "MARK:<w>:begin:force=<nr>/<mode>/<v1>;<v2>..").
//! mode `s` = the call is suppressed, `p` = it is executed and its result overwritten (used
//! for successes of wrappers that validate what the kernel wrote: pipe2).
use std::io::{BufRead, Write};
use std::num::NonZeroUsize;
use std::sync::atomic::AtomicU32;

use rusl::platform::{
    AddressFamily, ClockId, Clone3Args, CloneArgs, CloneFlags, EpollEvent, EpollEventMask, EpollOp, Fd,
    FilesystemType, FutexFlags, IoSlice, IoSliceMut, IoUringEnterFlags, IoUringParamFlags, IoUringParams,
    MapAdditionalFlags, MapRequiredFlag, MemoryProtection, Mode, Mountflags, MsgHdrBorrow, OpenFlags,
    PollEvents, PollFd, RenameFlags, SetAction, SocketAddressInet, SocketAddressUnix, SocketFlags,
    SocketOptions, SocketType, Termios, TimeSpec, WaitPidFlags,
};
use rusl::string::unix_str::UnixStr;
use vharness::{json, Value};

#[derive(Clone, Copy)]
enum R {
    Unit,
    Val(u64),
    Err(Option<i32>),
    None,
}

fn u<T>(r: rusl::Result<T>) -> R {
    match r {
        Ok(_) => R::Unit,
        Err(e) => R::Err(e.code.map(|c| c.raw())),
    }
}
fn v(r: rusl::Result<u64>) -> R {
    match r {
        Ok(x) => R::Val(x),
        Err(e) => R::Err(e.code.map(|c| c.raw())),
    }
}
/// i32-like success values are reported sign-extended to 64 bits
fn s32(x: i32) -> u64 {
    i64::from(x) as u64
}

struct W {
    id: String,
    /// public function(s) of rusl (path below rusl/src) that this entry calls
    func: &'static str,
    nr: &'static str,
    kind: &'static str,
    retry: &'static str,
    /// successes are forced in pass-through mode
    pass: bool,
    /// which value of an enum / flag / degenerate argument this entry exercises ("" = the benign default)
    variant: String,
    call: Box<dyn FnMut() -> R>,
}

fn leak<T>(x: T) -> &'static mut T {
    Box::leak(Box::new(x))
}

#[allow(clippy::too_many_lines)]
fn table() -> Vec<W> {
    let mut t: Vec<W> = Vec::new();
    macro_rules! w {
        ($id:expr, $func:expr, $nr:expr, $kind:expr, $call:expr) => {
            t.push(W { id: $id.to_string(), func: $func, nr: $nr, kind: $kind, retry: "none", pass: false, variant: String::new(), call: Box::new($call) })
        };
    }
    let fd = Fd::try_new(1000).unwrap(); // never reaches the kernel when the call is suppressed
    let fd2 = Fd::try_new(1001).unwrap();
    let path: &'static UnixStr = UnixStr::from_str_checked("/nonexistent-sysw\0");
    let path2: &'static UnixStr = UnixStr::from_str_checked("/nonexistent-sysw2\0");
    let rflags = OpenFlags::O_RDONLY;
    let mode = Mode::empty();

    // --- termios
    w!("termios.tcgetattr", "termios/tcgetattr.rs:tcgetattr", "ioctl", "unit", move || u(rusl::termios::tcgetattr(fd)));
    let tio: &'static Termios = leak(unsafe { core::mem::zeroed::<Termios>() });
    w!("termios.tcsetattr", "termios/tcsetattr.rs:tcsetattr", "ioctl", "unit", move || u(rusl::termios::tcsetattr(fd, SetAction::NOW, tio)));
    // --- process
    w!("process.fork", "process/clone.rs:fork", "fork", "i32", move || v(unsafe { rusl::process::fork() }.map(s32)));
    let cargs: &'static CloneArgs = leak(CloneArgs::new(CloneFlags::empty()));
    w!("process.clone", "process/clone.rs:clone", "clone", "i32", move || v(unsafe { rusl::process::clone(cargs) }.map(s32)));
    let c3args: &'static mut Clone3Args = leak(Clone3Args::new(CloneFlags::empty()));
    w!("process.clone3", "process/clone.rs:clone3", "clone3", "u64", move || v(unsafe { rusl::process::clone3(c3args) }));
    w!("process.get_pid", "process/get_pid.rs:get_pid", "getpid", "nofail", move || R::Val(s32(rusl::process::get_pid())));
    w!("process.wait_pid", "process/wait.rs:wait_pid", "wait4", "i32", move || v(rusl::process::wait_pid(-1, WaitPidFlags::empty()).map(|r| s32(r.pid))));
    w!("process.add_signal_action", "process/signal.rs:add_signal_action", "rt_sigaction", "unit", move || u(unsafe {
        rusl::process::add_signal_action(rusl::process::CatchSignal::Hup, rusl::process::SaSignalaction::Dfl)
    }));
    w!("process.execve", "process/execve.rs:execve", "execve", "noreturn", move || u(unsafe { rusl::process::execve(path, core::ptr::null(), core::ptr::null()) }));
    // --- ioctl
    w!("ioctl.ioctl", "ioctl.rs:ioctl", "ioctl", "usize", move || v(unsafe { rusl::ioctl::ioctl(fd, 0x5401, 0) }.map(|x| x as u64)));
    // --- ioctl-based helpers (no syscall! site of their own: they go through ioctl::ioctl)
    w!("hidio.get_hid_dev_dev_info", "hidio.rs:get_hid_dev_dev_info", "ioctl", "unit", move || u(rusl::hidio::get_hid_dev_dev_info(fd)));
    let usbbuf: &'static mut [u8; 16] = leak([0u8; 16]);
    w!("usb.bulk_transfer", "usb.rs:bulk_transfer", "ioctl", "usize", move || v(rusl::usb::bulk_transfer(fd, 1, &mut usbbuf[..], 10).map(|x| x as u64)));
    w!("usb.claim_interface", "usb.rs:claim_interface", "ioctl", "unit", move || u(rusl::usb::claim_interface(fd, 0)));
    w!("usb.reset_usb_device", "usb.rs:reset_usb_device", "ioctl", "unit", move || u(rusl::usb::reset_usb_device(fd)));
    w!("usb.release_interface", "usb.rs:release_interface", "ioctl", "unit", move || u(rusl::usb::release_interface(fd, 0)));
    // --- unistd: open family
    w!("unistd.open_raw", "unistd/open.rs:open_raw", "openat", "i32", move || v(unsafe { rusl::unistd::open_raw(path.as_ptr() as usize, rflags) }.map(|f| s32(f.value()))));
    w!("unistd.open", "unistd/open.rs:open", "openat", "i32", move || v(rusl::unistd::open(path, rflags).map(|f| s32(f.value()))));
    w!("unistd.open_mode", "unistd/open.rs:open_mode", "openat", "i32", move || v(rusl::unistd::open_mode(path, rflags, mode).map(|f| s32(f.value()))));
    w!("unistd.open_at", "unistd/open.rs:open_at", "openat", "i32", move || v(rusl::unistd::open_at(fd, path, rflags).map(|f| s32(f.value()))));
    w!("unistd.open_at_mode", "unistd/open.rs:open_at_mode", "openat", "i32", move || v(rusl::unistd::open_at_mode(fd, path, rflags, mode).map(|f| s32(f.value()))));
    w!("unistd.unshare", "unistd/unshare.rs:unshare", "unshare", "unit", move || u(rusl::unistd::unshare(CloneFlags::empty())));
    w!("unistd.lseek", "unistd/seek.rs:lseek", "lseek", "i64", move || v(rusl::unistd::lseek(fd, 0, rusl::unistd::Whence::SET).map(|x| x as u64)));
    w!("unistd.fcntl_get_file_status", "unistd/fcntl.rs:fcntl_get_file_status", "fcntl", "i32", move || v(rusl::unistd::fcntl_get_file_status(fd).map(|f| s32(f.bits().value()))));
    w!("unistd.fcntl_set_file_status", "unistd/fcntl.rs:fcntl_set_file_status", "fcntl", "unit", move || u(rusl::unistd::fcntl_set_file_status(fd, rflags)));
    w!("unistd.mount.data", "unistd/mount.rs:mount", "mount", "unit", move || u(rusl::unistd::mount(path, path2, FilesystemType::TMPFS, Mountflags::empty(), Some(path))));
    w!("unistd.mount.nodata", "unistd/mount.rs:mount", "mount", "unit", move || u(rusl::unistd::mount(path, path2, FilesystemType::TMPFS, Mountflags::empty(), None)));
    w!("unistd.unmount", "unistd/mount.rs:unmount", "umount2", "unit", move || u(rusl::unistd::unmount(path)));
    w!("unistd.unlink", "unistd/unlink.rs:unlink", "unlinkat", "unit", move || u(rusl::unistd::unlink(path)));
    w!("unistd.unlink_flags", "unistd/unlink.rs:unlink_flags", "unlinkat", "unit", move || u(rusl::unistd::unlink_flags(path, rusl::unistd::UnlinkFlags::at_removedir())));
    w!("unistd.unlink_at", "unistd/unlink.rs:unlink_at", "unlinkat", "unit", move || u(rusl::unistd::unlink_at(fd, path, rusl::unistd::UnlinkFlags::empty())));
    w!("unistd.rmdir", "unistd/unlink.rs:rmdir", "unlinkat", "unit", move || u(rusl::unistd::rmdir(fd)));
    let rbuf: &'static mut [u8; 64] = leak([0u8; 64]);
    w!("unistd.read", "unistd/read.rs:read", "read", "usize", move || v(rusl::unistd::read(fd, &mut rbuf[..]).map(|x| x as u64)));
    let rvbuf: &'static mut [u8; 64] = leak([0u8; 64]);
    let iom: &'static mut [IoSliceMut<'static>; 1] = leak([IoSliceMut::new(&mut rvbuf[..])]);
    w!("unistd.readv", "unistd/read.rs:readv", "readv", "usize", move || v(rusl::unistd::readv(fd, &mut iom[..]).map(|x| x as u64)));
    w!("unistd.swapon", "unistd/swapon.rs:swapon", "swapon", "unit", move || u(rusl::unistd::swapon(path, 0)));
    w!("unistd.rename", "unistd/rename.rs:rename", "renameat2", "unit", move || u(rusl::unistd::rename(path, path2)));
    w!("unistd.rename_flags", "unistd/rename.rs:rename_flags", "renameat2", "unit", move || u(rusl::unistd::rename_flags(path, path2, RenameFlags::empty())));
    w!("unistd.rename_at", "unistd/rename.rs:rename_at", "renameat2", "unit", move || u(rusl::unistd::rename_at(fd, path, fd2, path2)));
    w!("unistd.rename_at2", "unistd/rename.rs:rename_at2", "renameat2", "unit", move || u(rusl::unistd::rename_at2(fd, path, fd2, path2, RenameFlags::empty())));
    t.push(W { id: "unistd.dup2".to_string(), func: "unistd/dup.rs:dup2", nr: "dup3", kind: "unit", retry: "ebusy", pass: false, variant: String::new(), call: Box::new(move || u(rusl::unistd::dup2(fd, fd2))) });
    t.push(W { id: "unistd.dup3".to_string(), func: "unistd/dup.rs:dup3", nr: "dup3", kind: "unit", retry: "ebusy", pass: false, variant: String::new(), call: Box::new(move || u(rusl::unistd::dup3(fd, fd2, true))) });
    w!("unistd.copy_file_range", "unistd/copy_file_range.rs:copy_file_range", "copy_file_range", "usize", move || v(rusl::unistd::copy_file_range(fd, 0, fd2, 0, 16).map(|x| x as u64)));
    w!("unistd.setgid", "unistd/setgid.rs:setgid", "setgid", "unit", move || u(rusl::unistd::setgid(0)));
    w!("unistd.setuid", "unistd/setuid.rs:setuid", "setuid", "unit", move || u(rusl::unistd::setuid(0)));
    w!("unistd.setpgid", "unistd/setpgid.rs:setpgid", "setpgid", "unit", move || u(rusl::unistd::setpgid(0, 0)));
    w!("unistd.setsid", "unistd/setsid.rs:setsid", "setsid", "unit", move || u(rusl::unistd::setsid()));
    let wbuf: &'static [u8; 8] = leak([7u8; 8]);
    w!("unistd.write", "unistd/write.rs:write", "write", "usize", move || v(rusl::unistd::write(fd, &wbuf[..]).map(|x| x as u64)));
    let ios: &'static [IoSlice<'static>; 1] = leak([IoSlice::new(&wbuf[..])]);
    w!("unistd.writev", "unistd/write.rs:writev", "writev", "usize", move || v(rusl::unistd::writev(fd, &ios[..]).map(|x| x as u64)));
    // pipe/pipe2 validate the descriptors the kernel wrote: successes run the real call (closed again at once)
    t.push(W { id: "unistd.pipe".to_string(), func: "unistd/pipe.rs:pipe", nr: "pipe2", kind: "unit", retry: "none", pass: true, variant: String::new(), call: Box::new(move || {
        let r = rusl::unistd::pipe();
        if let Ok(p) = &r {
            unsafe { libc::close(p.in_pipe.value()); libc::close(p.out_pipe.value()); }
        }
        u(r)
    }) });
    t.push(W { id: "unistd.pipe2".to_string(), func: "unistd/pipe.rs:pipe2", nr: "pipe2", kind: "unit", retry: "none", pass: true, variant: String::new(), call: Box::new(move || {
        let r = rusl::unistd::pipe2(OpenFlags::O_CLOEXEC);
        if let Ok(p) = &r {
            unsafe { libc::close(p.in_pipe.value()); libc::close(p.out_pipe.value()); }
        }
        u(r)
    }) });
    w!("unistd.chdir", "unistd/chdir.rs:chdir", "chdir", "unit", move || u(rusl::unistd::chdir(path)));
    let dbuf: &'static mut [u8; 256] = leak([0u8; 256]);
    w!("unistd.get_dents", "unistd/get_dents.rs:get_dents", "getdents64", "usize", move || v(rusl::unistd::get_dents(fd, &mut dbuf[..]).map(|x| x as u64)));
    w!("unistd.mmap", "unistd/mmap.rs:mmap", "mmap", "usize", move || v(unsafe {
        rusl::unistd::mmap(None, NonZeroUsize::new(4096).unwrap(), MemoryProtection::PROT_READ, MapRequiredFlag::MapPrivate, MapAdditionalFlags::MAP_ANONYMOUS, None, 0)
    }.map(|x| x as u64)));
    w!("unistd.munmap", "unistd/mmap.rs:munmap", "munmap", "unit", move || u(unsafe { rusl::unistd::munmap(0x1000, NonZeroUsize::new(4096).unwrap()) }));
    w!("unistd.close", "unistd/close.rs:close", "close", "unit", move || u(rusl::unistd::close(fd)));
    w!("unistd.uname", "unistd/uname.rs:uname", "uname", "unit", move || u(rusl::unistd::uname()));
    w!("unistd.get_uid", "unistd/getuid.rs:get_uid", "getuid", "u32", move || v(rusl::unistd::get_uid().map(u64::from)));
    w!("unistd.mkdir", "unistd/mkdir.rs:mkdir", "mkdirat", "unit", move || u(rusl::unistd::mkdir(path, mode)));
    w!("unistd.mkdir_at", "unistd/mkdir.rs:mkdir_at", "mkdirat", "unit", move || u(rusl::unistd::mkdir_at(fd, path, mode)));
    w!("unistd.stat", "unistd/stat.rs:stat", "newfstatat", "unit", move || u(rusl::unistd::stat(path)));
    w!("unistd.statat", "unistd/stat.rs:statat", "newfstatat", "unit", move || u(rusl::unistd::statat(fd, path)));
    w!("unistd.stat_fd", "unistd/stat.rs:stat_fd", "newfstatat", "unit", move || u(rusl::unistd::stat_fd(fd)));
    // --- network
    let sun: &'static rusl::platform::SocketArgUnix = leak(SocketAddressUnix::try_from_unix(path).unwrap());
    let sin: &'static SocketAddressInet = leak(SocketAddressInet::new([127, 0, 0, 1], 9));
    w!("network.connect_unix", "network/connect.rs:connect_unix", "connect", "unit", move || u(rusl::network::connect_unix(fd, sun)));
    w!("network.connect_inet", "network/connect.rs:connect_inet", "connect", "unit", move || u(rusl::network::connect_inet(fd, sin)));
    w!("network.listen", "network/listen.rs:listen", "listen", "unit", move || u(rusl::network::listen(fd, Fd::try_new(8).unwrap())));
    w!("network.bind_unix", "network/bind.rs:bind_unix", "bind", "unit", move || u(rusl::network::bind_unix(fd, sun)));
    w!("network.bind_inet", "network/bind.rs:bind_inet", "bind", "unit", move || u(rusl::network::bind_inet(fd, sin)));
    w!("network.socket", "network/socket.rs:socket", "socket", "i32", move || v(rusl::network::socket(AddressFamily::AF_UNIX, SocketOptions::new(SocketType::SOCK_STREAM, SocketFlags::empty()), 0).map(|f| s32(f.value()))));
    w!("network.get_unix_sock_name", "network/socket.rs:get_unix_sock_name", "getsockname", "unit", move || u(rusl::network::get_unix_sock_name(fd)));
    w!("network.get_inet_sock_name", "network/socket.rs:get_inet_sock_name", "getsockname", "unit", move || u(rusl::network::get_inet_sock_name(fd)));
    let send = leak(MsgHdrBorrow::create_send(None, &ios[..], None));
    w!("network.sendmsg", "network/socket.rs:sendmsg", "sendmsg", "usize", move || v(rusl::network::sendmsg(fd, send, 0).map(|x| x as u64)));
    let rmbuf: &'static mut [u8; 64] = leak([0u8; 64]);
    let riom: &'static mut [IoSliceMut<'static>; 1] = leak([IoSliceMut::new(&mut rmbuf[..])]);
    let recv = leak(MsgHdrBorrow::create_recv(&mut riom[..], None));
    w!("network.recvmsg", "network/socket.rs:recvmsg", "recvmsg", "usize", move || v(rusl::network::recvmsg(fd, recv, 0).map(|x| x as u64)));
    w!("network.accept_unix", "network/accept.rs:accept_unix", "accept4", "i32", move || v(rusl::network::accept_unix(fd, SocketFlags::empty()).map(|(f, _)| s32(f.value()))));
    w!("network.accept_inet", "network/accept.rs:accept_inet", "accept4", "i32", move || v(rusl::network::accept_inet(fd, SocketFlags::empty()).map(|(f, _)| s32(f.value()))));
    // --- select
    let pfds: &'static mut [PollFd; 1] = leak([PollFd::new(fd, PollEvents::POLLIN)]);
    let zero_ts: &'static TimeSpec = leak(TimeSpec::new_zeroed());
    w!("select.ppoll", "select/poll.rs:ppoll", "ppoll", "usize", move || v(rusl::select::ppoll(&mut pfds[..], Some(zero_ts), None).map(|x| x as u64)));
    w!("select.epoll_create", "select/epoll.rs:epoll_create", "epoll_create1", "i32", move || v(rusl::select::epoll_create(true).map(|f| s32(f.value()))));
    let eev: &'static EpollEvent = leak(EpollEvent::new(1, EpollEventMask::EPOLLIN));
    w!("select.epoll_ctl", "select/epoll.rs:epoll_ctl", "epoll_ctl", "unit", move || u(rusl::select::epoll_ctl(fd, EpollOp::Add, fd2, eev)));
    w!("select.epoll_del", "select/epoll.rs:epoll_del", "epoll_ctl", "unit", move || u(rusl::select::epoll_del(fd, fd2)));
    let eevs: &'static mut [EpollEvent; 2] = leak([EpollEvent::new(0, EpollEventMask::EPOLLIN); 2]);
    w!("select.epoll_wait", "select/epoll.rs:epoll_wait", "epoll_pwait", "usize", move || v(rusl::select::epoll_wait(fd, &mut eevs[..], 0).map(|x| x as u64)));
    // --- futex
    let fut: &'static AtomicU32 = leak(AtomicU32::new(0));
    w!("futex.futex_wait", "futex.rs:futex_wait", "futex", "unit", move || u(rusl::futex::futex_wait(fut, 1, FutexFlags::PRIVATE, None)));
    w!("futex.futex_wake", "futex.rs:futex_wake", "futex", "usize", move || v(rusl::futex::futex_wake(fut, 1).map(|x| x as u64)));
    // --- io_uring
    let iup: &'static mut IoUringParams = leak(IoUringParams::new(IoUringParamFlags::empty(), 0, 0));
    w!("io_uring.io_uring_setup", "io_uring.rs:io_uring_setup", "io_uring_setup", "i32", move || v(rusl::io_uring::io_uring_setup(4, iup).map(|f| s32(f.value()))));
    let regfds: &'static [Fd; 1] = leak([fd2]);
    w!("io_uring.io_uring_register_files", "io_uring.rs:io_uring_register_files", "io_uring_register", "unit", move || u(rusl::io_uring::io_uring_register_files(fd, &regfds[..])));
    let ubuf: &'static mut [u8; 64] = leak([0u8; 64]);
    let uiom: &'static [IoSliceMut<'static>; 1] = leak([IoSliceMut::new(&mut ubuf[..])]);
    w!("io_uring.io_uring_register_io_slices", "io_uring.rs:io_uring_register_io_slices", "io_uring_register", "unit", move || u(rusl::io_uring::io_uring_register_io_slices(fd, &uiom[..])));
    w!("io_uring.io_uring_register_buffers", "io_uring.rs:io_uring_register_buffers", "io_uring_register", "unit", move || u(unsafe { rusl::io_uring::io_uring_register_buffers(fd, &uiom[..]) }));
    w!("io_uring.io_uring_enter", "io_uring.rs:io_uring_enter", "io_uring_enter", "usize", move || v(rusl::io_uring::io_uring_enter(fd, 0, 0, IoUringEnterFlags::empty()).map(|x| x as u64)));
    // --- time
    let ts1: &'static TimeSpec = leak(TimeSpec::new(0, 1));
    w!("time.nanosleep", "time/sleep.rs:nanosleep", "nanosleep", "unit", move || u(rusl::time::nanosleep(ts1, None)));
    let ts2: &'static mut TimeSpec = leak(TimeSpec::new(0, 1));
    w!("time.nanosleep_same_ptr", "time/sleep.rs:nanosleep_same_ptr", "nanosleep", "unit", move || u(rusl::time::nanosleep_same_ptr(ts2)));
    // --- the other arm of Option / bool arguments (same site, other marshalling path)
    w!("select.epoll_create.nocloexec", "select/epoll.rs:epoll_create", "epoll_create1", "i32", move || v(rusl::select::epoll_create(false).map(|f| s32(f.value()))));
    let rem: &'static mut TimeSpec = leak(TimeSpec::new_zeroed());
    let rem_ptr = core::ptr::from_mut::<TimeSpec>(rem) as usize;
    w!("time.nanosleep.rem", "time/sleep.rs:nanosleep", "nanosleep", "unit", move || u(rusl::time::nanosleep(ts1, Some(rem_ptr as *mut TimeSpec))));
    w!("futex.futex_wait.timeout", "futex.rs:futex_wait", "futex", "unit", move || u(rusl::futex::futex_wait(fut, 1, FutexFlags::PRIVATE, Some(TimeSpec::new(0, 1000)))));
    let pfds2: &'static mut [PollFd; 1] = leak([PollFd::new(fd, PollEvents::POLLIN)]);
    let sigset: &'static rusl::platform::SigSetT = leak(rusl::platform::SigSetT::default());
    w!("select.ppoll.sigset", "select/poll.rs:ppoll", "ppoll", "usize", move || v(rusl::select::ppoll(&mut pfds2[..], None, Some(sigset)).map(|x| x as u64)));
    w!("unistd.mmap.fixed_fd", "unistd/mmap.rs:mmap", "mmap", "usize", move || v(unsafe {
        rusl::unistd::mmap(Some(0x10000), NonZeroUsize::new(4096).unwrap(), MemoryProtection::PROT_READ, MapRequiredFlag::MapShared, MapAdditionalFlags::empty(), Some(fd), 4096)
    }.map(|x| x as u64)));
    w!("unistd.wait_pid.nohang", "process/wait.rs:wait_pid", "wait4", "i32", move || v(rusl::process::wait_pid(1, WaitPidFlags::WNOHANG).map(|r| s32(r.pid))));
    w!("time.clock_get_real_time", "time/clock_get_time.rs:clock_get_real_time", "clock_gettime", "void", move || { let _ = rusl::time::clock_get_real_time(); R::None });
    w!("time.clock_get_monotonic_time", "time/clock_get_time.rs:clock_get_monotonic_time", "clock_gettime", "void", move || { let _ = rusl::time::clock_get_monotonic_time(); R::None });
    w!("time.clock_get_time", "time/clock_get_time.rs:clock_get_time", "clock_gettime", "unit", move || u(rusl::time::clock_get_time(ClockId::CLOCK_MONOTONIC)));

    // ------------------------------------------------------------------------------------------
    // every variant of the enum-typed parameters, the constants of the flag-typed ones (one at a
    // time) and the degenerate-but-legal argument values (empty buffers, empty paths, zero counts)
    macro_rules! var {
        ($base:expr, $func:expr, $nr:expr, $kind:expr, [$($name:expr => $val:expr),+ $(,)?], |$x:ident| $call:expr) => {
            $( {
                let $x = $val;
                t.push(W { id: format!("{}[{}]", $base, $name), func: $func, nr: $nr, kind: $kind, retry: "none", pass: false,
                           variant: $name.to_string(), call: Box::new(move || $call) });
            } )+
        };
    }
    var!("select.epoll_ctl", "select/epoll.rs:epoll_ctl", "epoll_ctl", "unit",
         ["EpollOp::Add" => EpollOp::Add, "EpollOp::Mod" => EpollOp::Mod, "EpollOp::Del" => EpollOp::Del],
         |op| u(rusl::select::epoll_ctl(fd, op, fd2, eev)));
    var!("termios.tcsetattr", "termios/tcsetattr.rs:tcsetattr", "ioctl", "unit",
         ["SetAction::NOW" => SetAction::NOW, "SetAction::DRAIN" => SetAction::DRAIN, "SetAction::FLUSH" => SetAction::FLUSH],
         |a| u(rusl::termios::tcsetattr(fd, a, tio)));
    unsafe extern "C" fn h1(_s: i32) {}
    unsafe extern "C" fn h3(_s: i32, _i: *mut rusl::process::SigInfo, _c: *const core::ffi::c_void) {}
    use rusl::process::{CatchSignal as CS, SaSignalaction as SA};
    var!("process.add_signal_action", "process/signal.rs:add_signal_action", "rt_sigaction", "unit",
         ["CatchSignal::Int+SaSignalaction::Dfl" => (0, 0), "CatchSignal::Term+SaSignalaction::Ign" => (1, 1),
          "CatchSignal::Hup+SaSignalaction::Handler" => (2, 2), "CatchSignal::Segv+SaSignalaction::SigAction" => (3, 3),
          "CatchSignal::Chld+SaSignalaction::Dfl" => (4, 0), "CatchSignal::Int+SaSignalaction::Handler" => (0, 2),
          "CatchSignal::Term+SaSignalaction::SigAction" => (1, 3), "CatchSignal::Chld+SaSignalaction::Ign" => (4, 1)],
         |p| u(unsafe {
             let sig = match p.0 { 0 => CS::Int, 1 => CS::Term, 2 => CS::Hup, 3 => CS::Segv, _ => CS::Chld };
             let act = match p.1 { 0 => SA::Dfl, 1 => SA::Ign, 2 => SA::Handler(h1), _ => SA::SigAction(h3) };
             rusl::process::add_signal_action(sig, act)
         }));
    var!("unistd.mmap", "unistd/mmap.rs:mmap", "mmap", "usize",
         ["MapRequiredFlag::MapShared" => (MapRequiredFlag::MapShared, MemoryProtection::PROT_READ, MapAdditionalFlags::MAP_ANONYMOUS),
          "MapRequiredFlag::MapSharedValidate" => (MapRequiredFlag::MapSharedValidate, MemoryProtection::PROT_WRITE, MapAdditionalFlags::MAP_POPULATE),
          "MapRequiredFlag::MapPrivate" => (MapRequiredFlag::MapPrivate, MemoryProtection::PROT_NONE, MapAdditionalFlags::MAP_STACK),
          "MemoryProtection::PROT_EXEC" => (MapRequiredFlag::MapPrivate, MemoryProtection::PROT_EXEC, MapAdditionalFlags::MAP_NORESERVE),
          "MapAdditionalFlags::MAP_FIXED" => (MapRequiredFlag::MapPrivate, MemoryProtection::PROT_READ, MapAdditionalFlags::MAP_FIXED),
          "MapAdditionalFlags::MAP_GROWSDOWN" => (MapRequiredFlag::MapPrivate, MemoryProtection::PROT_READ, MapAdditionalFlags::MAP_GROWSDOWN),
          "MapAdditionalFlags::MAP_HUGETLB" => (MapRequiredFlag::MapPrivate, MemoryProtection::PROT_READ, MapAdditionalFlags::MAP_HUGETLB),
          "MapAdditionalFlags::MAP_LOCKED" => (MapRequiredFlag::MapShared, MemoryProtection::PROT_READ, MapAdditionalFlags::MAP_LOCKED)],
         |a| v(unsafe { rusl::unistd::mmap(None, NonZeroUsize::new(8192).unwrap(), a.1, a.0, a.2, None, 0) }.map(|x| x as u64)));
    use rusl::unistd::Whence;
    var!("network.socket", "network/socket.rs:socket", "socket", "i32",
         ["AF_INET+SOCK_STREAM" => (AddressFamily::AF_INET, SocketType::SOCK_STREAM, SocketFlags::SOCK_CLOEXEC, 6),
          "AF_INET6+SOCK_DGRAM" => (AddressFamily::AF_INET6, SocketType::SOCK_DGRAM, SocketFlags::SOCK_NONBLOCK, 17),
          "AF_NETLINK+SOCK_RAW" => (AddressFamily::AF_NETLINK, SocketType::SOCK_RAW, SocketFlags::empty(), 0),
          "AF_PACKET+SOCK_PACKET" => (AddressFamily::AF_PACKET, SocketType::SOCK_PACKET, SocketFlags::empty(), 0),
          "AF_UNIX+SOCK_SEQPACKET" => (AddressFamily::AF_UNIX, SocketType::SOCK_SEQPACKET, SocketFlags::SOCK_CLOEXEC | SocketFlags::SOCK_NONBLOCK, 0),
          "AF_UNSPEC+SOCK_RDM" => (AddressFamily::AF_UNSPEC, SocketType::SOCK_RDM, SocketFlags::empty(), -1)],
         |a| v(rusl::network::socket(a.0, SocketOptions::new(a.1, a.2), a.3).map(|x| s32(x.value()))));
    var!("ioctl.ioctl", "ioctl.rs:ioctl", "ioctl", "usize",
         ["request=0" => 0usize, "TIOCGWINSZ" => 0x5413usize, "FIONREAD" => 0x541busize, "FIONBIO" => 0x5421usize, "request=max" => usize::MAX],
         |r| v(unsafe { rusl::ioctl::ioctl(fd, r, 0) }.map(|x| x as u64)));
    var!("unistd.mount.nodata", "unistd/mount.rs:mount", "mount", "unit",
         ["EXT4+MS_RDONLY" => (FilesystemType::EXT4, Mountflags::MS_RDONLY), "PROC+MS_NOSUID" => (FilesystemType::PROC, Mountflags::MS_NOSUID),
          "SYSFS+MS_BIND" => (FilesystemType::SYSFS, Mountflags::MS_BIND), "DEVTMPFS+MS_REMOUNT" => (FilesystemType::DEVTMPFS, Mountflags::MS_REMOUNT),
          "VFAT+MS_NOEXEC" => (FilesystemType::VFAT, Mountflags::MS_NOEXEC)],
         |a| u(rusl::unistd::mount(path, path2, a.0, a.1, None)));
    var!("select.epoll_wait", "select/epoll.rs:epoll_wait", "epoll_pwait", "usize",
         ["timeout=-1" => -1i32, "timeout=5" => 5i32, "timeout=max" => i32::MAX],
         |to| v(rusl::select::epoll_wait(fd, &mut [EpollEvent::new(0, EpollEventMask::EPOLLIN); 1], to).map(|x| x as u64)));
    // (dup3 with cloexec=false is what dup2 does: covered by unistd.dup2 with its EBUSY retry discipline)
    let zts2: &'static TimeSpec = leak(TimeSpec::new_zeroed());
    // every constant of every flag-typed parameter (generated from the source)
    include!("sysw_flags.inc");
    // pipe2 accepts three flags (successes run the real call)
    for (name, f) in [("OpenFlags::O_NONBLOCK", OpenFlags::O_NONBLOCK), ("OpenFlags::O_DIRECT", OpenFlags::O_DIRECT)] {
        t.push(W { id: format!("unistd.pipe2[{name}]"), func: "unistd/pipe.rs:pipe2", nr: "pipe2", kind: "unit", retry: "none", pass: true,
                   variant: name.to_string(), call: Box::new(move || {
            let r = rusl::unistd::pipe2(f);
            if let Ok(p) = &r {
                unsafe { libc::close(p.in_pipe.value()); libc::close(p.out_pipe.value()); }
            }
            u(r)
        }) });
    }
    // ALIASED arguments: both descriptors / paths / buffers the same object - the call is still issued
    t.push(W { id: "unistd.dup2[old==new]".to_string(), func: "unistd/dup.rs:dup2", nr: "dup3", kind: "unit", retry: "ebusy", pass: false,
               variant: "alias:old==new".to_string(), call: Box::new(move || u(rusl::unistd::dup2(fd, fd))) });
    t.push(W { id: "unistd.dup3[old==new]".to_string(), func: "unistd/dup.rs:dup3", nr: "dup3", kind: "unit", retry: "ebusy", pass: false,
               variant: "alias:old==new".to_string(), call: Box::new(move || u(rusl::unistd::dup3(fd, fd, true))) });
    t.push(W { id: "unistd.dup2[new==0]".to_string(), func: "unistd/dup.rs:dup2", nr: "dup3", kind: "unit", retry: "ebusy", pass: false,
               variant: "alias:new=stdin".to_string(), call: Box::new(move || u(rusl::unistd::dup2(Fd::try_new(0).unwrap(), Fd::try_new(0).unwrap()))) });
    var!("unistd.rename", "unistd/rename.rs:rename", "renameat2", "unit", ["alias:old==new" => 0], |_z| u(rusl::unistd::rename(path, path)));
    var!("unistd.rename_flags", "unistd/rename.rs:rename_flags", "renameat2", "unit", ["alias:old==new" => 0], |_z| u(rusl::unistd::rename_flags(path, path, RenameFlags::RENAME_EXCHANGE)));
    var!("unistd.rename_at", "unistd/rename.rs:rename_at", "renameat2", "unit", ["alias:same dir and path" => 0], |_z| u(rusl::unistd::rename_at(fd, path, fd, path)));
    var!("unistd.rename_at2", "unistd/rename.rs:rename_at2", "renameat2", "unit", ["alias:same dir and path" => 0], |_z| u(rusl::unistd::rename_at2(fd, path, fd, path, RenameFlags::empty())));
    var!("unistd.copy_file_range", "unistd/copy_file_range.rs:copy_file_range", "copy_file_range", "usize", ["alias:src==dest,same offset" => 0u64, "alias:src==dest,overlap" => 8u64],
         |o| v(rusl::unistd::copy_file_range(fd, 0, fd, o, 16).map(|x| x as u64)));
    var!("select.epoll_ctl", "select/epoll.rs:epoll_ctl", "epoll_ctl", "unit", ["alias:epfd==fd" => 0], |_z| u(rusl::select::epoll_ctl(fd, EpollOp::Add, fd, eev)));
    var!("select.epoll_del", "select/epoll.rs:epoll_del", "epoll_ctl", "unit", ["alias:epfd==fd" => 0], |_z| u(rusl::select::epoll_del(fd, fd)));
    var!("unistd.mount.nodata", "unistd/mount.rs:mount", "mount", "unit", ["alias:source==target" => 0], |_z| u(rusl::unistd::mount(path, path, FilesystemType::TMPFS, Mountflags::MS_BIND, None)));
    var!("unistd.mount.data", "unistd/mount.rs:mount", "mount", "unit", ["alias:source==target==data" => 0], |_z| u(rusl::unistd::mount(path, path, FilesystemType::TMPFS, Mountflags::MS_BIND, Some(path))));
    var!("time.nanosleep", "time/sleep.rs:nanosleep", "nanosleep", "unit", ["alias:rem==req" => 0], |_z| u(rusl::time::nanosleep(zts2, Some(core::ptr::from_ref::<TimeSpec>(zts2).cast_mut()))));
    var!("unistd.open_at", "unistd/open.rs:open_at", "openat", "i32", ["alias:dir==stdin" => 0], |_z| v(rusl::unistd::open_at(Fd::try_new(0).unwrap(), path, rflags).map(|x| s32(x.value()))));
    var!("unistd.setpgid", "unistd/setpgid.rs:setpgid", "setpgid", "unit", ["alias:pid==pgid" => 4242], |x| u(rusl::unistd::setpgid(x, x)));
    var!("process.wait_pid", "process/wait.rs:wait_pid", "wait4", "i32", ["pid=0" => 0, "pid=min" => i32::MIN], |x| v(rusl::process::wait_pid(x, WaitPidFlags::WNOHANG).map(|r| s32(r.pid))));
    // degenerate but legal: nothing to transfer, empty names, zero counts - the call is still issued once
    let empty: &'static UnixStr = UnixStr::EMPTY;
    var!("unistd.read", "unistd/read.rs:read", "read", "usize", ["buf=empty" => 0], |_z| v(rusl::unistd::read(fd, &mut []).map(|x| x as u64)));
    var!("unistd.readv", "unistd/read.rs:readv", "readv", "usize", ["iov=empty" => 0], |_z| v(rusl::unistd::readv(fd, &mut []).map(|x| x as u64)));
    var!("unistd.write", "unistd/write.rs:write", "write", "usize", ["buf=empty" => 0], |_z| v(rusl::unistd::write(fd, &[]).map(|x| x as u64)));
    var!("unistd.writev", "unistd/write.rs:writev", "writev", "usize", ["iov=empty" => 0], |_z| v(rusl::unistd::writev(fd, &[]).map(|x| x as u64)));
    var!("unistd.get_dents", "unistd/get_dents.rs:get_dents", "getdents64", "usize", ["buf=empty" => 0], |_z| v(rusl::unistd::get_dents(fd, &mut []).map(|x| x as u64)));
    var!("unistd.copy_file_range", "unistd/copy_file_range.rs:copy_file_range", "copy_file_range", "usize", ["len=0" => 0usize, "len=max" => usize::MAX],
         |n| v(rusl::unistd::copy_file_range(fd, 0, fd2, u64::MAX, n).map(|x| x as u64)));
    var!("select.ppoll", "select/poll.rs:ppoll", "ppoll", "usize", ["fds=empty" => 0], |_z| v(rusl::select::ppoll(&mut [], Some(zero_ts), None).map(|x| x as u64)));
    var!("select.ppoll.none", "select/poll.rs:ppoll", "ppoll", "usize", ["timeout=None,fds=empty" => 0], |_z| v(rusl::select::ppoll(&mut [], None, None).map(|x| x as u64)));
    var!("select.epoll_wait", "select/epoll.rs:epoll_wait", "epoll_pwait", "usize", ["events=empty" => 0], |_z| v(rusl::select::epoll_wait(fd, &mut [], 0).map(|x| x as u64)));
    var!("io_uring.io_uring_register_files", "io_uring.rs:io_uring_register_files", "io_uring_register", "unit", ["fds=empty" => 0], |_z| u(rusl::io_uring::io_uring_register_files(fd, &[])));
    var!("io_uring.io_uring_register_io_slices", "io_uring.rs:io_uring_register_io_slices", "io_uring_register", "unit", ["slices=empty" => 0], |_z| u(rusl::io_uring::io_uring_register_io_slices(fd, &[])));
    var!("io_uring.io_uring_enter", "io_uring.rs:io_uring_enter", "io_uring_enter", "usize", ["submit=0,complete=0" => 0], |_z| v(rusl::io_uring::io_uring_enter(fd, 0, 0, IoUringEnterFlags::empty()).map(|x| x as u64)));
    var!("futex.futex_wake", "futex.rs:futex_wake", "futex", "usize", ["waiters=0" => 0i32, "waiters=max" => i32::MAX, "waiters=-1" => -1i32], |n| v(rusl::futex::futex_wake(fut, n).map(|x| x as u64)));
    let zts: &'static TimeSpec = leak(TimeSpec::new_zeroed());
    var!("time.nanosleep", "time/sleep.rs:nanosleep", "nanosleep", "unit", ["duration=0" => 0], |_z| u(rusl::time::nanosleep(zts, None)));
    var!("network.listen", "network/listen.rs:listen", "listen", "unit", ["NonNegativeI32::ZERO" => Fd::ZERO, "NonNegativeI32::MAX" => Fd::MAX], |b| u(rusl::network::listen(fd, b)));
    var!("unistd.open", "unistd/open.rs:open", "openat", "i32", ["path=empty" => empty], |p| v(rusl::unistd::open(p, rflags).map(|x| s32(x.value()))));
    var!("unistd.unlink", "unistd/unlink.rs:unlink", "unlinkat", "unit", ["path=empty" => empty], |p| u(rusl::unistd::unlink(p)));
    var!("unistd.stat", "unistd/stat.rs:stat", "newfstatat", "unit", ["path=empty" => empty], |p| u(rusl::unistd::stat(p)));
    var!("unistd.mkdir", "unistd/mkdir.rs:mkdir", "mkdirat", "unit", ["path=empty" => empty], |p| u(rusl::unistd::mkdir(p, mode)));
    var!("unistd.chdir", "unistd/chdir.rs:chdir", "chdir", "unit", ["path=empty" => empty], |p| u(rusl::unistd::chdir(p)));
    var!("unistd.rename", "unistd/rename.rs:rename", "renameat2", "unit", ["paths=empty" => empty], |p| u(rusl::unistd::rename(p, p)));
    var!("unistd.lseek", "unistd/seek.rs:lseek", "lseek", "i64", ["offset=min" => i64::MIN, "offset=max" => i64::MAX], |o| v(rusl::unistd::lseek(fd, o, Whence::SET).map(|x| x as u64)));
    var!("unistd.setuid", "unistd/setuid.rs:setuid", "setuid", "unit", ["uid=max" => u32::MAX], |x| u(rusl::unistd::setuid(x)));
    var!("unistd.setpgid", "unistd/setpgid.rs:setpgid", "setpgid", "unit", ["pid=-1" => -1], |x| u(rusl::unistd::setpgid(x, x)));
    t
}

fn mark(s: &[u8]) {
    unsafe {
        libc::write(-1, s.as_ptr().cast(), s.len());
    }
}

fn main() {
    let args: Vec<String> = std::env::args().collect();
    let mut tab = table();
    let stdout = std::io::stdout();
    if args.get(1).map(String::as_str) == Some("list") {
        let mut o = stdout.lock();
        for w in &tab {
            let l = json!({"w": w.id, "fn": w.func, "nr": w.nr, "kind": w.kind, "retry": w.retry, "pass": w.pass, "variant": w.variant});
            writeln!(o, "{l}").unwrap();
        }
        return;
    }
    if args.get(1).map(String::as_str) != Some("run") || args.len() < 3 {
        eprintln!("usage: sysw list | run <plan.ndjson> [start]");
        std::process::exit(2);
    }
    let start: u64 = args.get(3).and_then(|s| s.parse().ok()).unwrap_or(0);
    let f = std::io::BufReader::new(std::fs::File::open(&args[2]).expect("plan"));
    // read the whole plan first: nothing but wrapper calls and markers afterwards
    let mut plan: Vec<(u64, usize, Vec<u8>, Vec<u8>)> = Vec::new();
    for line in f.lines() {
        let line = line.unwrap();
        if line.trim().is_empty() {
            continue;
        }
        let p: Value = serde_json::from_str(&line).expect("plan line");
        let i = p["i"].as_u64().unwrap();
        if i < start {
            continue;
        }
        let wid = p["w"].as_str().unwrap();
        let k = tab.iter().position(|w| w.id == wid).unwrap_or_else(|| panic!("unknown wrapper {wid}"));
        let raws: Vec<String> = p["raws"].as_array().unwrap().iter().map(|x| x.as_str().unwrap().to_string()).collect();
        let modec = p["mode"].as_str().unwrap_or("s");
        // (entry ids may contain ':' - the marker carries the entry's index instead)
        let begin = format!("MARK:w{}:begin:force={}/{}/{}", k, tab[k].nr, modec, raws.join(";"));
        let end = format!("MARK:w{}:end:{}", k, i);
        plan.push((i, k, begin.into_bytes(), end.into_bytes()));
    }
    let mut o = stdout.lock();
    for (i, k, begin, end) in &plan {
        let w = &mut tab[*k];
        mark(begin);
        let r = (w.call)();
        mark(end);
        let l = match r {
            R::Unit => json!({"i": i, "w": w.id, "tag": "unit"}),
            R::Val(x) => json!({"i": i, "w": w.id, "tag": "val", "v": x.to_string()}),
            R::Err(Some(c)) => json!({"i": i, "w": w.id, "tag": "err", "code": c}),
            R::Err(None) => json!({"i": i, "w": w.id, "tag": "errnocode"}),
            R::None => json!({"i": i, "w": w.id, "tag": "none"}),
        };
        writeln!(o, "{l}").unwrap();
        o.flush().unwrap();
    }
}
