//! X01 driver: executes TLC-generated operation sequences on REAL pipes / socketpairs through
//! tiny_std::linux::epoll::EpollDriver ("driver"), rusl::select::epoll_* ("rusl") or
//! rusl::select::ppoll (op "poll"), and records every result with monotonic timings.
//!
//! usage: epollops <plan.ndjson> [first_seq]
//! plan line:  {"seq":n,"api":"driver|rusl","kinds":["sock","pipe_r","pipe_w"],"ops":[{..},..]}
//! output: one JSON line per executed operation {"seq","i","op",..,"res":..}; a watchdog thread
//! turns an operation that does not come back within 5 s into {"seq","i","hang":true} and exit 3.
//!
//! The watched end of every object is used through the API under test only for
//! register/modify/unregister/wait/poll; all traffic (peer_write, read_*, fill, peer_drain,
//! close_peer) is made with libc on the raw descriptors.
use std::io::{BufRead, Write};
use std::sync::atomic::{AtomicU64, Ordering};
use std::time::Instant;

use rusl::platform::{EpollEvent, EpollEventMask, EpollOp, Fd, PollEvents, PollFd, TimeSpec};
use tiny_std::linux::epoll::{EpollDriver, EpollTimeout};
use vharness::{json, Value};

static PROGRESS: AtomicU64 = AtomicU64::new(0);
static CUR: AtomicU64 = AtomicU64::new(0); // seq << 16 | i

struct Obj {
    watched: i32,
    peer: i32,
}

fn mk_obj(kind: &str) -> Obj {
    let mut fds = [0i32; 2];
    unsafe {
        match kind {
            "sock" => {
                assert_eq!(0, libc::socketpair(libc::AF_UNIX, libc::SOCK_STREAM | libc::SOCK_NONBLOCK | libc::SOCK_CLOEXEC, 0, fds.as_mut_ptr()));
                Obj { watched: fds[0], peer: fds[1] }
            }
            "pipe_r" => {
                assert_eq!(0, libc::pipe2(fds.as_mut_ptr(), libc::O_NONBLOCK | libc::O_CLOEXEC));
                Obj { watched: fds[0], peer: fds[1] }
            }
            "pipe_w" => {
                assert_eq!(0, libc::pipe2(fds.as_mut_ptr(), libc::O_NONBLOCK | libc::O_CLOEXEC));
                Obj { watched: fds[1], peer: fds[0] }
            }
            _ => panic!("kind {kind}"),
        }
    }
}

fn ep_mask(names: &Value) -> EpollEventMask {
    let mut m = EpollEventMask::empty();
    for n in names.as_array().unwrap() {
        m |= match n.as_str().unwrap() {
            "IN" => EpollEventMask::EPOLLIN,
            "OUT" => EpollEventMask::EPOLLOUT,
            "RDHUP" => EpollEventMask::EPOLLRDHUP,
            "ET" => EpollEventMask::EPOLLET,
            "ONESHOT" => EpollEventMask::EPOLLONESHOT,
            x => panic!("mask {x}"),
        };
    }
    m
}
fn ep_names(bits: u32) -> Vec<String> {
    let table = [(0x1u32, "IN"), (0x2, "PRI"), (0x4, "OUT"), (0x8, "ERR"), (0x10, "HUP"), (0x2000, "RDHUP")];
    let mut v = vec![];
    let mut rest = bits;
    for (b, n) in table {
        if bits & b != 0 {
            v.push(n.to_string());
            rest &= !b;
        }
    }
    if rest != 0 {
        v.push(format!("OTHER_{rest:x}"));
    }
    v
}
fn poll_mask(names: &Value) -> PollEvents {
    let mut m = PollEvents::empty();
    for n in names.as_array().unwrap() {
        m |= match n.as_str().unwrap() {
            "IN" => PollEvents::POLLIN,
            "OUT" => PollEvents::POLLOUT,
            "RDHUP" => PollEvents::POLLRDHUP,
            x => panic!("mask {x}"),
        };
    }
    m
}
fn poll_names(bits: i16) -> Vec<String> {
    let bits = bits as u16 as u32;
    let table = [(0x1u32, "IN"), (0x2, "PRI"), (0x4, "OUT"), (0x8, "ERR"), (0x10, "HUP"), (0x20, "NVAL"), (0x2000, "RDHUP")];
    let mut v = vec![];
    let mut rest = bits;
    for (b, n) in table {
        if bits & b != 0 {
            v.push(n.to_string());
            rest &= !b;
        }
    }
    if rest != 0 {
        v.push(format!("OTHER_{rest:x}"));
    }
    v
}

fn err_tiny(e: &tiny_std::Error) -> Value {
    match e {
        tiny_std::Error::Os { code, .. } => json!({"err": code.raw()}),
        tiny_std::Error::Timeout => json!({"err": "timeout"}),
        tiny_std::Error::Uncategorized(m) => json!({"err": "nocode", "msg": m}),
    }
}
fn err_rusl(e: &rusl::Error) -> Value {
    match e.code {
        Some(c) => json!({"err": c.raw()}),
        None => json!({"err": "nocode", "msg": e.msg}),
    }
}

enum Api {
    Driver(EpollDriver),
    Rusl(Fd),
}

extern "C" fn on_alarm(_s: i32) {}

fn arm_timer(ms: u64) {
    let it = libc::itimerval {
        it_interval: libc::timeval { tv_sec: 0, tv_usec: 0 },
        it_value: libc::timeval { tv_sec: (ms / 1000) as i64, tv_usec: ((ms % 1000) * 1000) as i64 },
    };
    unsafe {
        libc::setitimer(libc::ITIMER_REAL, &it, std::ptr::null_mut());
    }
}

fn fd(x: i32) -> Fd {
    Fd::try_new(x).unwrap()
}

#[allow(clippy::too_many_lines)]
fn main() {
    let args: Vec<String> = std::env::args().collect();
    let first: u64 = args.get(2).and_then(|s| s.parse().ok()).unwrap_or(0);
    let plan = std::io::BufReader::new(std::fs::File::open(&args[1]).expect("plan"));
    unsafe {
        // SIGALRM interrupts a blocking wait (no SA_RESTART); SIGPIPE must not kill the driver
        let mut sa: libc::sigaction = std::mem::zeroed();
        sa.sa_sigaction = on_alarm as usize;
        libc::sigaction(libc::SIGALRM, &sa, std::ptr::null_mut());
        libc::signal(libc::SIGPIPE, libc::SIG_IGN);
        // the watchdog thread never takes the alarm signal
        let mut set: libc::sigset_t = std::mem::zeroed();
        libc::sigemptyset(&mut set);
        libc::sigaddset(&mut set, libc::SIGALRM);
        libc::pthread_sigmask(libc::SIG_BLOCK, &set, std::ptr::null_mut());
        std::thread::spawn(|| {
            // seconds without progress after which an operation counts as "did not return"
            // (X01_WATCHDOG_S: the check stretches it under load and when it re-confirms a trip)
            let limit: u64 = std::env::var("X01_WATCHDOG_S").ok().and_then(|s| s.parse().ok()).unwrap_or(5);
            let mut last = PROGRESS.load(Ordering::SeqCst);
            let mut since = Instant::now();
            loop {
                std::thread::sleep(std::time::Duration::from_millis(200));
                let now = PROGRESS.load(Ordering::SeqCst);
                if now != last {
                    last = now;
                    since = Instant::now();
                } else if since.elapsed().as_secs() >= limit && CUR.load(Ordering::SeqCst) != u64::MAX {
                    let c = CUR.load(Ordering::SeqCst);
                    let msg = format!("{{\"seq\":{},\"i\":{},\"hang\":true}}\n", c >> 16, c & 0xffff);
                    libc::write(1, msg.as_ptr().cast(), msg.len());
                    libc::_exit(3);
                }
            }
        });
        libc::pthread_sigmask(libc::SIG_UNBLOCK, &set, std::ptr::null_mut());
    }
    let stdout = std::io::stdout();
    let mut out = stdout.lock();
    for line in plan.lines() {
        let line = line.unwrap();
        if line.trim().is_empty() {
            continue;
        }
        let p: Value = serde_json::from_str(&line).expect("plan line");
        let seq = p["seq"].as_u64().unwrap();
        if seq < first {
            continue;
        }
        let objs: Vec<Obj> = p["kinds"].as_array().unwrap().iter().map(|k| mk_obj(k.as_str().unwrap())).collect();
        let api = if p["api"].as_str().unwrap() == "driver" {
            Api::Driver(EpollDriver::create(true).expect("epoll_create"))
        } else {
            Api::Rusl(rusl::select::epoll_create(true).expect("epoll_create"))
        };
        // a descriptor number that is certainly not open, and a regular file
        let file = std::fs::File::open("/proc/self/status").ok();
        let closed_fd = unsafe {
            let d = libc::dup(0);
            libc::close(d);
            d
        };
        let mut buf = vec![0u8; 1 << 16];
        let mut peer_closed = vec![false; objs.len()];
        let mut watched_closed = vec![false; objs.len()];
        for (i, op) in p["ops"].as_array().unwrap().iter().enumerate() {
            CUR.store(seq << 16 | i as u64, Ordering::SeqCst);
            PROGRESS.fetch_add(1, Ordering::SeqCst);
            let name = op["op"].as_str().unwrap();
            let o = op["o"].as_u64().map(|x| x as usize - 1);
            let mut rec = json!({"seq": seq, "i": i, "op": name});
            for k in ["o", "data", "mask", "max", "timeout", "after", "entries", "what"] {
                if !op[k].is_null() {
                    rec[k] = op[k].clone();
                }
            }
            match name {
                "peer_write" => unsafe {
                    let r = libc::write(objs[o.unwrap()].peer, b"x".as_ptr().cast(), 1);
                    rec["res"] = json!(if r == 1 { "ok" } else { "failed" });
                },
                "read_one" | "read_all" => unsafe {
                    let mut n = 0;
                    loop {
                        let want = if name == "read_one" { 1 } else { buf.len() };
                        let r = libc::read(objs[o.unwrap()].watched, buf.as_mut_ptr().cast(), want);
                        if r <= 0 {
                            break;
                        }
                        n += r;
                        if name == "read_one" {
                            break;
                        }
                    }
                    rec["res"] = json!("ok");
                    rec["n"] = json!(n);
                },
                "fill" => unsafe {
                    let mut n: i64 = 0;
                    loop {
                        let r = libc::write(objs[o.unwrap()].watched, buf.as_ptr().cast(), buf.len());
                        if r <= 0 {
                            // top up byte-wise so that not even one byte fits any more
                            let r1 = libc::write(objs[o.unwrap()].watched, buf.as_ptr().cast(), 1);
                            if r1 <= 0 {
                                break;
                            }
                            n += 1;
                            continue;
                        }
                        n += r as i64;
                    }
                    rec["res"] = json!("ok");
                    rec["n"] = json!(n);
                },
                "peer_drain" => unsafe {
                    let mut n: i64 = 0;
                    loop {
                        let r = libc::read(objs[o.unwrap()].peer, buf.as_mut_ptr().cast(), buf.len());
                        if r <= 0 {
                            break;
                        }
                        n += r as i64;
                    }
                    rec["res"] = json!("ok");
                    rec["n"] = json!(n);
                },
                "close_peer" => unsafe {
                    libc::close(objs[o.unwrap()].peer);
                    peer_closed[o.unwrap()] = true;
                    rec["res"] = json!("ok");
                },
                "close_watched" => unsafe {
                    libc::close(objs[o.unwrap()].watched);
                    watched_closed[o.unwrap()] = true;
                    rec["res"] = json!("ok");
                },
                "register" | "modify" | "unregister" | "register_bad" => {
                    let target = match name {
                        "register_bad" => match op["what"].as_str().unwrap() {
                            "closed_fd" => closed_fd,
                            "file" => file.as_ref().map_or(closed_fd, std::os::fd::AsRawFd::as_raw_fd),
                            _ => match &api {
                                Api::Driver(_) => closed_fd,
                                Api::Rusl(e) => e.value(),
                            },
                        },
                        _ => objs[o.unwrap()].watched,
                    };
                    let data = op["data"].as_u64().unwrap_or(0);
                    let mask = if op["mask"].is_null() { EpollEventMask::EPOLLIN } else { ep_mask(&op["mask"]) };
                    let res = match (&api, name) {
                        (Api::Driver(d), "register" | "register_bad") => d.register(fd(target), data, mask).map_err(|e| err_tiny(&e)),
                        (Api::Driver(d), "modify") => d.modify(fd(target), data, mask).map_err(|e| err_tiny(&e)),
                        (Api::Driver(d), _) => d.unregister(fd(target)).map_err(|e| err_tiny(&e)),
                        (Api::Rusl(e), "register" | "register_bad") => {
                            rusl::select::epoll_ctl(*e, EpollOp::Add, fd(target), &EpollEvent::new(data, mask)).map_err(|e| err_rusl(&e))
                        }
                        (Api::Rusl(e), "modify") => {
                            rusl::select::epoll_ctl(*e, EpollOp::Mod, fd(target), &EpollEvent::new(data, mask)).map_err(|e| err_rusl(&e))
                        }
                        (Api::Rusl(e), _) => rusl::select::epoll_del(*e, fd(target)).map_err(|e| err_rusl(&e)),
                    };
                    rec["res"] = match res {
                        Ok(()) => json!("ok"),
                        Err(v) => v,
                    };
                }
                "wait" | "wait_intr" | "wait_huge" => {
                    let max = op["max"].as_u64().unwrap_or(1) as usize;
                    let timeout = op["timeout"].as_i64().unwrap_or(0);
                    let mut evs = vec![EpollEvent::new(0xdead_beef, EpollEventMask::empty()); max];
                    if name == "wait_intr" {
                        arm_timer(op["after"].as_u64().unwrap());
                    }
                    let t0 = Instant::now();
                    let res = match &api {
                        Api::Driver(d) => {
                            let to = if name == "wait_huge" {
                                EpollTimeout::WaitMillis(u32::MAX)
                            } else if timeout < 0 {
                                EpollTimeout::WaitForever
                            } else if timeout == 0 {
                                EpollTimeout::NoWait
                            } else {
                                EpollTimeout::WaitMillis(timeout as u32)
                            };
                            d.wait(&mut evs, to).map_err(|e| err_tiny(&e))
                        }
                        Api::Rusl(e) => rusl::select::epoll_wait(*e, &mut evs, timeout as i32).map_err(|e| err_rusl(&e)),
                    };
                    let us = t0.elapsed().as_micros().min(1 << 30) as u64;
                    if name == "wait_intr" {
                        arm_timer(0);
                    }
                    rec["us"] = json!(us);
                    match res {
                        Ok(n) => {
                            rec["res"] = json!("ok");
                            rec["n"] = json!(n);
                            let list: Vec<Value> = evs
                                .iter()
                                .take(n.min(max))
                                .map(|e| json!({"data": e.get_data(), "ev": ep_names(e.get_events().bits())}))
                                .collect();
                            rec["events"] = json!(list);
                        }
                        Err(v) => rec["res"] = v,
                    }
                }
                "poll" | "poll_intr" => {
                    let timeout = op["timeout"].as_i64().unwrap_or(0);
                    let entries = op["entries"].as_array().unwrap();
                    let mut pfds: Vec<PollFd> = entries
                        .iter()
                        .map(|e| {
                            let raw = match e["o"].as_u64() {
                                Some(k) => objs[k as usize - 1].watched,
                                None => closed_fd,
                            };
                            PollFd::new(fd(raw), poll_mask(&e["ev"]))
                        })
                        .collect();
                    let ts = TimeSpec::new(timeout / 1000, (timeout % 1000) * 1_000_000);
                    if name == "poll_intr" {
                        arm_timer(op["after"].as_u64().unwrap());
                    }
                    let t0 = Instant::now();
                    let res = rusl::select::ppoll(&mut pfds, if timeout < 0 { None } else { Some(&ts) }, None);
                    let us = t0.elapsed().as_micros().min(1 << 30) as u64;
                    if name == "poll_intr" {
                        arm_timer(0);
                    }
                    rec["us"] = json!(us);
                    match res {
                        Ok(n) => {
                            rec["res"] = json!("ok");
                            rec["n"] = json!(n);
                            let list: Vec<Value> = pfds.iter().map(|p| json!(poll_names(p.received_events().bits()))).collect();
                            rec["revents"] = json!(list);
                        }
                        Err(e) => rec["res"] = err_rusl(&e),
                    }
                }
                "poll_reuse" => {
                    // the caller keeps ONE TimeSpec and passes it (by shared reference) to two calls
                    let timeout = op["timeout"].as_i64().unwrap_or(20);
                    let entries = op["entries"].as_array().unwrap();
                    let mk = || -> Vec<PollFd> {
                        entries.iter().map(|e| PollFd::new(fd(objs[e["o"].as_u64().unwrap() as usize - 1].watched), poll_mask(&e["ev"]))).collect()
                    };
                    let ts = TimeSpec::new(timeout / 1000, (timeout % 1000) * 1_000_000);
                    let mut calls = vec![];
                    for _ in 0..2 {
                        let mut pfds = mk();
                        let t0 = Instant::now();
                        let res = rusl::select::ppoll(&mut pfds, Some(&ts), None);
                        let us = t0.elapsed().as_micros().min(1 << 30) as u64;
                        calls.push(match res {
                            Ok(n) => json!({"ok": true, "n": n, "us": us}),
                            Err(e) => json!({"ok": false, "n": 0, "us": us, "err": err_rusl(&e)}),
                        });
                    }
                    rec["res"] = json!("ok");
                    rec["calls"] = json!(calls);
                    rec["ts_after_us"] = json!((ts.seconds() * 1_000_000 + ts.nanoseconds() / 1000).clamp(0, 1 << 30));
                }
                x => panic!("unknown op {x}"),
            }
            writeln!(out, "{rec}").unwrap();
            out.flush().unwrap();
        }
        CUR.store(u64::MAX, Ordering::SeqCst);
        for (k, ob) in objs.iter().enumerate() {
            unsafe {
                if !watched_closed[k] {
                    libc::close(ob.watched);
                }
                if !peer_closed[k] {
                    libc::close(ob.peer);
                }
            }
        }
        match api {
            Api::Driver(d) => drop(d),
            Api::Rusl(e) => {
                let _ = rusl::unistd::close(e);
            }
        }
    }
}
