//! X03 driver (growth check): signal dispositions, terminal state of get_pass, errno table.
//!
//!   sigops run <plan.ndjson>      every plan line {"seq":n,"ops":[..]} is executed in a forked
//!                                 child of this process; the operations go through
//!                                 rusl::process::add_signal_action (the code under test), signals are
//!                                 raised with raw tgkill/kill, the handlers log into a shared page
//!                                 (so the log survives a crash of the child).  One ndjson line per
//!                                 operation on stdout; a child that dies gives {"crash":signo,..},
//!                                 one that does not finish within 10 s {"hang":true}.
//!   sigops getpass <buflen>       calls tiny_std::linux::get_pass::get_pass on stdin (a pty slave
//!                                 prepared by lib/checks/x03.py, run under tools/bin/sysinj) between
//!                                 the markers MARK:getpass:begin/end and prints the result.
//!   sigops errno                  prints the Errno table (raw, as_str, Display) for a range of codes.
//!
//! Operations (plan):
//!   {"op":"install","thr":t,"sig":"TERM","k":"dfl|ign|handler|sigaction","h":n}
//!   {"op":"raise","thr":t,"sig":s,"fork":bool}     tgkill to the calling thread; fork: in a forked
//!                                                  copy whose wait status is recorded
//!   {"op":"raise_nested","thr":t,"sig":s,"sig2":s2} the handler of s raises s2 at itself
//!   {"op":"raise_async","sig":s,"mode":"read|spin","expect":"run|discard"}
//!                                                  the helper thread kill()s the process while the main
//!                                                  thread sits in read(2) / in a register-only loop
//!   {"op":"spawn_thread"}                          starts the helper thread (blocks every signal)
use std::ffi::c_void;
use std::io::BufRead;
use std::sync::atomic::{AtomicI32, AtomicPtr, AtomicU32, Ordering::SeqCst};
use std::sync::mpsc;

use rusl::process::{add_signal_action, CatchSignal, SaSignalaction, SigInfo};
use vharness::{json, Value};

// ------------------------------------------------------------------------------ shared log
const CAP: usize = 200;
const REC: usize = 8;
const HDR: usize = 16;
static SH: AtomicPtr<i32> = AtomicPtr::new(std::ptr::null_mut());
static NEST: AtomicI32 = AtomicI32::new(0);
static PID: AtomicI32 = AtomicI32::new(0);

fn cell(i: usize) -> &'static AtomicI32 {
    unsafe { &*(SH.load(SeqCst).add(i) as *const AtomicI32) }
}
// header cells: 0 = records written, 1 = records drained, 2 = current op index, 3 = last forked pid
fn raw_gettid() -> i32 {
    unsafe { libc::syscall(libc::SYS_gettid) as i32 }
}
/// async-signal-safe: atomics and raw system calls only
fn log_rec(ty: i32, hid: i32, kind: i32, signo: i32, isig: i32, icode: i32, ipid: i32) {
    let n = cell(0).fetch_add(1, SeqCst) as usize;
    if n >= CAP {
        return;
    }
    let b = HDR + n * REC;
    cell(b + 1).store(hid, SeqCst);
    cell(b + 2).store(kind, SeqCst);
    cell(b + 3).store(signo, SeqCst);
    cell(b + 4).store(raw_gettid(), SeqCst);
    cell(b + 5).store(isig, SeqCst);
    cell(b + 6).store(icode, SeqCst);
    cell(b + 7).store(ipid, SeqCst);
    cell(b).store(ty, SeqCst); // last: marks the record complete
}
fn body(hid: i32, kind: i32, signo: i32, isig: i32, icode: i32, ipid: i32) {
    log_rec(1, hid, kind, signo, isig, icode, ipid);
    let n = NEST.swap(0, SeqCst);
    if n != 0 {
        log_rec(3, hid, kind, n, 0, 0, 0);
        unsafe {
            libc::syscall(libc::SYS_tgkill, PID.load(SeqCst), raw_gettid(), n);
        }
    }
    log_rec(2, hid, kind, signo, 0, 0, 0);
}
unsafe extern "C" fn h1(s: i32) {
    body(1, 1, s, -1, 0, -1);
}
unsafe extern "C" fn h2(s: i32) {
    body(2, 1, s, -1, 0, -1);
}
unsafe extern "C" fn a1(s: i32, info: *mut SigInfo, _c: *const c_void) {
    body(1, 2, s, (*info).si_signo, (*info).si_code, (*info).si_pid);
}
unsafe extern "C" fn a2(s: i32, info: *mut SigInfo, _c: *const c_void) {
    body(2, 2, s, (*info).si_signo, (*info).si_code, (*info).si_pid);
}

fn emit(v: &Value) {
    let mut s = serde_json::to_string(v).unwrap();
    s.push('\n');
    let b = s.as_bytes();
    let mut off = 0;
    while off < b.len() {
        let n = unsafe { libc::write(1, b[off..].as_ptr() as *const c_void, b.len() - off) };
        if n <= 0 {
            break;
        }
        off += n as usize;
    }
}

struct Tids {
    main: i32,
    helper: i32,
}
fn drain(t: &Tids) -> Vec<Value> {
    let n = (cell(0).load(SeqCst) as usize).min(CAP);
    let from = cell(1).load(SeqCst) as usize;
    let pid = PID.load(SeqCst);
    let child = cell(3).load(SeqCst);
    let mut v = vec![];
    for i in from..n {
        let b = HDR + i * REC;
        let g = |k: usize| cell(b + k).load(SeqCst);
        let ty = match g(0) {
            1 => "enter",
            2 => "exit",
            3 => "nraise",
            _ => "torn",
        };
        let tid = g(4);
        let ipid = g(7);
        v.push(json!({"ev": ty, "h": g(1), "k": if g(2) == 1 {"handler"} else {"sigaction"}, "signo": g(3),
            "t": if tid == t.main {0} else if tid == t.helper {1} else {-1},
            "isig": g(5), "code": g(6),
            "pid": if g(2) == 1 {"none"} else if ipid == pid {"self"} else if ipid == child && child != 0 {"child"} else {"other"}}));
    }
    cell(1).store(n as i32, SeqCst);
    v
}

// ------------------------------------------------------------------------------ signals
const VIEW: [(&str, i32); 10] = [("HUP", 1), ("INT", 2), ("QUIT", 3), ("USR1", 10), ("SEGV", 11), ("USR2", 12), ("PIPE", 13),
    ("ALRM", 14), ("TERM", 15), ("CHLD", 17)];
fn signo(name: &str) -> i32 {
    VIEW.iter().find(|(n, _)| *n == name).unwrap_or_else(|| panic!("signal {name}")).1
}
fn catch(name: &str) -> CatchSignal {
    match name {
        "INT" => CatchSignal::Int,
        "TERM" => CatchSignal::Term,
        "HUP" => CatchSignal::Hup,
        "SEGV" => CatchSignal::Segv,
        "CHLD" => CatchSignal::Chld,
        x => panic!("not a CatchSignal: {x}"),
    }
}
fn action(k: &str, h: i64) -> SaSignalaction {
    match (k, h) {
        ("dfl", _) => SaSignalaction::Dfl,
        ("ign", _) => SaSignalaction::Ign,
        ("handler", 1) => SaSignalaction::Handler(h1),
        ("handler", 2) => SaSignalaction::Handler(h2),
        ("sigaction", 1) => SaSignalaction::SigAction(a1),
        ("sigaction", 2) => SaSignalaction::SigAction(a2),
        x => panic!("disposition {x:?}"),
    }
}
/// the kernel's view of the dispositions (read with libc, not through the code under test)
fn view() -> Value {
    let mut m = serde_json::Map::new();
    for (name, no) in VIEW {
        let mut old: libc::sigaction = unsafe { std::mem::zeroed() };
        unsafe {
            libc::sigaction(no, std::ptr::null(), &mut old);
        }
        let f = old.sa_sigaction;
        let (k, h) = if f == 0 {
            ("dfl", 0)
        } else if f == 1 {
            ("ign", 0)
        } else if f == h1 as usize {
            ("handler", 1)
        } else if f == h2 as usize {
            ("handler", 2)
        } else if f == a1 as usize {
            ("sigaction", 1)
        } else if f == a2 as usize {
            ("sigaction", 2)
        } else {
            ("other", 0)
        };
        m.insert(name.to_string(), json!({"k": k, "h": h, "siginfo": old.sa_flags & libc::SA_SIGINFO != 0,
            "flags": format!("{:x}", old.sa_flags as u32)}));
    }
    Value::Object(m)
}
fn do_install(op: &Value) -> Value {
    let sig = op["sig"].as_str().unwrap();
    let r = unsafe { add_signal_action(catch(sig), action(op["k"].as_str().unwrap(), op["h"].as_i64().unwrap_or(0))) };
    let rc = match r {
        Ok(()) => 0,
        Err(e) => e.code.map_or(-1, |c| c.raw()),
    };
    json!({"rc": rc, "view": view()})
}
fn mask_of(sigs: &[i32]) -> libc::sigset_t {
    unsafe {
        let mut m: libc::sigset_t = std::mem::zeroed();
        libc::sigemptyset(&mut m);
        for s in sigs {
            libc::sigaddset(&mut m, *s);
        }
        m
    }
}
/// tgkill(self) in the middle of a small computation; returns whether the computation came out right
#[inline(never)]
fn raise_self(no: i32) -> bool {
    let mut acc: u64 = 7;
    for j in 0..64u64 {
        acc = std::hint::black_box(acc.wrapping_mul(31).wrapping_add(j));
        if j == 20 {
            unsafe {
                libc::syscall(libc::SYS_tgkill, PID.load(SeqCst), raw_gettid(), no);
            }
        }
    }
    let mut exp: u64 = 7;
    for j in 0..64u64 {
        exp = exp.wrapping_mul(31).wrapping_add(j);
    }
    acc == exp
}
fn do_raise(op: &Value, on_helper: bool) -> Value {
    let no = signo(op["sig"].as_str().unwrap());
    let no2 = op.get("sig2").and_then(|s| s.as_str()).map(signo);
    let mut old: libc::sigset_t = unsafe { std::mem::zeroed() };
    if on_helper {
        let m = mask_of(&[no, no2.unwrap_or(no)]);
        unsafe {
            libc::pthread_sigmask(libc::SIG_UNBLOCK, &m, &mut old);
        }
    }
    NEST.store(no2.unwrap_or(0), SeqCst);
    let acc_ok = raise_self(no);
    NEST.store(0, SeqCst);
    if on_helper {
        unsafe {
            libc::pthread_sigmask(libc::SIG_SETMASK, &old, std::ptr::null_mut());
        }
    }
    json!({"returned": true, "acc_ok": acc_ok})
}
fn do_fork_raise(op: &Value) -> Value {
    let no = signo(op["sig"].as_str().unwrap());
    unsafe {
        let pid = libc::fork();
        if pid == 0 {
            let rl = libc::rlimit { rlim_cur: 0, rlim_max: 0 };
            libc::setrlimit(libc::RLIMIT_CORE, &rl);
            libc::syscall(libc::SYS_tgkill, libc::getpid(), raw_gettid(), no);
            libc::_exit(77);
        }
        if pid < 0 {
            return json!({"fork_failed": true});
        }
        cell(3).store(pid, SeqCst);
        let mut st = 0i32;
        let mut eintr = 0;
        loop {
            let r = libc::waitpid(pid, &mut st, 0);
            if r == pid {
                break;
            }
            if r < 0 && *libc::__errno_location() == libc::EINTR {
                eintr += 1;
                continue;
            }
            return json!({"wait_failed": *libc::__errno_location()});
        }
        json!({"status": {"signaled": if libc::WIFSIGNALED(st) {libc::WTERMSIG(st)} else {0},
            "exited": if libc::WIFEXITED(st) {libc::WEXITSTATUS(st)} else {-1}, "core": libc::WCOREDUMP(st)}, "wait_eintr": eintr,
            "returned": true})
    }
}

enum Cmd {
    Install(Value),
    Raise(Value),
    Async { no: i32, mode: String, wfd: i32, expect_run: bool },
}
static READY: AtomicU32 = AtomicU32::new(0);
static STOP: AtomicU32 = AtomicU32::new(0);

fn helper_main(rx: mpsc::Receiver<Cmd>, tx: mpsc::Sender<Value>, tid_tx: mpsc::Sender<i32>) {
    unsafe {
        let mut all: libc::sigset_t = std::mem::zeroed();
        libc::sigfillset(&mut all);
        libc::pthread_sigmask(libc::SIG_SETMASK, &all, std::ptr::null_mut());
    }
    tid_tx.send(raw_gettid()).unwrap();
    while let Ok(c) = rx.recv() {
        let v = match c {
            Cmd::Install(op) => do_install(&op),
            Cmd::Raise(op) => do_raise(&op, true),
            Cmd::Async { no, mode, wfd, expect_run } => {
                while READY.load(SeqCst) == 0 {
                    std::hint::spin_loop();
                }
                std::thread::sleep(std::time::Duration::from_micros(if mode == "read" { 1500 } else { 300 }));
                let base = cell(0).load(SeqCst);
                unsafe {
                    libc::kill(PID.load(SeqCst), no);
                }
                // wait until the handler (if any) went in and out
                let t0 = std::time::Instant::now();
                let limit = std::time::Duration::from_millis(if expect_run { 300 } else { 3 });
                let mut seen = false;
                while t0.elapsed() < limit {
                    let n = cell(0).load(SeqCst);
                    if n >= base + 2 && cell(HDR + (n as usize - 1).min(CAP - 1) * REC).load(SeqCst) == 2 {
                        seen = true;
                        break;
                    }
                    std::thread::yield_now();
                }
                if mode == "read" {
                    unsafe {
                        libc::write(wfd, b"x".as_ptr() as *const c_void, 1);
                    }
                } else {
                    STOP.store(1, SeqCst);
                }
                json!({"seen": seen})
            }
        };
        if tx.send(v).is_err() {
            break;
        }
    }
}

#[inline(never)]
fn spin_until_stop() -> (bool, u64) {
    let (mut a, mut b, mut n) = (1u64, 1u64, 0u64);
    READY.store(1, SeqCst);
    while STOP.load(std::sync::atomic::Ordering::Relaxed) == 0 {
        a = a.wrapping_mul(6364136223846793005).wrapping_add(1442695040888963407);
        b = b.wrapping_mul(6364136223846793005).wrapping_add(1442695040888963407);
        n += 1;
    }
    (a == b, n)
}

fn merge(mut a: Value, b: Value) -> Value {
    for (k, v) in b.as_object().unwrap() {
        a[k] = v.clone();
    }
    a
}

fn run_sequence(seq: i64, ops: &[Value]) {
    unsafe {
        for (_, no) in VIEW {
            libc::signal(no, libc::SIG_DFL);
        }
        let m = mask_of(&[]);
        libc::sigprocmask(libc::SIG_SETMASK, &m, std::ptr::null_mut());
    }
    PID.store(unsafe { libc::getpid() }, SeqCst);
    let mut tids = Tids { main: raw_gettid(), helper: -2 };
    let mut helper: Option<(mpsc::Sender<Cmd>, mpsc::Receiver<Value>)> = None;
    for (i, op) in ops.iter().enumerate() {
        cell(2).store(i as i32, SeqCst);
        let name = op["op"].as_str().unwrap();
        let thr = op.get("thr").and_then(|t| t.as_i64()).unwrap_or(0);
        let res = match name {
            "spawn_thread" => {
                if helper.is_none() {
                    let (ctx, crx) = mpsc::channel();
                    let (rtx, rrx) = mpsc::channel();
                    let (ttx, trx) = mpsc::channel();
                    std::thread::spawn(move || helper_main(crx, rtx, ttx));
                    tids.helper = trx.recv().unwrap();
                    helper = Some((ctx, rrx));
                }
                json!({"ok": true})
            }
            "install" => {
                if thr == 1 {
                    let (tx, rx) = helper.as_ref().expect("helper");
                    tx.send(Cmd::Install(op.clone())).unwrap();
                    rx.recv().unwrap()
                } else {
                    do_install(op)
                }
            }
            "raise" | "raise_nested" => {
                if op.get("fork").and_then(|f| f.as_bool()).unwrap_or(false) {
                    do_fork_raise(op)
                } else if thr == 1 {
                    let (tx, rx) = helper.as_ref().expect("helper");
                    tx.send(Cmd::Raise(op.clone())).unwrap();
                    rx.recv().unwrap()
                } else {
                    do_raise(op, false)
                }
            }
            "raise_async" => {
                let (tx, rx) = helper.as_ref().expect("helper");
                let mode = op["mode"].as_str().unwrap().to_string();
                let mut fds = [0i32; 2];
                unsafe {
                    libc::pipe(fds.as_mut_ptr());
                }
                READY.store(0, SeqCst);
                STOP.store(0, SeqCst);
                tx.send(Cmd::Async { no: signo(op["sig"].as_str().unwrap()), mode: mode.clone(), wfd: fds[1],
                    expect_run: op["expect"].as_str() == Some("run") }).unwrap();
                let mine = if mode == "read" {
                    let mut b = [0u8; 4];
                    READY.store(1, SeqCst);
                    let n = unsafe { libc::read(fds[0], b.as_mut_ptr() as *mut c_void, 4) };
                    let e = unsafe { *libc::__errno_location() };
                    json!({"read": if n == 1 {"data".to_string()} else if n < 0 && e == libc::EINTR {"eintr".to_string()} else {format!("n={n} errno={e}")},
                        "returned": true, "acc_ok": true})
                } else {
                    let (ok, n) = spin_until_stop();
                    json!({"read": "none", "returned": true, "acc_ok": ok, "spins": n})
                };
                let theirs = rx.recv().unwrap();
                unsafe {
                    libc::close(fds[0]);
                    libc::close(fds[1]);
                }
                merge(mine, theirs)
            }
            x => panic!("op {x}"),
        };
        let mut ev = json!({"seq": seq, "i": i, "op": name, "log": drain(&tids)});
        ev = merge(ev, res);
        emit(&ev);
    }
}

fn cmd_run(plan: &str) {
    let page = unsafe {
        libc::mmap(std::ptr::null_mut(), 16384, libc::PROT_READ | libc::PROT_WRITE, libc::MAP_SHARED | libc::MAP_ANONYMOUS, -1, 0)
    };
    assert!(page != libc::MAP_FAILED);
    SH.store(page as *mut i32, SeqCst);
    let f = std::fs::File::open(plan).expect("plan");
    for line in std::io::BufReader::new(f).lines() {
        let line = line.unwrap();
        if line.trim().is_empty() {
            continue;
        }
        let p: Value = serde_json::from_str(&line).unwrap();
        let seq = p["seq"].as_i64().unwrap();
        let ops = p["ops"].as_array().unwrap().clone();
        for i in 0..(HDR + CAP * REC) {
            cell(i).store(0, SeqCst);
        }
        cell(2).store(-1, SeqCst);
        let pid = unsafe { libc::fork() };
        if pid == 0 {
            let r = std::panic::catch_unwind(|| run_sequence(seq, &ops));
            unsafe { libc::_exit(if r.is_ok() { 0 } else { 101 }) };
        }
        // wait with a deadline
        let t0 = std::time::Instant::now();
        let mut st = 0i32;
        let mut hang = false;
        loop {
            let r = unsafe { libc::waitpid(pid, &mut st, libc::WNOHANG) };
            if r == pid {
                break;
            }
            if t0.elapsed().as_secs() >= 10 {
                unsafe {
                    libc::kill(pid, libc::SIGKILL);
                    libc::waitpid(pid, &mut st, 0);
                }
                hang = true;
                break;
            }
            std::thread::sleep(std::time::Duration::from_micros(200));
        }
        let clean = libc::WIFEXITED(st) && libc::WEXITSTATUS(st) == 0;
        if hang || !clean {
            // the child's own pid/tids are gone: thread indices are unknown (-1) in this remainder
            PID.store(pid, SeqCst);
            let t = Tids { main: pid, helper: -2 };
            emit(&json!({"seq": seq, "i": cell(2).load(SeqCst), "op": "died", "hang": hang,
                "crash": if libc::WIFSIGNALED(st) {libc::WTERMSIG(st)} else {0},
                "exit": if libc::WIFEXITED(st) {libc::WEXITSTATUS(st)} else {-1}, "log": drain(&t)}));
        }
    }
}

// ------------------------------------------------------------------------------ get_pass
fn mark(s: &str) {
    unsafe {
        libc::write(-1, s.as_ptr() as *const c_void, s.len());
    }
}
fn lflag() -> i64 {
    unsafe {
        let mut t: libc::termios = std::mem::zeroed();
        if libc::tcgetattr(0, &mut t) != 0 {
            return -1;
        }
        t.c_lflag as i64
    }
}
fn cmd_getpass(buflen: usize) {
    let mut buf = vec![0xAAu8; buflen];
    let before = lflag();
    emit(&json!({"ready": true}));
    mark("MARK:getpass:begin");
    let r = vharness::guarded(|| tiny_std::linux::get_pass::get_pass(&mut buf).map(|s| s.as_bytes().to_vec()));
    mark("MARK:getpass:end");
    let after = lflag();
    let res = match r {
        Err(p) => json!({"res": "panic", "msg": p}),
        Ok(Ok(b)) => json!({"res": "ok", "bytes": b}),
        Ok(Err(tiny_std::Error::Os { code, msg })) => json!({"res": "err", "errno": code.raw(), "msg": msg}),
        Ok(Err(tiny_std::Error::Uncategorized(m))) => json!({"res": "err", "errno": 0, "msg": m}),
        Ok(Err(tiny_std::Error::Timeout)) => json!({"res": "err", "errno": 0, "msg": "timeout"}),
    };
    // what is left of the typed line: a non-blocking read of the (canonical) terminal
    let mut left: Vec<u8> = vec![];
    unsafe {
        let fl = libc::fcntl(0, libc::F_GETFL);
        libc::fcntl(0, libc::F_SETFL, fl | libc::O_NONBLOCK);
        let mut b = [0u8; 256];
        loop {
            let n = libc::read(0, b.as_mut_ptr() as *mut c_void, b.len());
            if n <= 0 {
                break;
            }
            left.extend_from_slice(&b[..n as usize]);
        }
        libc::fcntl(0, libc::F_SETFL, fl);
    }
    emit(&merge(res, json!({"lflag_before": before, "lflag_after": after, "left": left})));
}

// ------------------------------------------------------------------------------ errno
fn cmd_errno() {
    let mut codes: Vec<i32> = (-3..=200).collect();
    codes.extend([511, 512, 513, 516, 529, 530, 4095, 4096, 65536, i32::MAX, i32::MIN, -4095]);
    for c in codes {
        let e = rusl::error::Errno::new(c);
        let shown = vharness::guarded(|| format!("{e}"));
        emit(&json!({"code": c, "raw": e.raw(), "as_str": e.as_str(), "display": shown.clone().unwrap_or_default(), "panic": shown.is_err(),
            "eq_self": e == rusl::error::Errno::new(c)}));
    }
}

fn main() {
    let a: Vec<String> = std::env::args().collect();
    match a.get(1).map(|s| s.as_str()) {
        Some("run") => cmd_run(&a[2]),
        Some("getpass") => {
            vharness::quiet_panics();
            cmd_getpass(a[2].parse().unwrap())
        }
        Some("errno") => cmd_errno(),
        _ => {
            eprintln!("usage: sigops run <plan> | getpass <buflen> | errno");
            std::process::exit(2)
        }
    }
}
