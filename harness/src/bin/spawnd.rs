//! C13 driver: builds a `tiny_std::process::Command` from a JSON plan, calls `spawn`, and reports
//! WHICH process passes the "spawn returned" point and with what result; then waits.
//!
//! usage: spawnd <plan.json> <events.ndjson>
//!
//! plan: {"bin":"/abs/h7", "args":["a","b"], "env":null|["K=v",..], "cwd":null|"/dir",
//!        "uid":null|N, "gid":null|N, "pgroup":null|N,
//!        "stdin"|"stdout"|"stderr": null|"inherit"|"null"|"pipe"|{"fd":N},
//!        "pre_exec":[0|errno|-1 ...]      (0 = Ok, errno>0 = Err(Os{code}), -1 = Err(Uncategorized))
//!        "open":[{"fd":N,"path":"..","write":bool}]   descriptors to prepare for Stdio::RawFd
//!        "wait":["wait"|"try"|"poll",..] the caller's calls on the returned Child (Child::wait / one
//!               Child::try_wait / stdin closed + try_wait polled until not None),
//!        "feed":"text"|null  (bytes written to a stdin pipe before waiting),
//!        "bulk":bool (use Command::args / Command::envs instead of repeated arg / env),
//!        "payload":N, "respawn":null|{"extra":"a3"|null}  (see the comments at the operation)}
//!
//! Markers for the tracer are writes to descriptor -1 (EBADF, no effect):
//!   MARK:spawn:begin                  just before `Command::spawn`
//!   MARK:returned:ok|err:<code|none>  first thing after it returned - in WHATEVER process
//!   MARK:pre:<i>                      inside pre-exec closure i
//!   MARK:alloc                        an allocator entry by a process that is not the caller while the
//!                                     spawn window is open (the forked child before exec / exit)
//!   MARK:spawn:end                    (caller only) after `Child::wait` (or at the end)
//! A process that passes the return point although it is not the caller exits with 97 at once.
use std::io::Write;
use tiny_std::process::{Command, Stdio};
use tiny_std::{Errno, UnixStr, UnixString};
use vharness::{json, Value};

/// Between fork and exec / _exit the forked child may only take async-signal-safe steps; in particular
/// it must not enter the allocator (another thread of the caller may hold the allocator's lock at the
/// moment of the fork - the child would block for ever, and the parent with it on the sync pipe).
/// Every allocator entry made while the spawn window is open by a process that is NOT the caller is
/// announced with a marker the tracer attributes to its task.
struct WatchedAlloc;
static WINDOW: std::sync::atomic::AtomicBool = std::sync::atomic::AtomicBool::new(false);
static CALLER: std::sync::atomic::AtomicI32 = std::sync::atomic::AtomicI32::new(0);
#[inline]
fn alloc_entry() {
    use std::sync::atomic::Ordering::Relaxed;
    if WINDOW.load(Relaxed) && unsafe { libc::getpid() } != CALLER.load(Relaxed) {
        let m = b"MARK:alloc";
        unsafe { libc::write(-1, m.as_ptr().cast(), m.len()) };
    }
}
unsafe impl std::alloc::GlobalAlloc for WatchedAlloc {
    unsafe fn alloc(&self, l: std::alloc::Layout) -> *mut u8 {
        alloc_entry();
        std::alloc::System.alloc(l)
    }
    unsafe fn dealloc(&self, p: *mut u8, l: std::alloc::Layout) {
        alloc_entry();
        std::alloc::System.dealloc(p, l)
    }
    unsafe fn alloc_zeroed(&self, l: std::alloc::Layout) -> *mut u8 {
        alloc_entry();
        std::alloc::System.alloc_zeroed(l)
    }
    unsafe fn realloc(&self, p: *mut u8, l: std::alloc::Layout, n: usize) -> *mut u8 {
        alloc_entry();
        std::alloc::System.realloc(p, l, n)
    }
}
#[global_allocator]
static GLOBAL: WatchedAlloc = WatchedAlloc;

fn mark(s: &str) {
    let m = format!("MARK:{s}");
    unsafe {
        libc::write(-1, m.as_ptr().cast(), m.len());
    }
}

fn ustring(s: &str) -> UnixString {
    UnixString::try_from_str(s).expect("plan strings contain no NUL")
}

fn fd_link(fd: i32) -> String {
    std::fs::read_link(format!("/proc/self/fd/{fd}"))
        .map(|p| p.to_string_lossy().into_owned())
        .unwrap_or_default()
}

fn fd_table() -> Value {
    let mut v = vec![];
    for fd in 0..256 {
        let fl = unsafe { libc::fcntl(fd, libc::F_GETFL) };
        if fl < 0 {
            continue;
        }
        let fdfl = unsafe { libc::fcntl(fd, libc::F_GETFD) };
        v.push(json!({"fd": fd, "link": fd_link(fd), "acc": fl & libc::O_ACCMODE, "cloexec": (fdfl & libc::FD_CLOEXEC != 0) as i32}));
    }
    Value::Array(v)
}

fn stdio_of(v: &Value) -> Option<Stdio> {
    match v {
        Value::Null => None,
        Value::String(s) => Some(match s.as_str() {
            "inherit" => Stdio::Inherit,
            "null" => Stdio::Null,
            "pipe" => Stdio::MakePipe,
            other => panic!("bad stdio {other}"),
        }),
        Value::Object(o) => {
            let fd = o["fd"].as_i64().unwrap() as i32;
            Some(Stdio::RawFd(rusl::platform::Fd::try_new(fd).unwrap()))
        }
        _ => panic!("bad stdio"),
    }
}

fn main() {
    let a: Vec<String> = std::env::args().collect();
    let plan: Value = serde_json::from_str(&std::fs::read_to_string(&a[1]).unwrap()).unwrap();
    let mut out = std::fs::OpenOptions::new().create(true).append(true).open(&a[2]).unwrap();
    // keep the event file out of the way of the low descriptor numbers and close-on-exec
    let outfd = {
        use std::os::fd::AsRawFd;
        let n = unsafe { libc::fcntl(out.as_raw_fd(), libc::F_DUPFD_CLOEXEC, 200) };
        assert!(n >= 200);
        n
    };
    drop(out);
    out = unsafe { <std::fs::File as std::os::fd::FromRawFd>::from_raw_fd(outfd) };
    let mut ev = |v: Value| {
        let mut s = serde_json::to_string(&v).unwrap();
        s.push('\n');
        out.write_all(s.as_bytes()).unwrap();
    };

    // descriptors for Stdio::RawFd
    if let Some(opens) = plan["open"].as_array() {
        for o in opens {
            let want = o["fd"].as_i64().unwrap() as i32;
            let path = std::ffi::CString::new(o["path"].as_str().unwrap()).unwrap();
            let flags = if o["write"].as_bool().unwrap_or(false) {
                libc::O_WRONLY | libc::O_CREAT | libc::O_APPEND
            } else {
                libc::O_RDONLY
            };
            unsafe {
                let fd = libc::open(path.as_ptr(), flags | libc::O_CLOEXEC, 0o644);
                assert!(fd >= 0, "open raw fd source");
                if fd != want {
                    assert!(libc::dup3(fd, want, libc::O_CLOEXEC) == want);
                    libc::close(fd);
                }
            }
        }
    }

    let bin = ustring(plan["bin"].as_str().unwrap());
    let args: Vec<UnixString> = plan["args"].as_array().map(|v| v.iter().map(|s| ustring(s.as_str().unwrap())).collect()).unwrap_or_default();
    let cwd: Option<UnixString> = plan["cwd"].as_str().map(ustring);
    let me = unsafe { libc::getpid() };
    let mut cwdbuf = [0u8; 4096];
    let mycwd = unsafe {
        libc::getcwd(cwdbuf.as_mut_ptr().cast(), cwdbuf.len());
        std::ffi::CStr::from_ptr(cwdbuf.as_ptr().cast()).to_string_lossy().into_owned()
    };
    let myenv: Vec<String> = std::env::vars_os().map(|(k, v)| format!("{}={}", k.to_string_lossy(), v.to_string_lossy())).collect();
    ev(json!({"ev":"driver","pid":me,"cwd":mycwd,"fds":fd_table(),"uid":unsafe{libc::getuid()},"gid":unsafe{libc::getgid()},
              "pgrp":unsafe{libc::getpgrp()},"sid":unsafe{libc::getsid(0)},"envp":myenv}));

    let bin_ref: &UnixStr = &bin;
    let mut cmd = Command::new(bin_ref).unwrap();
    let bulk = plan["bulk"].as_bool().unwrap_or(false);
    if bulk {
        // the iterator forms of the builder
        cmd.args(args.iter().map(|s| -> &UnixStr { s }));
        if let Some(envs) = plan["env"].as_array() {
            cmd.envs(envs.iter().map(|e| ustring(e.as_str().unwrap())));
        }
    } else {
        for s in &args {
            cmd.arg(s);
        }
        if let Some(envs) = plan["env"].as_array() {
            for e in envs {
                cmd.env(ustring(e.as_str().unwrap()));
            }
        }
    }
    if let Some(c) = &cwd {
        cmd.cwd(c);
    }
    if let Some(u) = plan["uid"].as_i64() {
        cmd.uid(u as _);
    }
    if let Some(g) = plan["gid"].as_i64() {
        cmd.gid(g as _);
    }
    if let Some(p) = plan["pgroup"].as_i64() {
        cmd.pgroup(p as _);
    }
    if let Some(s) = stdio_of(&plan["stdin"]) {
        cmd.stdin(s);
    }
    if let Some(s) = stdio_of(&plan["stdout"]) {
        cmd.stdout(s);
    }
    if let Some(s) = stdio_of(&plan["stderr"]) {
        cmd.stderr(s);
    }
    if let Some(pre) = plan["pre_exec"].as_array() {
        for (i, p) in pre.iter().enumerate() {
            let code = p.as_i64().unwrap() as i32;
            unsafe {
                cmd.pre_exec(move || {
                    // no allocation here: the closure runs in the forked child
                    let m = [b'M', b'A', b'R', b'K', b':', b'p', b'r', b'e', b':', b'1' + i as u8];
                    libc::write(-1, m.as_ptr().cast(), m.len());
                    if code == 0 {
                        Ok(())
                    } else if code > 0 {
                        Err(tiny_std::Error::Os { msg: "pre_exec plan", code: Errno::new(code) })
                    } else {
                        Err(tiny_std::Error::Uncategorized("pre_exec plan"))
                    }
                });
            }
        }
    }

    // ---- the operation under test -------------------------------------------------------
    // Everything the marker needs is prepared before, so that no system call lies between the
    // return of spawn and the marker.
    let begin = b"MARK:spawn:begin";
    let end = b"MARK:spawn:end";
    // "respawn": null | {"extra": "a3"|null}: the SAME Command value is spawned a second time,
    // optionally after one more builder step
    let rounds = if plan["respawn"].is_object() { 2 } else { 1 };
    let extra: Option<UnixString> = plan["respawn"]["extra"].as_str().map(ustring);
    // the caller's calls on the returned Child, in the planned order:
    //   "wait" Child::wait | "try" one Child::try_wait | "poll" close stdin, try_wait until not None
    //   "W" write the payload (plan "payload" bytes of a fixed pattern) to Child::stdin | "C" drop Child::stdin
    //   "RO" / "RE" read Child::stdout / Child::stderr to end-of-file
    let ops: Vec<String> = match &plan["wait"] {
        Value::Array(a) => a.iter().map(|x| x.as_str().unwrap().to_string()).collect(),
        Value::Bool(false) => vec![],
        Value::String(m) if m == "try" => vec!["poll".to_string()],
        _ => vec!["wait".to_string()],
    };
    let payload: Vec<u8> = (0..plan["payload"].as_u64().unwrap_or(0) as usize).map(|i| ((i * 7 + 13) % 251) as u8).collect();
    for round in 1..=rounds {
        if round == 2 {
            if let Some(x) = &extra {
                cmd.arg(x);
            }
        }
        let mut mbuf = [0u8; 64];
        CALLER.store(me, std::sync::atomic::Ordering::Relaxed);
        WINDOW.store(true, std::sync::atomic::Ordering::Relaxed);
        unsafe { libc::write(-1, begin.as_ptr().cast(), begin.len()) };
        let res = cmd.spawn();
        let n = {
            let mut c = std::io::Cursor::new(&mut mbuf[..]);
            match &res {
                Ok(_) => write!(c, "MARK:returned:ok").unwrap(),
                Err(tiny_std::Error::Os { code, .. }) => write!(c, "MARK:returned:err:{}", code.raw()).unwrap(),
                Err(_) => write!(c, "MARK:returned:err:none").unwrap(),
            }
            c.position() as usize
        };
        unsafe { libc::write(-1, mbuf.as_ptr().cast(), n) };
        if unsafe { libc::getpid() } != me {
            // a second copy of the caller: this is the behaviour the property forbids; get out
            unsafe { libc::_exit(97) };
        }
        WINDOW.store(false, std::sync::atomic::Ordering::Relaxed);
        // -----------------------------------------------------------------------------------
        match res {
            Err(e) => {
                let code = if let tiny_std::Error::Os { code, .. } = e { json!(code.raw()) } else { Value::Null };
                ev(json!({"ev":"returned","round":round,"res":"err","code":code,"msg":format!("{e}")}));
            }
            Ok(mut child) => {
                use tiny_std::unix::fd::AsRawFd;
                let pfd = |p: &Option<tiny_std::process::AnonPipe>| match p {
                    Some(p) => {
                        let fd = p.borrow_fd().as_raw_fd().value();
                        let fl = unsafe { libc::fcntl(fd, libc::F_GETFL) };
                        json!({"fd": fd, "link": fd_link(fd), "acc": fl & libc::O_ACCMODE})
                    }
                    None => Value::Null,
                };
                ev(json!({"ev":"returned","round":round,"res":"ok","child_pid":child.get_pid(),"fds":fd_table(),
                          "pipes":{"stdin":pfd(&child.stdin),"stdout":pfd(&child.stdout),"stderr":pfd(&child.stderr)}}));
                if let (Some(feed), Some(p)) = (plan["feed"].as_str(), child.stdin.as_mut()) {
                    use tiny_std::io::Write as _;
                    let _ = p.write(feed.as_bytes());
                }
                let read_all = |p: &mut Option<tiny_std::process::AnonPipe>| -> Value {
                    use tiny_std::io::Read as _;
                    let Some(p) = p.as_mut() else { return json!({"res":"nopipe"}) };
                    let (mut n, mut a, mut b) = (0u64, 1u32, 0u32);
                    let mut head = Vec::new();
                    let mut buf = [0u8; 8192];
                    loop {
                        match p.read(&mut buf) {
                            Ok(0) => break json!({"res":"eof","n":n,"a":a,"b":b,"head":String::from_utf8_lossy(&head)}),
                            Ok(k) => {
                                for &c in &buf[..k] {
                                    a = (a + c as u32) % 65521;
                                    b = (b + a) % 65521;
                                }
                                if head.len() < 48 {
                                    head.extend_from_slice(&buf[..k.min(48 - head.len())]);
                                }
                                n += k as u64;
                            }
                            Err(_) => break json!({"res":"err","n":n,"a":a,"b":b,"head":""}),
                        }
                    }
                };
                for op in &ops {
                    match op.as_str() {
                        "W" => {
                            use tiny_std::io::Write as _;
                            let mut off = 0;
                            let mut res = "ok";
                            if let Some(p) = child.stdin.as_mut() {
                                while off < payload.len() {
                                    match p.write(&payload[off..]) {
                                        Ok(k) if k > 0 => off += k,
                                        _ => {
                                            res = "err";
                                            break;
                                        }
                                    }
                                }
                            } else {
                                res = "nopipe";
                            }
                            ev(json!({"ev":"io","round":round,"op":"W","res":res,"n":off}));
                            continue;
                        }
                        "C" => {
                            drop(child.stdin.take());
                            ev(json!({"ev":"io","round":round,"op":"C","res":"ok","n":0}));
                            continue;
                        }
                        "RO" | "RE" => {
                            let mut v = read_all(if op == "RO" { &mut child.stdout } else { &mut child.stderr });
                            v["ev"] = json!("io");
                            v["round"] = json!(round);
                            v["op"] = json!(op);
                            ev(v);
                            continue;
                        }
                        _ => {}
                    }
                    let r: Result<Option<i32>, tiny_std::Error> = match op.as_str() {
                        "wait" => child.wait().map(Some),
                        "try" => child.try_wait(),
                        _ => {
                            // try_wait keeps the stdin pipe open: close it like `wait` does, or a child
                            // reading its stdin to the end never finishes
                            drop(child.stdin.take());
                            loop {
                                match child.try_wait() {
                                    Ok(None) => unsafe {
                                        libc::usleep(2000);
                                    },
                                    other => break other,
                                }
                            }
                        }
                    };
                    match r {
                        Ok(Some(st)) => ev(json!({"ev":"waited","round":round,"op":op,"res":"ok","status":st})),
                        Ok(None) => ev(json!({"ev":"waited","round":round,"op":op,"res":"none","status":0})),
                        Err(e) => {
                            let code = if let tiny_std::Error::Os { code, .. } = e { code.raw() } else { 0 };
                            ev(json!({"ev":"waited","round":round,"op":op,"res":"err","status":code}))
                        }
                    }
                }
            }
        }
        unsafe { libc::write(-1, end.as_ptr().cast(), end.len()) };
    }
    ev(json!({"ev":"driver_end","fds":fd_table()}));
}
