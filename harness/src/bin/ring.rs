//! C17 driver (instrument I2a of DESIGN.md): the REAL `IoUring` methods of rusl
//! (`get_next_sqe_slot`, `flush_submission_queue`, `get_next_cqe`) over ring memory owned by this
//! harness (hook H5, `IoUring::verif_from_raw_parts`), with a simulated kernel on the other side of
//! that memory: it consumes submissions (through the `sq_array` indirection, like the kernel) and
//! posts completions, deciding what it may do from the shared head/tail words only.
//!
//! The head/tail counters start at `2^32 - H + m` (m = the model's start position), so the wrap of
//! the model's counters is the real u32 wrap.  Counters are reported relative to `2^32 - H`
//! ("m-space"), entry contents are sequence stamps kept in `user_data`.
//!
//! usage: ring plan <plan.ndjson>          one run per line, steps as generated from Ring.tla
//!        ring random <runs> <steps> <seed> <gap_permille> <max_ring_log2>
//!        ring explore <ns> <nc> <depth>   every feasible operation sequence up to <depth> on the real code
//! stdout: ndjson events (see specs/RingTrace.tla); every event of a step carries the observed
//! state ("st": local sq head/tail, kernel-visible sq head/tail, cq head/tail; slot contents).
use std::alloc::{alloc_zeroed, dealloc, Layout};
use std::io::BufRead;
use std::mem::ManuallyDrop;
use std::sync::atomic::{AtomicU32, Ordering};

use rusl::platform::{
    Fd, IoUring, IoUringCompletionQueueEntry, IoUringParamFlags, IoUringSubmissionQueueEntry,
};
use rusl::verif::VerifRingLayout;
use vharness::{guarded, json, quiet_panics, Out, Rng, Value};

const NONE: i64 = -1;
const PANIC: i64 = -2;
const BADPTR: i64 = -3;
const FLAG_SQPOLL: u32 = 1 << 1;
const FLAG_SQE128: u32 = 1 << 10;
const FLAG_CQE32: u32 = 1 << 11;

/// 2^bits mod 2^32 for the boundary the run's counters are placed around
fn boundary() -> u32 {
    match std::env::var("VERIF_RING_BOUNDARY_BITS").ok().and_then(|x| x.parse::<u32>().ok()) {
        Some(b) if b < 32 => 1u32 << b,
        _ => 0,
    }
}
fn boundary_bits() -> u32 {
    std::env::var("VERIF_RING_BOUNDARY_BITS").ok().and_then(|x| x.parse::<u32>().ok()).filter(|b| *b < 32).unwrap_or(32)
}

fn clip(v: u64) -> i64 {
    if v == u64::MAX {
        -1
    } else if v < 0x7fff_fff0 {
        v as i64
    } else {
        0x7fff_fff0
    }
}

/// The submission index array as the library's REAL set-up leaves it for a ring of this size and these flags
/// (`setup_io_uring` on the real kernel, read back through the hook accessor).  The simulated kernel consumes
/// `sqes + array[position & mask] * entry size` exactly like the real one, so a wrong array yields a wrong or
/// out-of-ring entry.  None: the kernel refused the set-up (then the harness' own identity map is used and says so).
fn real_index_array(ns: u32, flags: u32) -> Option<Vec<u32>> {
    static mut CACHE: Option<std::collections::HashMap<(u32, u32), Option<Vec<u32>>>> = None;
    #[allow(static_mut_refs)]
    let cache = unsafe { CACHE.get_or_insert_with(Default::default) };
    let key = (ns, flags & (FLAG_SQE128 | FLAG_CQE32));
    cache
        .entry(key)
        .or_insert_with(|| {
            let mut pf = IoUringParamFlags::empty();
            if flags & FLAG_SQE128 != 0 {
                pf = pf | IoUringParamFlags::IORING_SETUP_SQE128;
            }
            if flags & FLAG_CQE32 != 0 {
                pf = pf | IoUringParamFlags::IORING_SETUP_CQE32;
            }
            let ring = rusl::io_uring::setup_io_uring(ns, pf, 0, 0).ok()?;
            let (se, _, _, _) = ring.verif_ring_geometry();
            if se != ns {
                return None;
            }
            Some((0..ns).map(|i| unsafe { ring.verif_sq_index_array(i) }).collect())
        })
        .clone()
}

struct Sim {
    mem: *mut u8,
    layout: Layout,
    ns: u32,
    nc: u32,
    sshift: u32,
    cshift: u32,
    base: u32,
    sq_khead: *const AtomicU32,
    sq_ktail: *const AtomicU32,
    sq_array: *const AtomicU32,
    sq_kflags: *const AtomicU32,
    sqes: *mut u8,
    cq_khead: *const AtomicU32,
    cq_ktail: *const AtomicU32,
    cqes: *mut u8,
    ring: ManuallyDrop<IoUring>,
    /// handed out, not yet filled: (slot, stamp, pointer)
    pending: Vec<(i64, i64, *mut IoUringSubmissionQueueEntry)>,
    next_stamp: i64,
    c_stamp: i64,
    held: Option<(i64, *const IoUringCompletionQueueEntry)>,
    dead: bool,
}

impl Sim {
    /// ring sizes ns/nc, setup flags, H and the start positions (m-space) of the two rings
    fn new(ns: u32, nc: u32, flags: u32, h: u32, sq0: u32, cq0: u32) -> Sim {
        let sshift = u32::from(flags & FLAG_SQE128 != 0);
        let cshift = u32::from(flags & FLAG_CQE32 != 0);
        let sqe_sz = 64usize << sshift;
        let cqe_sz = 16usize << cshift;
        // [page 0] sq ring words + array; [page 1..] sqes ; then cq ring words; cqes; with gaps
        let sq_ring_off = 64usize;
        let sq_array_off = sq_ring_off + 64;
        let sqes_off = 4096usize;
        let cq_ring_off = sqes_off + sqe_sz * ns as usize + 4096;
        let cqes_off = cq_ring_off + 64;
        let total = cqes_off + cqe_sz * nc as usize + 4096;
        let layout = Layout::from_size_align(total, 4096).unwrap();
        let mem = unsafe { alloc_zeroed(layout) };
        assert!(!mem.is_null());
        // m = h stands for the real value 2^bits (default 32: the u32 wrap); VERIF_RING_BOUNDARY_BITS moves the window of
        // start values to another boundary where a signed or narrower reading of the counters would change sign / wrap
        let base = boundary().wrapping_sub(h);
        let at = |off: usize| unsafe { mem.add(off) };
        let sq_khead = at(sq_ring_off).cast::<AtomicU32>();
        let sq_ktail = at(sq_ring_off + 4).cast::<AtomicU32>();
        let sq_kflags = at(sq_ring_off + 8).cast::<AtomicU32>();
        let sq_kdropped = at(sq_ring_off + 12).cast::<AtomicU32>();
        let sq_array = at(sq_array_off).cast::<AtomicU32>();
        let cq_khead = at(cq_ring_off).cast::<AtomicU32>();
        let cq_ktail = at(cq_ring_off + 4).cast::<AtomicU32>();
        let cq_kover = at(cq_ring_off + 8).cast::<AtomicU32>();
        let sqes = at(sqes_off);
        let cqes = at(cqes_off);
        unsafe {
            (*sq_khead).store(base.wrapping_add(sq0), Ordering::Relaxed);
            (*sq_ktail).store(base.wrapping_add(sq0), Ordering::Relaxed);
            (*cq_khead).store(base.wrapping_add(cq0), Ordering::Relaxed);
            (*cq_ktail).store(base.wrapping_add(cq0), Ordering::Relaxed);
            // the index array: what the library's real set-up writes (identity if the kernel has no io_uring here)
            let real = real_index_array(ns, flags);
            for i in 0..ns {
                (*sq_array.add(i as usize)).store(real.as_ref().map_or(i, |a| a[i as usize]), Ordering::Relaxed);
            }
            // "never written" marker in every entry
            for i in 0..ns as usize {
                sqes.add(i * sqe_sz + 32).cast::<u64>().write(u64::MAX);
            }
            for i in 0..nc as usize {
                cqes.add(i * cqe_sz).cast::<u64>().write(u64::MAX);
            }
        }
        let mut pf = IoUringParamFlags::empty();
        if flags & FLAG_SQPOLL != 0 {
            pf = pf | IoUringParamFlags::IORING_SETUP_SQPOLL;
        }
        if flags & FLAG_SQE128 != 0 {
            pf = pf | IoUringParamFlags::IORING_SETUP_SQE128;
        }
        if flags & FLAG_CQE32 != 0 {
            pf = pf | IoUringParamFlags::IORING_SETUP_CQE32;
        }
        let l = VerifRingLayout {
            fd: Fd::try_new(1_000_000).unwrap(),
            flags: pf,
            sq_ring_ptr: mem as usize,
            sq_ring_size: 4096,
            sq_khead: sq_khead as usize,
            sq_ktail: sq_ktail as usize,
            sq_kflags: sq_kflags as usize,
            sq_kdropped: sq_kdropped as usize,
            sq_array: sq_array as usize,
            sq_entries: ns,
            sqes: sqes as usize,
            cq_ring_ptr: at(cq_ring_off) as usize,
            cq_ring_size: 4096,
            cq_khead: cq_khead as usize,
            cq_ktail: cq_ktail as usize,
            cq_koverflow: cq_kover as usize,
            cq_entries: nc,
            cqes: cqes as usize,
            sq_local_head: base.wrapping_add(sq0),
            sq_local_tail: base.wrapping_add(sq0),
        };
        let ring = ManuallyDrop::new(unsafe { IoUring::verif_from_raw_parts(&l) });
        Sim {
            mem,
            layout,
            ns,
            nc,
            sshift,
            cshift,
            base,
            sq_khead,
            sq_ktail,
            sq_array,
            sq_kflags,
            sqes,
            cq_khead,
            cq_ktail,
            cqes,
            ring,
            pending: Vec::new(),
            next_stamp: i64::from(sq0),
            c_stamp: i64::from(cq0),
            held: None,
            dead: false,
        }
    }

    fn rel(&self, v: u32) -> i64 {
        let r = v.wrapping_sub(self.base);
        if r < 0x4000_0000 {
            i64::from(r)
        } else {
            // "behind" the base or garbage
            -(i64::from(self.base.wrapping_sub(v).min(0x3fff_ffff))) - 10
        }
    }
    fn ld(p: *const AtomicU32) -> u32 {
        unsafe { (*p).load(Ordering::Acquire) }
    }
    fn sqe_stamp(&self, slot: u32) -> u64 {
        unsafe {
            self.sqes
                .add(((slot << self.sshift) as usize) * 64 + 32)
                .cast::<u64>()
                .read_volatile()
        }
    }
    fn cqe_stamp(&self, slot: u32) -> u64 {
        unsafe {
            self.cqes
                .add(((slot << self.cshift) as usize) * 16)
                .cast::<u64>()
                .read_volatile()
        }
    }
    /// the index array as the simulated kernel sees it (for the reset event)
    fn describe(&self, ev: &mut Value) {
        let arr: Vec<i64> = (0..self.ns).map(|i| i64::from(unsafe { (*self.sq_array.add(i as usize)).load(Ordering::Relaxed) }).min(0x7fff_fff0)).collect();
        ev["arr"] = json!(arr);
        ev["boundary_bits"] = json!(boundary_bits());
        ev["arr_from_real_setup"] = json!(real_index_array(self.ns, (if self.sshift == 1 { FLAG_SQE128 } else { 0 }) | (if self.cshift == 1 { FLAG_CQE32 } else { 0 })).is_some());
    }
    /// observed state after a step
    fn state(&self, ev: &mut Value) {
        let st = vec![
            self.rel(self.ring.verif_sq_local_head()),
            self.rel(self.ring.verif_sq_local_tail()),
            self.rel(Self::ld(self.sq_khead)),
            self.rel(Self::ld(self.sq_ktail)),
            self.rel(Self::ld(self.cq_khead)),
            self.rel(Self::ld(self.cq_ktail)),
        ];
        let sqs: Vec<i64> = (0..self.ns).map(|i| clip(self.sqe_stamp(i))).collect();
        let cqs: Vec<i64> = (0..self.nc).map(|i| clip(self.cqe_stamp(i))).collect();
        let want: Vec<i64> = (0..self.ns)
            .map(|i| {
                self.pending
                    .iter()
                    .find(|p| p.0 == i64::from(i))
                    .map_or(-1, |p| p.1)
            })
            .collect();
        ev["st"] = json!(st);
        ev["sqs"] = json!(sqs);
        ev["cqs"] = json!(cqs);
        ev["want"] = json!(want);
        ev["held"] = json!(self.held.map_or(-1, |h| h.0));
    }

    // ---- application side: the real methods --------------------------------------------------
    fn get(&mut self) -> Value {
        let ring = &mut *self.ring;
        let r = guarded(|| ring.get_next_sqe_slot());
        let ret = match r {
            Err(_) => {
                self.dead = true;
                PANIC
            }
            Ok(None) => NONE,
            Ok(Some(p)) => {
                let off = (p as usize).wrapping_sub(self.sqes as usize);
                let esz = 64usize << self.sshift;
                if off % esz == 0 && off / esz < self.ns as usize {
                    let slot = (off / esz) as i64;
                    self.pending.push((slot, self.next_stamp, p));
                    self.next_stamp += 1;
                    slot
                } else {
                    self.dead = true; // never touch such a pointer
                    BADPTR
                }
            }
        };
        json!({"ev":"get","ret":ret})
    }
    fn fill(&mut self, slot: i64) -> Value {
        let Some(ix) = self.pending.iter().position(|p| p.0 == slot) else {
            return json!({"ev":"skip","op":"fill"});
        };
        let (slot, stamp, p) = self.pending.remove(ix);
        unsafe {
            // what a caller does: `slot.write(entry)`; only user_data matters to the simulated kernel
            std::ptr::addr_of_mut!((*p).0.user_data).write_volatile(stamp as u64);
        }
        json!({"ev":"fill","slot":slot,"stamp":stamp})
    }
    fn kavail(&self) -> i64 {
        let n = Self::ld(self.sq_ktail).wrapping_sub(Self::ld(self.sq_khead));
        i64::from(n.min(self.ns))
    }
    fn flush(&mut self) -> Value {
        if !self.pending.is_empty() {
            return json!({"ev":"skip","op":"flush"});
        }
        let ring = &mut *self.ring;
        let r = guarded(|| ring.flush_submission_queue());
        let ret = match r {
            Err(_) => {
                self.dead = true;
                PANIC
            }
            Ok(n) => {
                if n < 0x4000_0000 {
                    i64::from(n)
                } else {
                    0x7fff_fff0
                }
            }
        };
        json!({"ev":"flush","ret":ret,"kavail":self.kavail()})
    }
    fn reap(&mut self) -> Value {
        if self.held.is_some() {
            return json!({"ev":"skip","op":"reap"});
        }
        let ring = &mut *self.ring;
        let r = guarded(|| {
            ring.get_next_cqe()
                .map(|c| c as *const IoUringCompletionQueueEntry)
        });
        let ret = match r {
            Err(_) => {
                self.dead = true;
                PANIC
            }
            Ok(None) => NONE,
            Ok(Some(p)) => {
                let off = (p as usize).wrapping_sub(self.cqes as usize);
                let esz = 16usize << self.cshift;
                if off % esz == 0 && off / esz < self.nc as usize {
                    let slot = (off / esz) as i64;
                    self.held = Some((slot, p));
                    slot
                } else {
                    self.dead = true;
                    BADPTR
                }
            }
        };
        json!({"ev":"reap","ret":ret})
    }
    fn read(&mut self) -> Value {
        let Some((_, p)) = self.held.take() else {
            return json!({"ev":"skip","op":"read"});
        };
        let v = unsafe { std::ptr::addr_of!((*p).0.user_data).read_volatile() };
        json!({"ev":"read","val":clip(v)})
    }

    // ---- kernel side: decides from the shared words only --------------------------------------
    fn consume(&mut self, want: u32) -> Value {
        let mut head = Self::ld(self.sq_khead);
        let tail = Self::ld(self.sq_ktail);
        let avail = tail.wrapping_sub(head).min(self.ns);
        let k = want.min(avail);
        if k == 0 {
            return json!({"ev":"skip","op":"consume"});
        }
        let mut stamps = Vec::new();
        for _ in 0..k {
            let ix = unsafe { (*self.sq_array.add((head & (self.ns - 1)) as usize)).load(Ordering::Relaxed) };
            if ix < self.ns {
                stamps.push(clip(self.sqe_stamp(ix)));
            } else {
                stamps.push(-4); // the kernel would drop such an entry
            }
            head = head.wrapping_add(1);
        }
        unsafe { (*self.sq_khead).store(head, Ordering::Release) };
        json!({"ev":"consume","k":k,"stamps":stamps})
    }
    fn post(&mut self, want: u32) -> Value {
        let head = Self::ld(self.cq_khead);
        let mut tail = Self::ld(self.cq_ktail);
        let used = tail.wrapping_sub(head);
        let free = if used <= self.nc { self.nc - used } else { 0 };
        let k = want.min(free);
        if k == 0 {
            return json!({"ev":"skip","op":"post"});
        }
        let mut stamps = Vec::new();
        for _ in 0..k {
            let slot = tail & (self.nc - 1);
            unsafe {
                let p = self.cqes.add(((slot << self.cshift) as usize) * 16);
                p.cast::<u64>().write_volatile(self.c_stamp as u64);
                p.add(8).cast::<i32>().write_volatile(self.c_stamp as i32);
                p.add(12).cast::<u32>().write_volatile(0);
            }
            stamps.push(self.c_stamp);
            self.c_stamp += 1;
            tail = tail.wrapping_add(1);
        }
        unsafe { (*self.cq_ktail).store(tail, Ordering::Release) };
        json!({"ev":"post","k":k,"stamps":stamps})
    }

    /// the kernel side sets the flags word of the submission ring (IORING_SQ_NEED_WAKEUP = 1, CQ_OVERFLOW = 2,
    /// TASKRUN = 4), the application asks needs_wakeup()
    fn wakeup(&mut self, flags: u32) -> Value {
        unsafe { (*self.sq_kflags).store(flags, Ordering::Release) };
        let ring = &*self.ring;
        let r = guarded(|| ring.needs_wakeup());
        unsafe { (*self.sq_kflags).store(0, Ordering::Release) };
        match r {
            Ok(b) => json!({"ev":"wakeup","flags":flags,"ret":b}),
            Err(_) => {
                self.dead = true;
                json!({"ev":"get","ret":PANIC})
            }
        }
    }

    fn step(&mut self, op: &str, arg: i64) -> Value {
        let mut ev = match op {
            "wakeup" => self.wakeup(arg as u32),
            "get" => self.get(),
            "fill" => self.fill(arg),
            "flush" => self.flush(),
            "consume" => self.consume(arg as u32),
            "post" => self.post(arg as u32),
            "reap" => self.reap(),
            "read" => self.read(),
            _ => panic!("unknown op {op}"),
        };
        self.state(&mut ev);
        ev
    }
}

impl Drop for Sim {
    fn drop(&mut self) {
        unsafe { dealloc(self.mem, self.layout) };
    }
}

fn build() -> &'static str {
    if cfg!(debug_assertions) {
        "debug"
    } else {
        "release"
    }
}

fn run_plan(path: &str, out: &mut Out) {
    let f = std::io::BufReader::new(std::fs::File::open(path).unwrap());
    for line in f.lines() {
        let line = line.unwrap();
        if line.trim().is_empty() {
            continue;
        }
        let p: Value = serde_json::from_str(&line).unwrap();
        let g = |k: &str| p[k].as_u64().unwrap() as u32;
        let (ns, nc, flags, h, sq0, cq0) = (g("ns"), g("nc"), g("flags"), g("h"), g("sq0"), g("cq0"));
        let mut sim = Sim::new(ns, nc, flags, h, sq0, cq0);
        let mut reset = json!({"ev":"reset","run":p["run"],"ns":ns,"nc":nc,"flags":flags,"h":h,"sq0":sq0,"cq0":cq0,"build":build()});
        sim.state(&mut reset);
        sim.describe(&mut reset);
        out.ev(&reset);
        for (k, s) in p["steps"].as_array().unwrap().iter().enumerate() {
            let op = s[0].as_str().unwrap();
            let arg = s.get(1).and_then(Value::as_i64).unwrap_or(0);
            let mut ev = sim.step(op, arg);
            ev["k"] = json!(k);
            out.ev(&ev);
            if sim.dead {
                break;
            }
        }
    }
}

/// Seeded random long runs: the harness chooses among the operations that are feasible in its own
/// bookkeeping; the kernel side acts on whatever the shared words allow.
fn run_random(runs: u64, steps: u64, seed: u64, gap_permille: u64, max_log2: u64, out: &mut Out) {
    let mut rng = Rng::new(seed);
    for run in 0..runs {
        let ns = 1u32 << rng.below(max_log2 + 1);
        let nc = match rng.below(3) {
            0 => ns,
            1 => (ns * 2).min(1 << max_log2),
            _ => 1u32 << rng.below(max_log2 + 1),
        };
        let mut flags = 0;
        if rng.below(2) == 0 {
            flags |= FLAG_SQPOLL;
        }
        if rng.below(3) == 0 {
            flags |= FLAG_SQE128;
        }
        if rng.below(3) == 0 {
            flags |= FLAG_CQE32;
        }
        // start close below the wrap (most runs), exactly at it, or far from it
        let h: u32 = 1 << 20;
        let start = |rng: &mut Rng, n: u32| -> u32 {
            match rng.below(8) {
                0 => h,                                   // real value 0
                1 => h - 1,                               // u32::MAX
                2 => h / 2 + rng.below(1000) as u32,      // far below the wrap
                _ => h - 1 - rng.below(3 * u64::from(n) + 2) as u32,
            }
        };
        let sq0 = start(&mut rng, ns);
        let cq0 = start(&mut rng, nc);
        let gaps = rng.below(1000) < gap_permille; // this run lets the kernel act between reap and read
        let mut sim = Sim::new(ns, nc, flags, h, sq0, cq0);
        let mut reset = json!({"ev":"reset","run":run,"ns":ns,"nc":nc,"flags":flags,"h":h,"sq0":sq0,"cq0":cq0,"build":build(),"gaps":gaps,"seed":seed});
        sim.state(&mut reset);
        sim.describe(&mut reset);
        out.ev(&reset);
        // phases bias the rings towards full / empty so that both boundaries are visited
        let mut bias = 0;
        for k in 0..steps {
            if k % 64 == 0 {
                bias = rng.below(4);
            }
            let mut ops: Vec<(&str, i64)> = Vec::new();
            if sim.held.is_some() {
                ops.push(("read", 0));
                if gaps {
                    ops.push(("post", 1 + rng.below(u64::from(nc)) as i64));
                    ops.push(("consume", 1 + rng.below(u64::from(ns)) as i64));
                    ops.push(("get", 0));
                }
            } else {
                let w_app_sq = if bias == 0 { 3 } else { 1 };
                let w_k_sq = if bias == 1 { 3 } else { 1 };
                let w_k_cq = if bias == 2 { 3 } else { 1 };
                let w_app_cq = if bias == 3 { 3 } else { 1 };
                for _ in 0..w_app_sq {
                    ops.push(("get", 0));
                    if let Some(p) = sim.pending.get(rng.below(sim.pending.len().max(1) as u64) as usize) {
                        ops.push(("fill", p.0));
                    }
                    if sim.pending.is_empty() {
                        ops.push(("flush", 0));
                    }
                }
                for _ in 0..w_k_sq {
                    ops.push(("consume", 1 + rng.below(u64::from(ns)) as i64));
                }
                for _ in 0..w_k_cq {
                    ops.push(("post", 1 + rng.below(u64::from(nc)) as i64));
                }
                for _ in 0..w_app_cq {
                    ops.push(("reap", 0));
                }
            }
            let (op, arg) = *rng.pick(&ops);
            let mut ev = sim.step(op, arg);
            if ev["ev"] == "skip" {
                continue;
            }
            ev["k"] = json!(k);
            out.ev(&ev);
            if sim.dead {
                break;
            }
            // mostly read right away
            if op == "reap" && sim.held.is_some() && (!gaps || rng.below(2) == 0) {
                let mut ev = sim.step("read", 0);
                ev["k"] = json!(k);
                out.ev(&ev);
            }
        }
    }
}

/// Bounded exhaustive exploration of the REAL code (no model in the loop): every sequence of at most `depth`
/// operations that is feasible in the harness' bookkeeping and on the real shared words, from the given start
/// positions.  Stateless: a sequence is re-executed from a fresh ring; one run is emitted per maximal sequence.
fn explore(ns: u32, nc: u32, flags: u32, h: u32, sq0: u32, cq0: u32, depth: usize, run: &mut u64, out: &mut Out) {
    fn rec(cfg: (u32, u32, u32, u32, u32, u32), path: &mut Vec<(&'static str, i64)>, depth: usize, run: &mut u64, out: &mut Out) {
        let (ns, nc, flags, h, sq0, cq0) = cfg;
        let mut sim = Sim::new(ns, nc, flags, h, sq0, cq0);
        let mut evs = Vec::new();
        for (k, (op, arg)) in path.iter().enumerate() {
            let mut ev = sim.step(op, *arg);
            ev["k"] = json!(k);
            evs.push(ev);
        }
        let mut next: Vec<(&'static str, i64)> = Vec::new();
        if !sim.dead && path.len() < depth {
            if sim.held.is_some() {
                next.push(("read", 0));
            } else {
                next.push(("get", 0));
                for p in &sim.pending {
                    next.push(("fill", p.0));
                }
                if sim.pending.is_empty() {
                    next.push(("flush", 0));
                }
                next.push(("reap", 0));
                let avail = Sim::ld(sim.sq_ktail).wrapping_sub(Sim::ld(sim.sq_khead)).min(ns);
                for k in 1..=avail {
                    next.push(("consume", i64::from(k)));
                }
            }
            let used = Sim::ld(sim.cq_ktail).wrapping_sub(Sim::ld(sim.cq_khead));
            let free = if used <= nc { nc - used } else { 0 };
            for k in 1..=free {
                next.push(("post", i64::from(k)));
            }
        }
        if next.is_empty() {
            let mut reset = json!({"ev":"reset","run":*run,"ns":ns,"nc":nc,"flags":flags,"h":h,"sq0":sq0,"cq0":cq0,"build":build(),
                "steps": path.iter().map(|(o, a)| json!([o, a])).collect::<Vec<_>>()});
            *run += 1;
            let fresh = Sim::new(ns, nc, flags, h, sq0, cq0);
            fresh.state(&mut reset);
            fresh.describe(&mut reset);
            out.ev(&reset);
            for ev in &evs {
                out.ev(ev);
            }
            return;
        }
        drop(sim);
        for n in next {
            path.push(n);
            rec(cfg, path, depth, run, out);
            path.pop();
        }
    }
    let mut path = Vec::new();
    rec((ns, nc, flags, h, sq0, cq0), &mut path, depth, run, out);
}

fn main() {
    quiet_panics();
    let a: Vec<String> = std::env::args().collect();
    let mut out = Out::new();
    match a[1].as_str() {
        "plan" => run_plan(&a[2], &mut out),
        "explore" => {
            // explore <ns> <nc> <depth> : start positions around the wrap
            let n = |i: usize| a[i].parse::<u64>().unwrap();
            let (ns, nc, depth) = (n(2) as u32, n(3) as u32, n(4) as usize);
            let h = 8u32.max(2 * ns.max(nc));
            let mut run = 0u64;
            for s0 in [h - 2, h - 1, h] {
                explore(ns, nc, 0, h, s0, s0, depth, &mut run, &mut out);
            }
        }
        "random" => {
            let n = |i: usize| a[i].parse::<u64>().unwrap();
            run_random(n(2), n(3), n(4), n(5), n(6), &mut out);
        }
        _ => panic!("usage"),
    }
    out.flush();
}
