//! C10/C11 driver: runs the real UnixStr/UnixString operations on input vectors and reports the
//! raw results.  Operands live at the end of a page that is followed by a PROT_NONE page, so a
//! read outside an argument is a SIGSEGV, reported as {"crash":..} (exit 42).
//!
//! usage: ustr pair|ctor <vectors.ndjson> [skip]      (stdout: one JSON line per vector)
//!        ustr dirent <dir>                            (directory-entry names)
use std::io::{BufRead, Write};
use tiny_std::{UnixStr, UnixString};
use vharness::{guarded, json, quiet_panics, Out, Value};

static mut CUR: (usize, &str) = (0, "");
/// operations to leave out for the first processed vector (they crashed in a previous run)
static mut SKIPOPS: Vec<String> = Vec::new();
static mut FIRST: usize = usize::MAX;
/// operations left out for every vector (they crashed or hung many times already)
static mut DEADOPS: Vec<String> = Vec::new();
fn want(i: usize, op: &str) -> bool {
    #[allow(static_mut_refs)]
    unsafe {
        !(i == FIRST && SKIPOPS.iter().any(|o| o == op)) && !DEADOPS.iter().any(|o| o == op)
    }
}

extern "C" fn on_segv(_sig: i32) {
    unsafe {
        let (i, op) = CUR;
        let msg = format!("{{\"crash\":{i},\"op\":\"{op}\"}}\n");
        libc::write(1, msg.as_ptr().cast(), msg.len());
        libc::_exit(42);
    }
}

/// An operation that does not return is data as well: every operation re-arms a 1 s timer of
/// the process's own CPU time (independent of the load of the machine).
extern "C" fn on_vtalrm(_sig: i32) {
    unsafe {
        let (i, op) = CUR;
        let msg = format!("{{\"crash\":{i},\"op\":\"{op}\",\"hang\":1}}\n");
        libc::write(1, msg.as_ptr().cast(), msg.len());
        libc::_exit(42);
    }
}
fn arm() {
    unsafe {
        let it = libc::itimerval {
            it_interval: libc::timeval { tv_sec: 0, tv_usec: 0 },
            it_value: libc::timeval { tv_sec: 1, tv_usec: 0 },
        };
        libc::setitimer(libc::ITIMER_VIRTUAL, &it, std::ptr::null_mut());
    }
}

/// One operand slot: bytes are copied so that they END at a PROT_NONE page.
struct Slot {
    base: *mut u8,
    size: usize,
}
impl Slot {
    fn new() -> Self {
        let size = 4 * 4096;
        unsafe {
            let p = libc::mmap(
                std::ptr::null_mut(),
                size + 4096,
                libc::PROT_READ | libc::PROT_WRITE,
                libc::MAP_PRIVATE | libc::MAP_ANONYMOUS,
                -1,
                0,
            );
            assert!(p != libc::MAP_FAILED);
            assert_eq!(0, libc::mprotect(p.cast::<u8>().add(size).cast(), 4096, libc::PROT_NONE));
            Slot { base: p.cast(), size }
        }
    }
    fn put(&self, bytes: &[u8]) -> &'static [u8] {
        assert!(bytes.len() <= self.size);
        unsafe {
            let dst = self.base.add(self.size - bytes.len());
            std::ptr::copy_nonoverlapping(bytes.as_ptr(), dst, bytes.len());
            std::slice::from_raw_parts(dst, bytes.len())
        }
    }
}

fn some_bytes(b: &[u8]) -> Vec<i64> {
    let mut v = vec![1];
    v.extend(b.iter().map(|x| i64::from(*x)));
    v
}
fn opt_idx(o: Option<usize>) -> Vec<i64> {
    match o {
        Some(i) => vec![1, i as i64],
        None => vec![0],
    }
}
fn res<T>(r: Result<T, String>, f: impl FnOnce(T) -> Vec<i64>) -> Value {
    match r {
        Ok(v) => json!(f(v)),
        Err(_) => json!([3]),
    }
}
fn bytes_of(v: &Value) -> Vec<u8> {
    v.as_array().unwrap().iter().map(|x| x.as_u64().unwrap() as u8).collect()
}
fn set_cur(i: usize, op: &'static str) {
    unsafe {
        CUR = (i, op);
    }
    arm();
}

macro_rules! op {
    ($o:expr, $i:expr, $name:literal, $body:expr) => {
        if want($i, $name) {
            set_cur($i, $name);
            let v: Value = $body;
            $o.insert($name.into(), v);
        }
    };
}

/// Display that hands its text to the formatter one `char` at a time (reaches `write_char` of
/// whatever `fmt::Write` an implementation formats into)
struct Chars<'a>(&'a str);
impl std::fmt::Display for Chars<'_> {
    fn fmt(&self, f: &mut std::fmt::Formatter<'_>) -> std::fmt::Result {
        use std::fmt::Write;
        for c in self.0.chars() {
            f.write_char(c)?;
        }
        Ok(())
    }
}

fn opt_string(p: Option<Vec<u8>>) -> Vec<i64> {
    match p {
        Some(s) => some_bytes(&s),
        None => vec![0],
    }
}

fn pair(i: usize, a: &[u8], b: &[u8], sa: &Slot, sb: &Slot) -> Value {
    let mut ra = a.to_vec();
    ra.push(0);
    let mut rb = b.to_vec();
    rb.push(0);
    let ua = unsafe { UnixStr::from_bytes_unchecked(sa.put(&ra)) };
    let mut o = serde_json::Map::new();
    {
        let ub = unsafe { UnixStr::from_bytes_unchecked(sb.put(&rb)) };
        op!(o, i, "find", res(guarded(|| ua.find(ub)), opt_idx));
        op!(o, i, "match_up_to", res(guarded(|| ua.match_up_to(ub)), |n| vec![1, n as i64]));
        op!(o, i, "ends_with", res(guarded(|| ua.ends_with(ub)), |x| vec![1, i64::from(x)]));
        op!(o, i, "path_join", res(guarded(|| ua.path_join(ub)), |s| some_bytes(s.as_slice())));
        op!(o, i, "string_from_unixstr", res(guarded(|| UnixString::from(ub)), |s| some_bytes(s.as_slice())));
        // the needle is a tail of the haystack's OWN memory (what path_file_name() hands out):
        // one answer per tail start k; the definition does not care where the needle lives
        op!(o, i, "find_tails", {
            let raw = ub.as_slice();
            let mut v = Vec::new();
            for k in 0..raw.len() {
                let tail = unsafe { UnixStr::from_bytes_unchecked(&raw[k..]) };
                v.push(res(guarded(|| ub.find(tail)), opt_idx));
            }
            Value::Array(v)
        });
        op!(o, i, "parent_path", res(guarded(|| ub.parent_path().map(|s| s.as_slice().to_vec())), opt_string));
        op!(o, i, "path_file_name", res(guarded(|| ub.path_file_name().map(|s| s.as_slice().to_vec())), opt_string));
    }
    {
        // plain byte-slice needle, also placed against the guard page
        let nb = sb.put(b);
        op!(o, i, "find_buf", res(guarded(|| ua.find_buf(nb)), opt_idx));
    }
    if let Ok(s) = std::str::from_utf8(sb.put(b)) {
        op!(o, i, "match_up_to_str", res(guarded(|| ua.match_up_to_str(s)), |n| vec![1, n as i64]));
        op!(o, i, "path_join_fmt", res(guarded(|| ua.path_join_fmt(format_args!("{s}"))), |s| some_bytes(s.as_slice())));
        // the same text handed over in two pieces, cut at every character boundary: the answer is a
        // function of the text, not of how the formatting machinery fragments it.  Reported: the
        // first answer that differs from the one-piece answer (else the one-piece answer).
        op!(o, i, "path_join_fmt_chars", res(guarded(|| ua.path_join_fmt(format_args!("{}", Chars(s)))), |s| some_bytes(s.as_slice())));
        op!(o, i, "path_join_fmt_split", {
            let whole = guarded(|| ua.path_join_fmt(format_args!("{s}")).as_slice().to_vec());
            let mut rep = whole.clone();
            for k in 0..=s.len() {
                if !s.is_char_boundary(k) {
                    continue;
                }
                let (s1, s2) = s.split_at(k);
                let r = guarded(|| ua.path_join_fmt(format_args!("{s1}{s2}")).as_slice().to_vec());
                if r != whole {
                    rep = r;
                    break;
                }
                let r = guarded(|| ua.path_join_fmt(format_args!("{}{}{}", s1, "", s2)).as_slice().to_vec());
                if r != whole {
                    rep = r;
                    break;
                }
            }
            res(rep, |v| some_bytes(&v))
        });
    }
    Value::Object(o)
}

fn string_res(r: Result<Result<UnixString, tiny_std::RuslError>, String>) -> Value {
    match r {
        Ok(Ok(s)) => json!(some_bytes(s.as_slice())),
        Ok(Err(_)) => json!([2]),
        Err(_) => json!([3]),
    }
}
fn str_res(r: Result<Result<Vec<u8>, tiny_std::RuslError>, String>) -> Value {
    match r {
        Ok(Ok(s)) => json!(some_bytes(&s)),
        Ok(Err(_)) => json!([2]),
        Err(_) => json!([3]),
    }
}

fn ctor(i: usize, b: &[u8], sb: &Slot) -> Value {
    let gb = sb.put(b);
    let mut o = serde_json::Map::new();
    op!(o, i, "str_try_from_bytes", str_res(guarded(|| UnixStr::try_from_bytes(gb).map(|s| s.as_slice().to_vec()))));
    op!(o, i, "string_try_from_bytes", string_res(guarded(|| UnixString::try_from_bytes(gb))));
    op!(o, i, "string_try_from_vec", string_res(guarded(|| UnixString::try_from_vec(gb.to_vec()))));
    if let Ok(s) = std::str::from_utf8(gb) {
        op!(o, i, "str_try_from_str", str_res(guarded(|| UnixStr::try_from_str(s).map(|s| s.as_slice().to_vec()))));
        op!(o, i, "string_try_from_str", string_res(guarded(|| UnixString::try_from_str(s))));
        op!(o, i, "string_try_from_string", string_res(guarded(|| UnixString::try_from_string(s.to_string()))));
        op!(o, i, "string_from_str", string_res(guarded(|| s.parse::<UnixString>())));
        op!(o, i, "from_format", res(guarded(|| UnixString::from_format(format_args!("{s}"))), |s| some_bytes(s.as_slice())));
        op!(o, i, "from_format_chars", res(guarded(|| UnixString::from_format(format_args!("{}", Chars(s)))), |s| some_bytes(s.as_slice())));
        op!(o, i, "from_format_split", {
            let whole = guarded(|| UnixString::from_format(format_args!("{s}")).as_slice().to_vec());
            let mut rep = whole.clone();
            for k in 0..=s.len() {
                if !s.is_char_boundary(k) {
                    continue;
                }
                let (s1, s2) = s.split_at(k);
                let r = guarded(|| UnixString::from_format(format_args!("{s1}{s2}")).as_slice().to_vec());
                if r != whole {
                    rep = r;
                    break;
                }
            }
            res(rep, |v| some_bytes(&v))
        });
        op!(o, i, "from_str_checked", res(guarded(|| UnixStr::from_str_checked(s).as_slice().to_vec()), |s| some_bytes(&s)));
    }
    Value::Object(o)
}

fn dirent(dir: &str) {
    // names were created by the caller (python, std::fs semantics); we only read them back
    let mut out = Out::new();
    let path = UnixString::try_from_str(dir).unwrap();
    let d = tiny_std::fs::Directory::open(&path).unwrap();
    for e in d.read() {
        let e = e.unwrap();
        let r = guarded(|| e.file_unix_name().map(|s| s.as_slice().to_vec()));
        let v = match r {
            Ok(Ok(s)) => json!(some_bytes(&s)),
            Ok(Err(_)) => json!([2]),
            Err(_) => json!([3]),
        };
        out.ev(&json!({"file_unix_name": v}));
    }
    out.flush();
}

/// unix_lit! is evaluated at compile time; the literals below cover the empty string, separators,
/// multi-byte UTF-8 and escapes.  Reports (content bytes of the literal, stored bytes).
fn lits() {
    use tiny_std::unix_lit;
    let mut out = Out::new();
    macro_rules! lit {
        ($l:literal) => {
            out.ev(&json!({"op": "unix_lit", "b": $l.as_bytes(), "out": some_bytes(unix_lit!($l).as_slice())}));
        };
    }
    lit!("");
    lit!("a");
    lit!("/");
    lit!("a/b");
    lit!("//");
    lit!("\u{e5}\u{1F600}");
    lit!("tab\there");
    lit!("0123456789abcdef0123456789abcdef0123456789abcdef0123456789abcdef/0123456789abcdef");
    out.ev(&json!({"op": "unix_lit", "b": [], "out": some_bytes(UnixStr::EMPTY.as_slice())}));
    // format strings WITHOUT interpolated arguments take their own path through core::fmt
    // (`Arguments::as_str()` is Some): literal-only formats, also ones already ending in NUL
    macro_rules! fmt_lit {
        ($l:literal) => {
            out.ev(&json!({"op": "from_format", "a": [], "b": $l.as_bytes(),
                           "out": res(guarded(|| UnixString::from_format(format_args!($l))), |s| some_bytes(s.as_slice()))}));
            for base in ["", "a", "a/", "/"] {
                let mut raw = base.as_bytes().to_vec();
                raw.push(0);
                let ub = unsafe { UnixStr::from_bytes_unchecked(&raw) };
                out.ev(&json!({"op": "path_join_fmt", "a": base.as_bytes(), "b": $l.as_bytes(),
                               "out": res(guarded(|| ub.path_join_fmt(format_args!($l))), |s| some_bytes(s.as_slice()))}));
            }
        };
    }
    // format strings WITH arguments that reach write_char / padding: char arguments, fill
    // characters, {:?} escapes; the expected text is std's rendering of the same format
    macro_rules! fmt_args_case {
        ($($arg:tt)*) => {{
            let text = format!($($arg)*);
            out.ev(&json!({"op": "from_format", "a": [], "b": text.as_bytes(),
                           "out": res(guarded(|| UnixString::from_format(format_args!($($arg)*))), |s| some_bytes(s.as_slice()))}));
            for base in ["", "a", "a/", "/"] {
                let mut raw = base.as_bytes().to_vec();
                raw.push(0);
                let ub = unsafe { UnixStr::from_bytes_unchecked(&raw) };
                out.ev(&json!({"op": "path_join_fmt", "a": base.as_bytes(), "b": text.as_bytes(),
                               "out": res(guarded(|| ub.path_join_fmt(format_args!($($arg)*))), |s| some_bytes(s.as_slice()))}));
            }
        }};
    }
    fmt_args_case!("/tmp/{}/f", '\u{e9}');
    fmt_args_case!("/tmp/{}", '\u{e9}');
    fmt_args_case!("{}", '\u{65e5}');
    fmt_args_case!("{}{}", '\u{1F600}', 'a');
    fmt_args_case!("{:?}", '\u{e9}');
    fmt_args_case!("{:\u{e9}<5}", "ab");
    fmt_args_case!("{:\u{2192}^7}", 1);
    fmt_args_case!("{:>3}", '\u{1F600}');
    fmt_args_case!("{:\u{ff}>4}/{}", 7, "x");
    fmt_args_case!("{}/{}", "dir", "name");
    fmt_args_case!("{}/{}", "dir/", "/name");
    fmt_args_case!("{a}{b}{a}", a = "/", b = "x");
    fmt_lit!("");
    fmt_lit!("a");
    fmt_lit!("/a");
    fmt_lit!("a/b");
    fmt_lit!("\0");
    fmt_lit!("a\0");
    fmt_lit!("/a/b\0");
    fmt_lit!("0123456789abcdef0123456789abcdef0123456789abcdef0123456789abcdef\0");
    out.flush();
}

fn main() {
    let args: Vec<String> = std::env::args().collect();
    quiet_panics();
    if args[1] == "lits" {
        lits();
        return;
    }
    if args[1] == "findbuf" {
        // find_buf with arbitrary byte needles (may contain NUL); haystack and needle against guard pages
        unsafe {
            libc::signal(libc::SIGSEGV, on_segv as usize);
            libc::signal(libc::SIGBUS, on_segv as usize);
            libc::signal(libc::SIGABRT, on_segv as usize);
            libc::signal(libc::SIGILL, on_segv as usize);
            libc::signal(libc::SIGVTALRM, on_vtalrm as usize);
        }
        let skip: usize = args.get(3).map_or(0, |s| s.parse().unwrap());
        let f = std::io::BufReader::new(std::fs::File::open(&args[2]).unwrap());
        let (sa, sb) = (Slot::new(), Slot::new());
        let mut out = Out::new();
        for (i, line) in f.lines().enumerate() {
            if i < skip {
                continue;
            }
            let v: Value = serde_json::from_str(&line.unwrap()).unwrap();
            let (a, b) = (bytes_of(&v["a"]), bytes_of(&v["b"]));
            let mut ra = a.clone();
            ra.push(0);
            let ua = unsafe { UnixStr::from_bytes_unchecked(sa.put(&ra)) };
            let nb = sb.put(&b);
            set_cur(i, "find_buf");
            out.ev(&json!({"i": i, "find_buf": res(guarded(|| ua.find_buf(nb)), opt_idx)}));
            out.flush();
        }
        return;
    }
    if args[1] == "mstr" {
        // match_up_to_str with texts that may contain NUL (a &str may); self against the guard page
        unsafe {
            libc::signal(libc::SIGSEGV, on_segv as usize);
            libc::signal(libc::SIGBUS, on_segv as usize);
            libc::signal(libc::SIGABRT, on_segv as usize);
            libc::signal(libc::SIGILL, on_segv as usize);
            libc::signal(libc::SIGVTALRM, on_vtalrm as usize);
        }
        let skip: usize = args.get(3).map_or(0, |s| s.parse().unwrap());
        let f = std::io::BufReader::new(std::fs::File::open(&args[2]).unwrap());
        let (sa, sb) = (Slot::new(), Slot::new());
        let mut out = Out::new();
        for (i, line) in f.lines().enumerate() {
            if i < skip {
                continue;
            }
            let v: Value = serde_json::from_str(&line.unwrap()).unwrap();
            let (a, b) = (bytes_of(&v["a"]), bytes_of(&v["b"]));
            let mut ra = a.clone();
            ra.push(0);
            let ua = unsafe { UnixStr::from_bytes_unchecked(sa.put(&ra)) };
            let Ok(text) = std::str::from_utf8(sb.put(&b)) else { continue };
            set_cur(i, "match_up_to_str");
            out.ev(&json!({"i": i, "match_up_to_str": res(guarded(|| ua.match_up_to_str(text)), |n| vec![1, n as i64])}));
            out.flush();
        }
        return;
    }
    if args[1] == "dirent" {
        dirent(&args[2]);
        return;
    }
    unsafe {
        // a fault behind an argument, an abort (non-unwinding panic of an unsafe precondition
        // check) or an illegal instruction inside an operation is data: reported as a crash
        libc::signal(libc::SIGSEGV, on_segv as usize);
        libc::signal(libc::SIGBUS, on_segv as usize);
        libc::signal(libc::SIGABRT, on_segv as usize);
        libc::signal(libc::SIGILL, on_segv as usize);
        libc::signal(libc::SIGVTALRM, on_vtalrm as usize);
    }
    let skip: usize = args.get(3).map_or(0, |s| s.parse().unwrap());
    #[allow(static_mut_refs)]
    unsafe {
        FIRST = skip;
        SKIPOPS = args.get(4).map_or(Vec::new(), |s| s.split(',').map(str::to_string).collect());
        DEADOPS = args.get(5).map_or(Vec::new(), |s| s.split(',').map(str::to_string).collect());
    }
    let f = std::io::BufReader::new(std::fs::File::open(&args[2]).unwrap());
    let (sa, sb) = (Slot::new(), Slot::new());
    let mut out = Out::new();
    for (i, line) in f.lines().enumerate() {
        if i < skip {
            continue;
        }
        let v: Value = serde_json::from_str(&line.unwrap()).unwrap();
        let b = bytes_of(&v["b"]);
        let mut r = if args[1] == "pair" {
            let a = bytes_of(&v["a"]);
            pair(i, &a, &b, &sa, &sb)
        } else {
            ctor(i, &b, &sb)
        };
        r["i"] = json!(i);
        out.ev(&r);
        // keep the crash report ordered after everything already produced
        if i % 64 == 0 {
            out.flush();
        }
    }
    out.flush();
    std::io::stdout().flush().unwrap();
}
