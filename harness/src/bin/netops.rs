//! C16 driver: stream transfers (Unix + TCP loopback) and descriptor passing with the real
//! tiny_std::net / rusl::network API.
//!
//! usage: netops stream <plans.ndjson> <workdir> [skip]   one {"ev":"conn",..} line per plan
//!        netops fdpass <cases.ndjson> <workdir> [skip]   one {"ev":"fdpass",..} line per case
//!        netops cmsgiter <vectors.ndjson> [skip]          ControlMessageIterator on given buffers
//!        netops tryops <workdir>                          try_* calls between marker syscalls (run under strace)
//!        netops ctors <workdir>                           mode (O_NONBLOCK, FD_CLOEXEC) of the stream every constructor hands out
//! Every endpoint logs (op, requested, result, logical start/end sequence numbers, monotonic
//! microseconds); payload byte p of a direction is pat(dir, p).  A SIGSEGV (control buffer is placed
//! against a PROT_NONE page) prints {"crash":id} and exits 42; a plan in which no call completes for
//! 8 s prints {"hang":id} and exits 43.
use std::io::{BufRead, Write as _};
use std::sync::atomic::{AtomicI64, AtomicU64, Ordering};
use std::sync::{Arc, Barrier};
use std::time::{Duration, Instant};
use tiny_std::io::{Read as _, Write as _};
use tiny_std::net::{Ip, SocketAddress, TcpListener, TcpStream, TcpTryConnect, UnixListener, UnixStream};
use tiny_std::unix::fd::AsRawFd;
use tiny_std::UnixString;
use vharness::{json, Value};

static CUR: AtomicI64 = AtomicI64::new(-1);
/// number of calls completed so far: the watchdog fires only when NO call completes for 8 s
static PROGRESS: AtomicU64 = AtomicU64::new(0);
static IN_OP: std::sync::atomic::AtomicBool = std::sync::atomic::AtomicBool::new(false);

extern "C" fn on_segv(_sig: i32) {
    unsafe {
        let msg = format!("{{\"crash\":{}}}\n", CUR.load(Ordering::Relaxed));
        libc::write(1, msg.as_ptr().cast(), msg.len());
        libc::_exit(42);
    }
}
fn install_segv() {
    unsafe {
        // alternate stack not needed: faults happen in ordinary frames
        libc::signal(libc::SIGSEGV, on_segv as usize);
        libc::signal(libc::SIGBUS, on_segv as usize);
    }
}
fn guarded<T>(f: impl FnOnce() -> T) -> Result<T, String> {
    IN_OP.store(true, Ordering::Relaxed);
    let r = vharness::guarded(f);
    IN_OP.store(false, Ordering::Relaxed);
    r
}

fn pat(dir: u8, p: u64) -> u8 {
    let x = (p as u32).wrapping_mul(2_654_435_761).rotate_left(7) ^ (p >> 9) as u32 ^ u32::from(dir) * 0x5bd1;
    // 7 bits: every payload is also valid UTF-8, so that write_fmt / write! can carry it
    ((x >> 13) as u8) & 0x7f
}
/// the pattern of a direction, computed once (byte loops are slow in a debug build)
fn pattern(dir: u8, upto: u64) -> &'static [u8] {
    static PATS: std::sync::Mutex<[Vec<u8>; 4]> = std::sync::Mutex::new([Vec::new(), Vec::new(), Vec::new(), Vec::new()]);
    let mut g = PATS.lock().unwrap();
    let v = &mut g[dir as usize];
    if (v.len() as u64) < upto {
        let want = (upto as usize).next_power_of_two().max(1 << 16);
        let mut nv = Vec::with_capacity(want);
        nv.extend_from_slice(v);
        for p in v.len()..want {
            nv.push(pat(dir, p as u64));
        }
        // slices of the old vector may still be in use by the other endpoint's thread: leak it
        std::mem::forget(std::mem::replace(v, nv));
    }
    let sl: &[u8] = &v[..];
    unsafe { std::slice::from_raw_parts(sl.as_ptr(), sl.len()) }
}
fn fill(dir: u8, off: u64, buf: &mut [u8]) {
    let p = pattern(dir, off + buf.len() as u64);
    buf.copy_from_slice(&p[off as usize..off as usize + buf.len()]);
}

struct Log {
    seq: Arc<AtomicU64>,
    t0: Instant,
    evs: Vec<Value>,
}
impl Log {
    fn start(&self) -> (u64, i64) {
        (self.seq.fetch_add(1, Ordering::SeqCst), self.t0.elapsed().as_micros() as i64)
    }
    fn done(&mut self, op: &str, st: (u64, i64), mut extra: Value) {
        let e = self.seq.fetch_add(1, Ordering::SeqCst);
        let t1 = self.t0.elapsed().as_micros() as i64;
        let o = extra.as_object_mut().unwrap();
        o.insert("op".into(), json!(op));
        o.insert("s".into(), json!(st.0));
        o.insert("e".into(), json!(e));
        o.insert("t0".into(), json!(st.1));
        o.insert("t1".into(), json!(t1));
        // a Timeout / None result is not progress: a reader polling for a byte that never comes must
        // still trip the watchdog
        let res = extra["res"].as_str().unwrap_or("");
        if res != "timeout" && res != "none" {
            PROGRESS.fetch_add(1, Ordering::Relaxed);
        }
        self.evs.push(extra);
    }
}
fn res_of<T>(r: &Result<tiny_std::Result<T>, String>) -> (&'static str, i64) {
    match r {
        Ok(Ok(_)) => ("ok", 0),
        Ok(Err(tiny_std::Error::Timeout)) => ("timeout", 0),
        Ok(Err(tiny_std::Error::Os { code, .. })) => ("err", i64::from(code.raw())),
        Ok(Err(_)) => ("err", 0),
        Err(_) => ("panic", 0),
    }
}

enum Stream {
    U(UnixStream),
    T(TcpStream),
}
impl Stream {
    fn fd(&self) -> i32 {
        match self {
            Stream::U(s) => s.as_raw_fd().value(),
            Stream::T(s) => s.as_raw_fd().value(),
        }
    }
    fn write(&mut self, b: &[u8]) -> tiny_std::Result<usize> {
        match self {
            Stream::U(s) => s.write(b),
            Stream::T(s) => s.write(b),
        }
    }
    fn write_all(&mut self, b: &[u8]) -> tiny_std::Result<()> {
        match self {
            Stream::U(s) => s.write_all(b),
            Stream::T(s) => s.write_all(b),
        }
    }
    fn write_fmt_str(&mut self, t: &str) -> tiny_std::Result<()> {
        match self {
            Stream::U(s) => s.write_fmt(format_args!("{t}")),
            Stream::T(s) => s.write_fmt(format_args!("{t}")),
        }
    }
    fn flush(&mut self) -> tiny_std::Result<()> {
        match self {
            Stream::U(s) => s.flush(),
            Stream::T(s) => s.flush(),
        }
    }
    fn read_exact(&mut self, b: &mut [u8]) -> tiny_std::Result<()> {
        match self {
            Stream::U(s) => s.read_exact(b),
            Stream::T(s) => s.read_exact(b),
        }
    }
    fn read_to_end(&mut self, v: &mut Vec<u8>) -> tiny_std::Result<usize> {
        match self {
            Stream::U(s) => s.read_to_end(v),
            Stream::T(s) => s.read_to_end(v),
        }
    }
    fn read(&mut self, b: &mut [u8], to: Option<Duration>) -> tiny_std::Result<usize> {
        match (self, to) {
            (Stream::U(s), _) => s.read(b),
            (Stream::T(s), None) => s.read(b),
            (Stream::T(s), Some(d)) => s.read_with_timeout(b, d),
        }
    }
}
enum Listener {
    U(UnixListener),
    T(TcpListener),
}
fn set_bufs(fd: i32, snd: i64, rcv: i64) {
    unsafe {
        for (opt, v) in [(libc::SO_SNDBUF, snd), (libc::SO_RCVBUF, rcv)] {
            if v > 0 {
                let v = v as libc::c_int;
                libc::setsockopt(fd, libc::SOL_SOCKET, opt, std::ptr::addr_of!(v).cast(), 4);
            }
        }
    }
}

/// one direction, writer side: `n` bytes in calls of the given chunk sizes (cycled)
/// `api`: which Write entry point carries each chunk: "write" (may be short), "write_all", "write_fmt" (write!)
fn write_all_chunks(log: &mut Log, s: &mut Stream, dir: u8, n: u64, chunks: &[u64], api: &str) -> bool {
    let mut off = 0u64;
    let mut i = 0;
    let mut buf = Vec::new();
    while off < n {
        let want = chunks[i % chunks.len()].min(n - off).max(1) as usize;
        i += 1;
        buf.resize(want, 0);
        fill(dir, off, &mut buf);
        let st = log.start();
        let r = guarded(|| match api {
            "write_all" => s.write_all(&buf).map(|()| want),
            "write_fmt" => s.write_fmt_str(std::str::from_utf8(&buf).unwrap()).map(|()| want),
            _ => s.write(&buf),
        });
        let (class, errno) = res_of(&r);
        let k = if let Ok(Ok(k)) = &r { *k as u64 } else { 0 };
        log.done("write", st, json!({"req": want, "res": class, "n": k, "errno": errno, "dir": dir, "off": off, "api": api}));
        if class != "ok" || k == 0 {
            return false;
        }
        off += k;
    }
    let st = log.start();
    let r = guarded(|| s.flush());
    let (class, errno) = res_of(&r);
    log.done("flush", st, json!({"res": class, "errno": errno, "dir": dir}));
    class == "ok"
}
/// one direction, reader side: reads until `n` bytes arrived (or, with n = None, until end of stream)
/// `api`: "read" (optionally time-limited), "read_exact" (chunks cut to what is still expected), "read_to_end"
/// (one call that returns when the peer closes; only where the plan makes the peer close after its payload)
fn read_chunks(log: &mut Log, s: &mut Stream, dir: u8, n: Option<u64>, chunks: &[u64], to: Option<Duration>, api: &str) -> bool {
    let mut off = 0u64;
    let mut i = 0;
    let mut buf = Vec::new();
    let began = Instant::now();
    if let (Some(n), "read_to_end") = (n, api) {
        let mut v = Vec::new();
        let st = log.start();
        let r = guarded(|| s.read_to_end(&mut v));
        let (class, errno) = res_of(&r);
        let k = v.len();
        let p = pattern(dir, k as u64);
        let ok = v[..] == p[..k];
        let res = if class == "ok" && k == 0 { "eof" } else { class };
        log.done("read", st, json!({"req": k.max(1), "res": res, "n": k, "errno": errno, "dir": dir, "off": 0, "match": ok, "bad_at": -1, "d": -1, "api": api}));
        return class == "ok" && k as u64 == n;
    }
    loop {
        if let Some(n) = n {
            if off >= n {
                return true;
            }
        }
        let mut want = chunks[i % chunks.len()].max(1) as usize;
        let exact = api == "read_exact" && n.is_some();
        if exact {
            want = want.min((n.unwrap() - off) as usize);
        }
        i += 1;
        if buf.len() != want {
            // (no re-poisoning per call: a 2 MiB buffer cleared for every 4 KiB read dominated the run time)
            buf.resize(want, 0xEE);
        }
        let st = log.start();
        let r = guarded(|| if exact { s.read_exact(&mut buf).map(|()| want) } else { s.read(&mut buf, to) });
        let (class, errno) = res_of(&r);
        let k = if let Ok(Ok(k)) = &r { *k } else { 0 };
        let to = if exact { None } else { to };
        let mut bad: i64 = -1;
        let kk = k.min(want);
        let p = pattern(dir, off + kk as u64);
        if buf[..kk] != p[off as usize..off as usize + kk] {
            bad = buf[..kk].iter().zip(&p[off as usize..]).position(|(a, b)| a != b).map_or(-1, |j| j as i64);
        }
        let res = if class == "ok" && k == 0 { "eof" } else { class };
        log.done(if to.is_some() { "read_to" } else { "read" }, st,
                 json!({"req": want, "res": res, "n": k, "errno": errno, "dir": dir, "off": off, "match": bad < 0 && k <= want, "bad_at": bad,
                        "d": to.map_or(-1, |d| d.as_micros() as i64)}));
        match res {
            "ok" => off += k as u64,
            "timeout" => {
                // a zero / tiny limit would otherwise spin thousands of logged calls per second
                if to.is_some_and(|d| d < Duration::from_micros(2000)) {
                    std::thread::sleep(Duration::from_millis(2));
                }
                // keep reading: only the no-progress watchdog bounds this (4 MiB through 4 KiB TCP
                // buffers legitimately takes 15 s: Nagle + delayed ACK give ~6 KiB per 20 ms)
                let _ = began;
            }
            "eof" => return n.is_none(),
            _ => return false,
        }
    }
}

/// (O_NONBLOCK set, FD_CLOEXEC set) of a descriptor, read right after its construction
fn fd_flags(fd: i32) -> (bool, bool) {
    unsafe { (libc::fcntl(fd, libc::F_GETFL) & libc::O_NONBLOCK != 0, libc::fcntl(fd, libc::F_GETFD) & libc::FD_CLOEXEC != 0) }
}
/// harness-internal rendezvous of the two endpoint threads (not code under test): a stage counter;
/// a thread that leaves early marks itself dead so that the other never waits for it
struct Stage {
    stage: AtomicU64,
    dead: std::sync::atomic::AtomicBool,
}
impl Stage {
    fn reach(&self, n: u64) {
        self.stage.fetch_max(n, Ordering::SeqCst);
    }
    fn wait(&self, n: u64) {
        while self.stage.load(Ordering::SeqCst) < n && !self.dead.load(Ordering::SeqCst) {
            std::thread::sleep(Duration::from_micros(200));
        }
    }
}
struct DeadOnDrop(Arc<Stage>);
impl Drop for DeadOnDrop {
    fn drop(&mut self) {
        self.0.dead.store(true, Ordering::SeqCst);
    }
}
extern "C" fn on_usr1(_sig: i32) {}
/// a no-op SIGUSR1 handler WITHOUT SA_RESTART: a waiting ppoll returns EINTR
fn install_usr1() {
    unsafe {
        let mut sa: libc::sigaction = std::mem::zeroed();
        sa.sa_sigaction = on_usr1 as usize;
        sa.sa_flags = 0;
        libc::sigemptyset(&mut sa.sa_mask);
        assert_eq!(0, libc::sigaction(libc::SIGUSR1, &sa, std::ptr::null_mut()));
    }
}
/// Interrupts the calling thread's timed wait: SIGUSR1 at the given fractions of the limit, as long as the
/// call is still running.  Returns (guard flag, number sent, join handle).
struct Interrupter {
    active: Arc<std::sync::atomic::AtomicBool>,
    sent: Arc<AtomicU64>,
    h: Option<std::thread::JoinHandle<()>>,
}
impl Interrupter {
    fn start(d_us: u64, fracs: &[f64]) -> Self {
        let tid = unsafe { libc::syscall(libc::SYS_gettid) } as i32;
        let active = Arc::new(std::sync::atomic::AtomicBool::new(true));
        let sent = Arc::new(AtomicU64::new(0));
        let (a2, s2, fr) = (active.clone(), sent.clone(), fracs.to_vec());
        let begin = Instant::now();
        let h = std::thread::spawn(move || {
            for f in fr {
                let at = Duration::from_micros((d_us as f64 * f) as u64);
                while begin.elapsed() < at && a2.load(Ordering::SeqCst) {
                    std::thread::sleep(Duration::from_micros(500));
                }
                if !a2.load(Ordering::SeqCst) {
                    return;
                }
                unsafe { libc::syscall(libc::SYS_tgkill, libc::getpid(), tid, libc::SIGUSR1) };
                s2.fetch_add(1, Ordering::SeqCst);
            }
        });
        Interrupter { active, sent, h: Some(h) }
    }
    fn stop(mut self) -> u64 {
        self.active.store(false, Ordering::SeqCst);
        if let Some(h) = self.h.take() {
            let _ = h.join();
        }
        self.sent.load(Ordering::SeqCst)
    }
}
fn fracs_of(v: &Value) -> Vec<f64> {
    v.as_array().map(|a| a.iter().map(|x| x.as_f64().unwrap()).collect()).unwrap_or_default()
}

/// One timed read while the peer is known to be silent: it has to come back, with Timeout.
/// what is asserted about a limit given in nanoseconds, in the log's microseconds (both stamps are
/// truncated to microseconds, hence one less): a LOWER bound only
fn lower_bound_us(d_ns: u64) -> i64 {
    (d_ns / 1000).saturating_sub(1) as i64
}
fn silent_read(log: &mut Log, s: &mut Stream, dir: u8, d_ns: u64, interrupts: &[f64]) {
    let mut buf = [0u8; 16];
    let intr = if interrupts.is_empty() { None } else { Some(Interrupter::start(d_ns / 1000, interrupts)) };
    let st = log.start();
    let r = guarded(|| s.read(&mut buf, Some(Duration::from_nanos(d_ns))));
    let nsig = intr.map_or(0, Interrupter::stop);
    let (class, errno) = res_of(&r);
    let k = if let Ok(Ok(k)) = &r { *k } else { 0 };
    let res = if class == "ok" && k == 0 { "eof" } else { class };
    log.done("read_to", st, json!({"req": 16, "res": res, "n": k, "errno": errno, "dir": dir, "off": 0, "match": k == 0, "bad_at": -1,
                                   "d": lower_bound_us(d_ns), "d_ns": d_ns, "silent_peer": true, "signals": nsig}));
}

/// connect_with_timeout against a listener that never answers: a raw libc listener with backlog 0 whose
/// accept queue is filled first, so further SYNs are dropped.  Each call has to return (Timeout).
fn connect_probes(log: &mut Log, ds: &[Value]) {
    unsafe {
        let lfd = libc::socket(libc::AF_INET, libc::SOCK_STREAM | libc::SOCK_CLOEXEC, 0);
        let mut a: libc::sockaddr_in = std::mem::zeroed();
        a.sin_family = libc::AF_INET as u16;
        a.sin_addr.s_addr = u32::from_ne_bytes([127, 0, 0, 1]);
        assert_eq!(0, libc::bind(lfd, std::ptr::addr_of!(a).cast(), std::mem::size_of::<libc::sockaddr_in>() as u32));
        assert_eq!(0, libc::listen(lfd, 0));
        let mut len = std::mem::size_of::<libc::sockaddr_in>() as u32;
        libc::getsockname(lfd, std::ptr::addr_of_mut!(a).cast(), &mut len);
        let port = u16::from_be(a.sin_port);
        // fill the accept queue (and the SYN backlog behind it)
        let mut fillers = Vec::new();
        for _ in 0..4 {
            let c = libc::socket(libc::AF_INET, libc::SOCK_STREAM | libc::SOCK_NONBLOCK | libc::SOCK_CLOEXEC, 0);
            libc::connect(c, std::ptr::addr_of!(a).cast(), len);
            fillers.push(c);
        }
        std::thread::sleep(Duration::from_millis(5));
        for d in ds {
            let d_ns = d.as_u64().unwrap();
            let st = log.start();
            let r = guarded(|| TcpStream::connect_with_timeout(&SocketAddress::new(Ip::V4([127, 0, 0, 1]), port), Duration::from_nanos(d_ns)));
            let (class, errno) = res_of(&r);
            // a success (the queue had room after all) is not what is probed: logged as a neutral event
            let (op, res) = if class == "ok" { ("probe", "ok") } else { ("connect_to", class) };
            log.done(op, st, json!({"res": res, "errno": errno, "d": lower_bound_us(d_ns), "d_ns": d_ns, "listening": false, "nothing_answers": true}));
        }
        for c in fillers {
            libc::close(c);
        }
        libc::close(lfd);
    }
}

fn u64s(v: &Value) -> Vec<u64> {
    v.as_array().map(|a| a.iter().map(|x| x.as_u64().unwrap()).collect()).unwrap_or_else(|| vec![4096])
}
fn ms(v: &Value) -> u64 {
    v.as_u64().unwrap_or(0)
}
fn sleep_ms(n: u64) {
    if n > 0 {
        std::thread::sleep(Duration::from_millis(n));
    }
}

fn run_stream_plan(id: usize, plan: &Value, workdir: &str) -> Value {
    let fam = plan["fam"].as_str().unwrap().to_string();
    let seq = Arc::new(AtomicU64::new(0));
    let t0 = Instant::now();
    let sock_path = format!("{workdir}/s{id}.sock");
    let _ = std::fs::remove_file(&sock_path);
    let listening = Arc::new(Barrier::new(2));
    let stage = Arc::new(Stage { stage: AtomicU64::new(0), dead: std::sync::atomic::AtomicBool::new(false) });
    let (stage_s, stage_c) = (stage.clone(), stage.clone());
    let tcp_port = Arc::new(AtomicU64::new(0));
    let plan_s = plan.clone();
    let plan_c = plan.clone();
    let (seq_s, seq_c) = (seq.clone(), seq.clone());
    let (lb_s, lb_c) = (listening.clone(), listening.clone());
    let (port_s, port_c) = (tcp_port.clone(), tcp_port.clone());
    let (path_s, path_c) = (sock_path.clone(), sock_path.clone());
    let fam_s = fam.clone();
    // ---------------------------------------------------------------- server side
    let server = std::thread::spawn(move || {
        let plan = plan_s;
        let _guard = DeadOnDrop(stage_s.clone());
        let mut log = Log { seq: seq_s, t0, evs: Vec::new() };
        sleep_ms(ms(&plan["listen_delay_ms"]));
        let st = log.start();
        let l = guarded(|| -> tiny_std::Result<Listener> {
            if fam_s == "unix" {
                Ok(Listener::U(UnixListener::bind(&UnixString::try_from_str(&path_s).unwrap())?))
            } else {
                let l = TcpListener::bind(&SocketAddress::new(Ip::V4([127, 0, 0, 1]), 0))?;
                Ok(Listener::T(l))
            }
        });
        let (class, errno) = res_of(&l);
        log.done("listen", st, json!({"res": class, "errno": errno}));
        let Ok(Ok(mut l)) = l else {
            lb_s.wait();
            return log.evs;
        };
        if let Listener::T(t) = &l {
            let a = format!("{:?}", t.local_addr().unwrap());
            // SocketAddress has no accessors: parse the Debug output `port: N`
            let p: u64 = a.rsplit("port: ").next().unwrap().trim_end_matches(|c: char| !c.is_ascii_digit()).parse().unwrap();
            port_s.store(p, Ordering::SeqCst);
        }
        // small buffers so that they really fill; set on the listener so that accepted sockets start with them
        let lfd = match &l {
            Listener::U(x) => x_fd_u(x),
            Listener::T(x) => x.as_raw_fd_compat(),
        };
        set_bufs(lfd, plan["sndbuf"].as_i64().unwrap_or(0), plan["rcvbuf"].as_i64().unwrap_or(0));
        lb_s.wait();
        // accept_with_timeout while NOBODY connects (the client is held back): it has to return, with Timeout
        if let Some(ds) = plan["accept_probe_ns"].as_array() {
            for d in ds {
                let d_ns = d.as_u64().unwrap();
                let st = log.start();
                let r: Result<tiny_std::Result<()>, String> = guarded(|| match &mut l {
                    Listener::U(l) => l.accept_with_timeout(Duration::from_nanos(d_ns)).map(|_s| ()),
                    Listener::T(l) => l.accept_with_timeout(Duration::from_nanos(d_ns)).map(|_s| ()),
                });
                let (class, errno) = res_of(&r);
                log.done("accept_to", st, json!({"res": if class == "ok" { "phantom" } else { class }, "errno": errno, "d": lower_bound_us(d_ns), "d_ns": d_ns,
                                                 "nonblock": true, "nothing_pending": true}));
            }
            stage_s.reach(1);
        }
        sleep_ms(ms(&plan["accept_delay_ms"]));
        let kind = plan["accept"]["kind"].as_str().unwrap_or("plain").to_string();
        let d_us = plan["accept"]["d_us"].as_u64().unwrap_or(0);
        let mut stream: Option<Stream> = None;
        let mut attempts = 0;
        while stream.is_none() && attempts < 3000 {
            attempts += 1;
            let st = log.start();
            let nonblock = match &l {
                Listener::U(x) => unsafe { libc::fcntl(x_fd_u(x), libc::F_GETFL) & libc::O_NONBLOCK != 0 },
                Listener::T(x) => unsafe { libc::fcntl(x.as_raw_fd_compat(), libc::F_GETFL) & libc::O_NONBLOCK != 0 },
            };
            // after a timeout / a `none` the plan falls back to what it says in accept.then
            let k = if attempts == 1 { kind.as_str() } else { plan["accept"]["then"].as_str().unwrap_or(kind.as_str()) };
            let fr = fracs_of(&plan["interrupts"]);
            let intr = if k == "timeout" && attempts == 1 && !fr.is_empty() { Some(Interrupter::start(d_us, &fr)) } else { None };
            let r: Result<tiny_std::Result<Option<Stream>>, String> = guarded(|| match (&mut l, k) {
                (Listener::U(l), "plain") => l.accept().map(|s| Some(Stream::U(s))),
                (Listener::U(l), "timeout") => l.accept_with_timeout(Duration::from_micros(d_us)).map(|s| Some(Stream::U(s))),
                (Listener::U(l), _) => l.try_accept().map(|o| o.map(Stream::U)),
                (Listener::T(l), "plain") => l.accept().map(|s| Some(Stream::T(s))),
                (Listener::T(l), "timeout") => l.accept_with_timeout(Duration::from_micros(d_us)).map(|s| Some(Stream::T(s))),
                (Listener::T(l), _) => l.try_accept().map(|o| o.map(Stream::T)),
            });
            let nsig = intr.map_or(0, Interrupter::stop);
            let (class, errno) = res_of(&r);
            let res = match &r {
                Ok(Ok(None)) => "none",
                _ => class,
            };
            let opname = match k {
                "plain" => "accept",
                "timeout" => "accept_to",
                _ => "try_accept",
            };
            let (snb, scx) = match &r {
                Ok(Ok(Some(s))) => fd_flags(s.fd()),
                _ => (false, false),
            };
            log.done(opname, st, json!({"res": res, "errno": errno, "d": if k == "timeout" { d_us as i64 } else { -1 }, "nonblock": nonblock,
                                        "s_nonblock": snb, "s_cloexec": scx, "signals": nsig}));
            match r {
                Ok(Ok(Some(s))) => stream = Some(s),
                Ok(Ok(None)) => sleep_ms(1),
                Ok(Err(tiny_std::Error::Timeout)) => {}
                _ => return log.evs,
            }
        }
        let Some(mut s) = stream else { return log.evs };
        set_bufs(s.fd(), plan["sndbuf"].as_i64().unwrap_or(0), 0);
        // phase 0 (TCP): timed reads on the freshly constructed stream while the peer is silent
        if let (Some(ds), Stream::T(_)) = (plan["silent_ns"].as_array(), &s) {
            stage_s.wait(2);                 // the client holds its stream and stays silent
            for d in ds {
                silent_read(&mut log, &mut s, 1, d.as_u64().unwrap(), &fracs_of(&plan["interrupts"]));
            }
            stage_s.reach(3);
            stage_s.wait(4);                 // the client's own silent reads are over
        }
        // phase 1: client -> server
        sleep_ms(ms(&plan["cs"]["reader_delay_ms"]));
        let to = plan["cs"]["read_to_us"].as_u64().filter(|_| matches!(s, Stream::T(_))).map(Duration::from_micros);
        if !read_chunks(&mut log, &mut s, 1, Some(plan["cs"]["n"].as_u64().unwrap()), &u64s(&plan["cs"]["rchunks"]), to, plan["cs"]["rapi"].as_str().unwrap_or("read")) {
            return log.evs;
        }
        // phase 2: server -> client
        sleep_ms(ms(&plan["sc"]["writer_delay_ms"]));
        if !write_all_chunks(&mut log, &mut s, 2, plan["sc"]["n"].as_u64().unwrap(), &u64s(&plan["sc"]["wchunks"]), plan["sc"]["wapi"].as_str().unwrap_or("write")) {
            return log.evs;
        }
        // phase 3: close order
        if plan["closer"].as_str().unwrap_or("c") == "s" {
            let st = log.start();
            drop(s);
            log.done("close", st, json!({"res": "ok"}));
        } else {
            read_chunks(&mut log, &mut s, 1, None, &[64], None, "read");
            let st = log.start();
            drop(s);
            log.done("close", st, json!({"res": "ok"}));
        }
        log.evs
    });
    // ---------------------------------------------------------------- client side
    let fam_c = fam.clone();
    let client = std::thread::spawn(move || {
        let plan = plan_c;
        let _guard = DeadOnDrop(stage_c.clone());
        let mut log = Log { seq: seq_c, t0, evs: Vec::new() };
        let early = plan["connect_before_listen"].as_bool().unwrap_or(false);
        let connect = |log: &mut Log, kind: &str, port: u64| -> Option<Stream> {
            let st = log.start();
            let d_us = plan["connect"]["d_us"].as_u64().unwrap_or(0);
            let r: Result<tiny_std::Result<Option<Stream>>, String> = guarded(|| {
                if fam_c == "unix" {
                    let p = UnixString::try_from_str(&path_c).unwrap();
                    match kind {
                        "try" => UnixStream::try_connect(&p).map(|o| o.map(Stream::U)),
                        _ => UnixStream::connect(&p).map(|s| Some(Stream::U(s))),
                    }
                } else {
                    let a = SocketAddress::new(Ip::V4([127, 0, 0, 1]), port as u16);
                    match kind {
                        "try" => match TcpStream::try_connect(&a)? {
                            TcpTryConnect::Connected(s) => Ok(Some(Stream::T(s))),
                            TcpTryConnect::InProgress(p) => p.connect_blocking().map(|s| Some(Stream::T(s))),
                        },
                        "timeout" => TcpStream::connect_with_timeout(&a, Duration::from_micros(d_us)).map(|s| Some(Stream::T(s))),
                        _ => TcpStream::connect(&a).map(|s| Some(Stream::T(s))),
                    }
                }
            });
            let (class, errno) = res_of(&r);
            let res = match &r {
                Ok(Ok(None)) => "none",
                _ => class,
            };
            let opname = match kind {
                "try" => "try_connect",
                "timeout" => "connect_to",
                _ => "connect",
            };
            let (snb, scx) = match &r {
                Ok(Ok(Some(s))) => fd_flags(s.fd()),
                _ => (false, false),
            };
            log.done(opname, st, json!({"res": res, "errno": errno, "d": if kind == "timeout" { d_us as i64 } else { -1 }, "listening": port != 1,
                                        "s_nonblock": snb, "s_cloexec": scx}));
            r.ok().and_then(Result::ok).flatten()
        };
        let kind = plan["connect"]["kind"].as_str().unwrap_or("plain").to_string();
        let mut s = None;
        if early {
            // nobody listens yet (unix: no socket file; tcp: a port nobody is bound to)
            s = connect(&mut log, &kind, 1);
        }
        lb_c.wait();
        if plan["accept_probe_ns"].is_array() {
            stage_c.wait(1);
        }
        if let (Some(ds), true) = (plan["connect_probe_ns"].as_array(), fam_c == "tcp") {
            connect_probes(&mut log, ds);
        }
        sleep_ms(ms(&plan["connect_delay_ms"]));
        let port = port_c.load(Ordering::SeqCst);
        for _ in 0..200 {
            if s.is_some() {
                break;
            }
            s = connect(&mut log, &kind, port);
            if s.is_some() {
                break;
            }
            sleep_ms(1);
        }
        let Some(mut s) = s else { return log.evs };
        set_bufs(s.fd(), plan["sndbuf"].as_i64().unwrap_or(0), plan["rcvbuf"].as_i64().unwrap_or(0));
        if let (Some(ds), Stream::T(_)) = (plan["silent_ns"].as_array(), &s) {
            stage_c.reach(2);                // connected, silent from here on
            stage_c.wait(3);                 // the server's timed reads on its new stream came back
            for d in ds {
                silent_read(&mut log, &mut s, 2, d.as_u64().unwrap(), &fracs_of(&plan["interrupts"]));
            }
            stage_c.reach(4);
        }
        sleep_ms(ms(&plan["cs"]["writer_delay_ms"]));
        if !write_all_chunks(&mut log, &mut s, 1, plan["cs"]["n"].as_u64().unwrap(), &u64s(&plan["cs"]["wchunks"]), plan["cs"]["wapi"].as_str().unwrap_or("write")) {
            return log.evs;
        }
        sleep_ms(ms(&plan["sc"]["reader_delay_ms"]));
        let to = plan["sc"]["read_to_us"].as_u64().filter(|_| matches!(s, Stream::T(_))).map(Duration::from_micros);
        if !read_chunks(&mut log, &mut s, 2, Some(plan["sc"]["n"].as_u64().unwrap()), &u64s(&plan["sc"]["rchunks"]), to, plan["sc"]["rapi"].as_str().unwrap_or("read")) {
            return log.evs;
        }
        if plan["closer"].as_str().unwrap_or("c") == "c" {
            let st = log.start();
            drop(s);
            log.done("close", st, json!({"res": "ok"}));
        } else {
            read_chunks(&mut log, &mut s, 2, None, &[64], None, "read");
            let st = log.start();
            drop(s);
            log.done("close", st, json!({"res": "ok"}));
        }
        log.evs
    });
    let c = client.join().unwrap_or_else(|_| vec![json!({"op": "driver_panic"})]);
    let s = server.join().unwrap_or_else(|_| vec![json!({"op": "driver_panic"})]);
    let _ = std::fs::remove_file(&sock_path);
    json!({"ev": "conn", "id": id, "plan": plan, "c": c, "s": s})
}
fn x_fd_u(l: &UnixListener) -> i32 {
    // UnixListener has no AsRawFd: it is a newtype around OwnedFd(RawFd)
    unsafe { *(std::ptr::from_ref(l).cast::<i32>()) }
}

fn watchdog() {
    std::thread::spawn(|| {
        let mut last = ((-2i64, 0u64), Instant::now());
        loop {
            std::thread::sleep(Duration::from_millis(200));
            let cur = (CUR.load(Ordering::Relaxed), PROGRESS.load(Ordering::Relaxed));
            if cur != last.0 {
                last = (cur, Instant::now());
            } else if cur.0 >= 0 && last.1.elapsed() > Duration::from_secs(env_secs("VERIF_WATCHDOG_S", 8)) {
                let cur = cur.0;
                println!("{{\"hang\":{cur}}}");
                unsafe { libc::_exit(43) };
            }
        }
    });
}

fn stream_mode(plans: &str, workdir: &str, skip: usize) {
    watchdog();
    install_usr1();
    let f = std::io::BufReader::new(std::fs::File::open(plans).unwrap());
    for (id, line) in f.lines().enumerate() {
        if id < skip {
            continue;
        }
        let plan: Value = serde_json::from_str(&line.unwrap()).unwrap();
        CUR.store(id as i64, Ordering::Relaxed);
        let v = run_stream_plan(id, &plan, workdir);
        println!("{v}");
    }
    CUR.store(-1, Ordering::Relaxed);
    println!("{}", json!({"ev": "end"}));
}

// ------------------------------------------------------------------------------------------ fd passing
struct Guarded {
    base: *mut u8,
    size: usize,
}
impl Guarded {
    fn new() -> Self {
        let size = 4 * 4096;
        unsafe {
            let p = libc::mmap(std::ptr::null_mut(), size + 4096, libc::PROT_READ | libc::PROT_WRITE, libc::MAP_PRIVATE | libc::MAP_ANONYMOUS, -1, 0);
            assert!(p != libc::MAP_FAILED);
            assert_eq!(0, libc::mprotect(p.cast::<u8>().add(size).cast(), 4096, libc::PROT_NONE));
            Guarded { base: p.cast(), size }
        }
    }
    /// a buffer of `len` bytes, 8-byte aligned, ending at most 7 bytes before the PROT_NONE page
    fn slot(&self, len: usize, fillb: u8) -> &'static mut [u8] {
        let start = (self.size - len) & !7;
        unsafe {
            std::ptr::write_bytes(self.base, fillb, self.size);
            std::slice::from_raw_parts_mut(self.base.add(start), len)
        }
    }
}
fn hdr_fields(hdr: &rusl::platform::MsgHdrBorrow) -> (usize, i32) {
    // MsgHdrBorrow is #[repr(C)] struct msghdr; its fields are private
    let m = unsafe { &*(std::ptr::from_ref(hdr).cast::<libc::msghdr>()) };
    (m.msg_controllen as usize, m.msg_flags)
}
fn ident(fd: i32) -> (u64, u64) {
    unsafe {
        let mut st: libc::stat = std::mem::zeroed();
        if libc::fstat(fd, &mut st) != 0 {
            return (0, 0);
        }
        (st.st_dev as u64, st.st_ino as u64)
    }
}

fn fdpass_case(id: usize, case: &Value, workdir: &str, g: &Guarded) -> Value {
    use rusl::platform::{ControlMessageSend, Fd, IoSlice, IoSliceMut, MsgHdrBorrow};
    let n = case["n"].as_u64().unwrap() as usize;
    let csize = case["ctrl"].as_i64().unwrap();
    let creds = case["creds"].as_bool().unwrap_or(false);
    let heap = case["hdr"].as_str().unwrap_or("stack") == "heap";
    let mut sv = [0i32; 2];
    assert_eq!(0, unsafe { libc::socketpair(libc::AF_UNIX, libc::SOCK_STREAM, 0, sv.as_mut_ptr()) });
    if creds {
        let one: libc::c_int = 1;
        unsafe { libc::setsockopt(sv[1], libc::SOL_SOCKET, libc::SO_PASSCRED, std::ptr::addr_of!(one).cast(), 4) };
    }
    // n distinct files
    let mut files = Vec::new();
    let mut idents = Vec::new();
    for i in 0..n {
        let p = format!("{workdir}/fd{id}_{i}");
        let f = std::fs::File::create(&p).unwrap();
        let _ = std::fs::remove_file(&p);
        idents.push(ident(std::os::fd::AsRawFd::as_raw_fd(&f)));
        files.push(f);
    }
    let fds: Vec<Fd> = files.iter().map(|f| Fd::try_new(std::os::fd::AsRawFd::as_raw_fd(f)).unwrap()).collect();
    let payload = [pat(3, id as u64)];
    let io_out = [IoSlice::new(&payload)];
    let sent = guarded(|| {
        let snd = MsgHdrBorrow::create_send(None, &io_out, if n > 0 || case["empty_rights"].as_bool().unwrap_or(false) { Some(ControlMessageSend::ScmRights(&fds)) } else { None });
        rusl::network::sendmsg(Fd::try_new(sv[0]).unwrap(), &snd, 0)
    });
    let sres = match &sent {
        Ok(Ok(k)) => json!({"res": "ok", "n": k}),
        Ok(Err(e)) => json!({"res": "err", "errno": e.code.map_or(0, |c| c.raw())}),
        Err(m) => json!({"res": "panic", "msg": m}),
    };
    let mut out = json!({"ev": "fdpass", "id": id, "case": case, "send": sres});
    if !matches!(sent, Ok(Ok(_))) {
        unsafe {
            libc::close(sv[0]);
            libc::close(sv[1]);
        }
        return out;
    }
    // receive
    let mut space = [0u8; 8];
    let ctrl: Option<&'static mut [u8]> = if csize < 0 { None } else { Some(g.slot(csize as usize, 0x5A)) };
    let r = guarded(|| {
        let mut io = [IoSliceMut::new(&mut space)];
        let io: &'static mut [IoSliceMut<'static>] = unsafe { std::mem::transmute(&mut io[..]) };
        let mut delivered: Vec<i32> = Vec::new();
        let mut msgs = 0;
        let (got, clen, flags);
        if heap {
            let hdr: &'static mut MsgHdrBorrow<'static> = Box::leak(Box::new(MsgHdrBorrow::create_recv(io, ctrl)));
            got = rusl::network::recvmsg(Fd::try_new(sv[1]).unwrap(), hdr, 0);
            (clen, flags) = hdr_fields(hdr);
            if got.is_ok() {
                for m in hdr.control_messages() {
                    msgs += 1;
                    match m {
                        ControlMessageSend::ScmRights(f) => delivered.extend(f.iter().map(|x| x.value())),
                    }
                    if msgs > 600 {
                        break;
                    }
                }
            }
        } else {
            let mut hdr = MsgHdrBorrow::create_recv(io, ctrl);
            got = rusl::network::recvmsg(Fd::try_new(sv[1]).unwrap(), &mut hdr, 0);
            (clen, flags) = hdr_fields(&hdr);
            if got.is_ok() {
                let hdr: &'static MsgHdrBorrow<'static> = unsafe { std::mem::transmute(&hdr) };
                for m in hdr.control_messages() {
                    msgs += 1;
                    match m {
                        ControlMessageSend::ScmRights(f) => delivered.extend(f.iter().map(|x| x.value())),
                    }
                    if msgs > 600 {
                        break;
                    }
                }
            }
        }
        (got.map_err(|e| e.code.map_or(0, |c| c.raw())), clen, flags, delivered, msgs)
    });
    match r {
        Err(m) => {
            out["recv"] = json!({"res": "panic", "msg": m});
        }
        Ok((got, clen, flags, delivered, msgs)) => {
            // which of the sent files is each delivered descriptor? (1-based index, 0 = none of them)
            let idx: Vec<usize> = delivered
                .iter()
                .map(|fd| {
                    let id = ident(*fd);
                    idents.iter().position(|x| *x == id && id != (0, 0)).map_or(0, |p| p + 1)
                })
                .collect();
            let fresh = delivered.iter().all(|fd| !fds.iter().any(|s| s.value() == *fd));
            for fd in &delivered {
                if *fd > 2 && !fds.iter().any(|s| s.value() == *fd) && *fd != sv[0] && *fd != sv[1] {
                    unsafe { libc::close(*fd) };
                }
            }
            out["recv"] = json!({"res": if got.is_ok() { "ok" } else { "err" }, "n": got.unwrap_or(0), "errno": got.err().unwrap_or(0),
                "clen": clen, "ctrunc": flags & libc::MSG_CTRUNC != 0, "delivered": idx, "msgs": msgs, "fresh": fresh, "data_ok": space[0] == payload[0]});
        }
    }
    unsafe {
        libc::close(sv[0]);
        libc::close(sv[1]);
    }
    out
}

fn fdpass_mode(cases: &str, workdir: &str, skip: usize) {
    install_segv();
    let g = Guarded::new();
    let f = std::io::BufReader::new(std::fs::File::open(cases).unwrap());
    let stdout = std::io::stdout();
    for (id, line) in f.lines().enumerate() {
        if id < skip {
            continue;
        }
        let case: Value = serde_json::from_str(&line.unwrap()).unwrap();
        CUR.store(id as i64, Ordering::Relaxed);
        let v = fdpass_case(id, &case, workdir, &g);
        let mut o = stdout.lock();
        writeln!(o, "{v}").unwrap();
        o.flush().unwrap();
    }
    println!("{}", json!({"ev": "end"}));
}

/// B3: the ControlMessageIterator on TLC-generated control buffers (words -> little-endian bytes),
/// exactly sized, against the guard page.
fn cmsgiter_mode(vectors: &str, skip: usize) {
    use rusl::platform::{ControlMessageSend, IoSliceMut, MsgHdrBorrow};
    install_segv();
    let g = Guarded::new();
    let f = std::io::BufReader::new(std::fs::File::open(vectors).unwrap());
    let stdout = std::io::stdout();
    for (id, line) in f.lines().enumerate() {
        if id < skip {
            continue;
        }
        let v: Value = serde_json::from_str(&line.unwrap()).unwrap();
        let words: Vec<u32> = v["words"].as_array().unwrap().iter().map(|x| x.as_u64().unwrap() as u32).collect();
        let heap = v["hdr"].as_str().unwrap_or("stack") == "heap";
        CUR.store(id as i64, Ordering::Relaxed);
        let buf = g.slot(words.len() * 4, 0x5A);
        for (i, w) in words.iter().enumerate() {
            buf[4 * i..4 * i + 4].copy_from_slice(&w.to_le_bytes());
        }
        let mut space = [0u8; 8];
        let r = guarded(|| {
            let mut io = [IoSliceMut::new(&mut space)];
            let io: &'static mut [IoSliceMut<'static>] = unsafe { std::mem::transmute(&mut io[..]) };
            let mut out: Vec<i64> = Vec::new();
            let mut msgs = 0;
            let hdr: &'static MsgHdrBorrow<'static> = if heap {
                Box::leak(Box::new(MsgHdrBorrow::create_recv(io, Some(buf))))
            } else {
                let h = MsgHdrBorrow::create_recv(io, Some(buf));
                // keep it in this frame
                let hr: &MsgHdrBorrow = &h;
                let hs: &'static MsgHdrBorrow<'static> = unsafe { std::mem::transmute(hr) };
                for m in hs.control_messages() {
                    msgs += 1;
                    match m {
                        ControlMessageSend::ScmRights(f) => out.extend(f.iter().map(|x| i64::from(x.value()))),
                    }
                    if msgs > 600 {
                        break;
                    }
                }
                return (out, msgs);
            };
            for m in hdr.control_messages() {
                msgs += 1;
                match m {
                    ControlMessageSend::ScmRights(f) => out.extend(f.iter().map(|x| i64::from(x.value()))),
                }
                if msgs > 600 {
                    break;
                }
            }
            (out, msgs)
        });
        let line = match r {
            Ok((out, msgs)) => json!({"i": id, "res": "ok", "out": out, "msgs": msgs}),
            Err(m) => json!({"i": id, "res": "panic", "out": [], "msg": m}),
        };
        let mut o = stdout.lock();
        writeln!(o, "{line}").unwrap();
        o.flush().unwrap();
    }
    println!("{}", json!({"ev": "end"}));
}

// ------------------------------------------------------------------------------------------ try ops under strace
fn mark(s: &str) {
    let m = format!("MARK:{s}");
    unsafe { libc::write(-1, m.as_ptr().cast(), m.len()) };
}
fn tryops_mode(workdir: &str) {
    let path = format!("{workdir}/try.sock");
    let _ = std::fs::remove_file(&path);
    let up = UnixString::try_from_str(&path).unwrap();
    let mut ul = UnixListener::bind(&up).unwrap();
    let nb = |fd: i32| unsafe { libc::fcntl(fd, libc::F_GETFL) & libc::O_NONBLOCK != 0 };
    let report = |name: &str, res: &str, nonblock: bool| println!("{}", json!({"ev": "try", "name": name, "res": res, "nonblock": nonblock}));
    // a try_* call that does not come back is reported as such (its system-call log shows where it waits)
    static STEP: AtomicU64 = AtomicU64::new(0);
    std::thread::spawn(|| {
        let names = ["try_accept_unix_none", "try_connect_unix", "try_accept_unix_pending", "try_accept_tcp_none", "try_connect_tcp",
                     "try_connect_tcp_progress", "try_accept_tcp_pending"];
        let mut last = (u64::MAX, Instant::now());
        loop {
            std::thread::sleep(Duration::from_millis(100));
            let cur = STEP.load(Ordering::SeqCst);
            if cur != last.0 {
                last = (cur, Instant::now());
            } else if cur % 2 == 1 && last.1.elapsed() > Duration::from_secs(env_secs("VERIF_TRY_HANG_S", 3)) {
                println!("{}", json!({"ev": "try", "name": names[(cur / 2) as usize], "res": "hang", "nonblock": true}));
                unsafe { libc::_exit(0) };
            }
        }
    });
    let mark = |s: &str| {
        // odd STEP = inside a try call
        STEP.fetch_add(1, Ordering::SeqCst);
        mark(s);
    };
    // unix try_accept, nothing pending
    let n = nb(x_fd_u(&ul));
    mark("begin:try_accept_unix_none");
    let r = ul.try_accept();
    mark("end:try_accept_unix_none");
    report("try_accept_unix_none", match &r { Ok(None) => "none", Ok(Some(_)) => "ok", Err(_) => "err" }, n);
    // unix try_connect with a listener, then try_accept with one pending
    mark("begin:try_connect_unix");
    let c = UnixStream::try_connect(&up);
    mark("end:try_connect_unix");
    report("try_connect_unix", match &c { Ok(None) => "none", Ok(Some(_)) => "ok", Err(_) => "err" }, true);
    mark("begin:try_accept_unix_pending");
    let r = ul.try_accept();
    mark("end:try_accept_unix_pending");
    report("try_accept_unix_pending", match &r { Ok(None) => "none", Ok(Some(_)) => "ok", Err(_) => "err" }, n);
    // tcp
    let mut tl = TcpListener::bind(&SocketAddress::new(Ip::V4([127, 0, 0, 1]), 0)).unwrap();
    let a = format!("{:?}", tl.local_addr().unwrap());
    let port: u16 = a.rsplit("port: ").next().unwrap().trim_end_matches(|c: char| !c.is_ascii_digit()).parse().unwrap();
    let n = nb(tl.as_raw_fd_compat());
    mark("begin:try_accept_tcp_none");
    let r = tl.try_accept();
    mark("end:try_accept_tcp_none");
    report("try_accept_tcp_none", match &r { Ok(None) => "none", Ok(Some(_)) => "ok", Err(_) => "err" }, n);
    mark("begin:try_connect_tcp");
    let c = TcpStream::try_connect(&SocketAddress::new(Ip::V4([127, 0, 0, 1]), port));
    mark("end:try_connect_tcp");
    report("try_connect_tcp", match &c { Ok(TcpTryConnect::Connected(_)) => "ok", Ok(TcpTryConnect::InProgress(_)) => "none", Err(_) => "err" }, true);
    std::thread::sleep(Duration::from_millis(20));
    if let Ok(TcpTryConnect::InProgress(p)) = c {
        mark("begin:try_connect_tcp_progress");
        let c2 = p.try_connect();
        mark("end:try_connect_tcp_progress");
        report("try_connect_tcp_progress", match &c2 { Ok(TcpTryConnect::Connected(_)) => "ok", Ok(TcpTryConnect::InProgress(_)) => "none", Err(_) => "err" }, true);
        std::mem::forget(c2);
    } else {
        STEP.fetch_add(2, Ordering::SeqCst);
    }
    mark("begin:try_accept_tcp_pending");
    let r = tl.try_accept();
    mark("end:try_accept_tcp_pending");
    report("try_accept_tcp_pending", match &r { Ok(None) => "none", Ok(Some(_)) => "ok", Err(_) => "err" }, n);
    let _ = std::fs::remove_file(&path);
}
trait RawCompat {
    fn as_raw_fd_compat(&self) -> i32;
}
impl RawCompat for TcpListener {
    fn as_raw_fd_compat(&self) -> i32 {
        unsafe { *(std::ptr::from_ref(self).cast::<i32>()) }
    }
}

/// Every constructor of a stream, on both families: the mode (O_NONBLOCK, FD_CLOEXEC) of what it hands out.
/// Single-threaded: a connect to a listening socket completes without accept (backlog).
fn ctors_mode(workdir: &str) {
    let report = |fam: &str, side: &str, ctor: &str, fd: i32| {
        let (nb, cx) = fd_flags(fd);
        println!("{}", json!({"ev": "ctor", "fam": fam, "side": side, "ctor": ctor, "nonblock": nb, "cloexec": cx}));
    };
    for round in 0..3 {
        // ---- unix
        let path = format!("{workdir}/ctor{round}.sock");
        let _ = std::fs::remove_file(&path);
        let up = UnixString::try_from_str(&path).unwrap();
        let mut ul = UnixListener::bind(&up).unwrap();
        let c = if round == 1 { UnixStream::try_connect(&up).unwrap().unwrap() } else { UnixStream::connect(&up).unwrap() };
        report("unix", "c", if round == 1 { "try_connect" } else { "connect" }, c.as_raw_fd().value());
        let a = match round {
            0 => ul.accept().unwrap(),
            1 => loop {
                if let Some(s) = ul.try_accept().unwrap() {
                    break s;
                }
                sleep_ms(1);
            },
            _ => ul.accept_with_timeout(Duration::from_secs(5)).unwrap(),
        };
        report("unix", "s", ["accept", "try_accept", "accept_to"][round], a.as_raw_fd().value());
        let _ = std::fs::remove_file(&path);
        // ---- tcp
        let mut tl = TcpListener::bind(&SocketAddress::new(Ip::V4([127, 0, 0, 1]), 0)).unwrap();
        let a = format!("{:?}", tl.local_addr().unwrap());
        let port: u16 = a.rsplit("port: ").next().unwrap().trim_end_matches(|c: char| !c.is_ascii_digit()).parse().unwrap();
        let addr = SocketAddress::new(Ip::V4([127, 0, 0, 1]), port);
        let c = match round {
            0 => TcpStream::connect(&addr).unwrap(),
            1 => match TcpStream::try_connect(&addr).unwrap() {
                TcpTryConnect::Connected(s) => s,
                TcpTryConnect::InProgress(p) => p.connect_blocking().unwrap(),
            },
            _ => TcpStream::connect_with_timeout(&addr, Duration::from_secs(5)).unwrap(),
        };
        report("tcp", "c", ["connect", "try_connect", "connect_to"][round], c.as_raw_fd().value());
        let a = match round {
            0 => tl.accept().unwrap(),
            1 => {
                let mut n = 0;
                loop {
                    if let Some(s) = tl.try_accept().unwrap() {
                        break s;
                    }
                    n += 1;
                    assert!(n < 5000, "try_accept never saw the established connection");
                    sleep_ms(1);
                }
            }
            _ => tl.accept_with_timeout(Duration::from_secs(5)).unwrap(),
        };
        report("tcp", "s", ["accept", "try_accept", "accept_to"][round], a.as_raw_fd().value());
    }
    println!("{}", json!({"ev": "end"}));
}

/// Several waiters on ONE socket: K threads in accept_with_timeout(limit) on one listener and one client per
/// round; two threads in read_with_timeout(limit) on one TCP stream and one byte per round.  One waiter wins;
/// what the others report is logged: a Timeout must not come before the limit (Ok / an OS error are admitted).
fn racers_mode(workdir: &str, rounds: usize, limit_ms: u64) {
    let limit = Duration::from_millis(limit_ms);
    let out = Arc::new(std::sync::Mutex::new(Vec::<Value>::new()));
    let mut fams = Vec::new();
    for fam in ["unix", "tcp"] {
        let out = out.clone();
        let workdir = workdir.to_string();
        fams.push(std::thread::spawn(move || {
            for round in 0..rounds {
                let delay = Duration::from_millis(60 + (round as u64 * 37) % 240);
                // ---- K acceptors on one listener
                let path = format!("{workdir}/race{round}.sock");
                let _ = std::fs::remove_file(&path);
                let (lfd, port) = if fam == "unix" {
                    let l = UnixListener::bind(&UnixString::try_from_str(&path).unwrap()).unwrap();
                    let fd = x_fd_u(&l);
                    std::mem::forget(l);
                    (fd, 0u16)
                } else {
                    let l = TcpListener::bind(&SocketAddress::new(Ip::V4([127, 0, 0, 1]), 0)).unwrap();
                    let a = format!("{:?}", l.local_addr().unwrap());
                    let p: u16 = a.rsplit("port: ").next().unwrap().trim_end_matches(|c: char| !c.is_ascii_digit()).parse().unwrap();
                    let fd = l.as_raw_fd_compat();
                    std::mem::forget(l);
                    (fd, p)
                };
                let mut hs = Vec::new();
                for w in 0..3 {
                    let out = out.clone();
                    hs.push(std::thread::spawn(move || {
                        // a handle of the tiny_std listener type on the shared descriptor (newtype around the fd)
                        assert_eq!(4, std::mem::size_of::<UnixListener>());
                        assert_eq!(4, std::mem::size_of::<TcpListener>());
                        let t0 = Instant::now();
                        let r: Result<tiny_std::Result<i32>, String> = if fam == "unix" {
                            let mut l: UnixListener = unsafe { std::mem::transmute(lfd) };
                            let r = guarded(|| l.accept_with_timeout(limit).map(|s| s.as_raw_fd().value()));
                            std::mem::forget(l);
                            r
                        } else {
                            let mut l: TcpListener = unsafe { std::mem::transmute(lfd) };
                            let r = guarded(|| l.accept_with_timeout(limit).map(|s| { let fd = s.as_raw_fd().value(); std::mem::forget(s); fd }));
                            std::mem::forget(l);
                            r
                        };
                        let el = t0.elapsed().as_micros() as i64;
                        let (class, errno) = res_of(&r);
                        if let Ok(Ok(fd)) = r {
                            if fam == "tcp" {
                                unsafe { libc::close(fd) };
                            }
                        }
                        out.lock().unwrap().push(json!({"ev": "race", "fam": fam, "op": "accept_to", "round": round, "waiter": w, "res": class, "errno": errno,
                                                        "d": (limit_ms * 1000) as i64 - 1, "elapsed": el}));
                    }));
                }
                std::thread::sleep(delay);
                // the one client (std: not code under test)
                let _c: Box<dyn std::any::Any> = if fam == "unix" {
                    Box::new(std::os::unix::net::UnixStream::connect(&path))
                } else {
                    Box::new(std::net::TcpStream::connect(("127.0.0.1", port)))
                };
                for h in hs {
                    let _ = h.join();
                }
                unsafe { libc::close(lfd) };
                let _ = std::fs::remove_file(&path);
                // ---- two readers on one TCP stream
                if fam == "tcp" {
                    let l = std::net::TcpListener::bind("127.0.0.1:0").unwrap();
                    let port = l.local_addr().unwrap().port();
                    let s = TcpStream::connect(&SocketAddress::new(Ip::V4([127, 0, 0, 1]), port)).unwrap();
                    let (mut peer, _) = l.accept().unwrap();
                    let sfd = s.as_raw_fd().value();
                    std::mem::forget(s);
                    let mut hs = Vec::new();
                    for w in 0..2 {
                        let out = out.clone();
                        hs.push(std::thread::spawn(move || {
                            assert_eq!(4, std::mem::size_of::<TcpStream>());
                            let mut s: TcpStream = unsafe { std::mem::transmute(sfd) };
                            let mut b = [0u8; 8];
                            let t0 = Instant::now();
                            let r = guarded(|| s.read_with_timeout(&mut b, limit));
                            let el = t0.elapsed().as_micros() as i64;
                            std::mem::forget(s);
                            let (class, errno) = res_of(&r);
                            out.lock().unwrap().push(json!({"ev": "race", "fam": fam, "op": "read_to", "round": round, "waiter": w, "res": class, "errno": errno,
                                                            "d": (limit_ms * 1000) as i64 - 1, "elapsed": el}));
                        }));
                    }
                    std::thread::sleep(delay);
                    let _ = std::io::Write::write_all(&mut peer, b"x");
                    for h in hs {
                        let _ = h.join();
                    }
                    unsafe { libc::close(sfd) };
                }
            }
        }));
    }
    for f in fams {
        let _ = f.join();
    }
    for v in out.lock().unwrap().iter() {
        println!("{v}");
    }
    println!("{}", json!({"ev": "end"}));
}

/// wall-clock limits are defaults only: the check re-runs a tripped case alone with a much larger limit
fn env_secs(name: &str, default: u64) -> u64 {
    std::env::var(name).ok().and_then(|s| s.parse().ok()).unwrap_or(default)
}

fn main() {
    std::panic::set_hook(Box::new(|info| {
        if !IN_OP.load(Ordering::Relaxed) {
            eprintln!("netops driver panic: {info}");
        }
    }));
    let a: Vec<String> = std::env::args().collect();
    let skip = |k: usize| a.get(k).and_then(|s| s.parse().ok()).unwrap_or(0);
    match a[1].as_str() {
        "stream" => stream_mode(&a[2], &a[3], skip(4)),
        "fdpass" => fdpass_mode(&a[2], &a[3], skip(4)),
        "cmsgiter" => cmsgiter_mode(&a[2], skip(3)),
        "tryops" => tryops_mode(&a[2]),
        "ctors" => ctors_mode(&a[2]),
        "racers" => racers_mode(&a[2], a[3].parse().unwrap(), a[4].parse().unwrap()),
        _ => panic!("usage"),
    }
}
