//! C14 driver: executes TLC-generated operation sequences with the real `tiny_std::fs` API on a
//! fresh private root and lets an independent observer (`std::fs`) dump the tree after every
//! call.  Output: ndjson events for `FsTreeTrace.tla`.
//!
//! usage: fsops seq <plans.ndjson> <base-dir> [skip]
//!          plans: first line {"inits":[tree..]}, then one plan per line
//!          {"init":k | "tree":[entry..], "ops":[{"op","p","q","c"}..]}; entry =
//!          {"p":[names],"n":{"k":"d|f|l|p","c":content,"t":[segs]}}; content =
//!          {"n","b","h"} or {"gen":seed,"n":len} (pseudo-random bytes, for big files)
//!        fsops fanout <cases.ndjson> <base-dir>     (big directories, judged on listings/summaries)
//! A panic of the code under test is a result class ("panic"); a crash/hang kills the process,
//! the python side sees which plan was running (every plan is flushed) and resumes after it.
use std::io::{BufRead, Write as _};
use std::os::unix::ffi::OsStrExt;
use std::path::{Path, PathBuf};
use tiny_std::io::{Read as _, Write as _};
use tiny_std::UnixString;
use vharness::{json, Value};

const SMALL: usize = 64;

fn fnv(bytes: &[u8]) -> String {
    let mut h1: u64 = 0xcbf2_9ce4_8422_2325;
    let mut h2: u64 = 0x9e37_79b9_7f4a_7c15;
    for b in bytes {
        h1 = (h1 ^ u64::from(*b)).wrapping_mul(0x0000_0100_0000_01b3);
        h2 = (h2.rotate_left(7) ^ u64::from(*b)).wrapping_mul(0xff51_afd7_ed55_8ccd);
    }
    format!("{h1:016x}{h2:016x}")
}
fn content(bytes: &[u8]) -> Value {
    if bytes.len() <= SMALL {
        json!({"n": bytes.len(), "b": bytes, "h": ""})
    } else {
        json!({"n": bytes.len(), "b": [], "h": fnv(bytes)})
    }
}
fn gen_bytes(seed: u64, n: usize) -> Vec<u8> {
    let mut r = vharness::Rng::new(seed);
    let mut v = Vec::with_capacity(n);
    while v.len() < n {
        let x = r.next().to_le_bytes();
        let k = (n - v.len()).min(8);
        v.extend_from_slice(&x[..k]);
    }
    v
}
/// {"sparse":[[offset,len,seed]..],"n":total}: zeros with data segments; built with REAL holes (set_len + pwrite)
fn content_bytes(c: &Value) -> Vec<u8> {
    if let Some(segs) = c.get("sparse") {
        let mut v = vec![0u8; c["n"].as_u64().unwrap() as usize];
        for s in segs.as_array().unwrap() {
            let (off, len, seed) = (s[0].as_u64().unwrap() as usize, s[1].as_u64().unwrap() as usize, s[2].as_u64().unwrap());
            v[off..off + len].copy_from_slice(&gen_bytes(seed, len));
        }
        return v;
    }
    if let Some(chars) = c.get("text") {
        // valid UTF-8: ASCII letters with multi-byte characters of w bytes placed at given offsets ([[offset, w]..])
        let n = c["n"].as_u64().unwrap() as usize;
        let mut v: Vec<u8> = (0..n).map(|i| b'a' + (i % 23) as u8).collect();
        for ch in chars.as_array().unwrap() {
            let (off, w) = (ch[0].as_u64().unwrap() as usize, ch[1].as_u64().unwrap() as usize);
            let enc: &[u8] = match w {
                2 => "\u{e9}".as_bytes(),
                3 => "\u{20ac}".as_bytes(),
                _ => "\u{1f600}".as_bytes(),
            };
            v[off..off + w].copy_from_slice(enc);
        }
        assert!(std::str::from_utf8(&v).is_ok());
        return v;
    }
    if let Some(seed) = c.get("gen") {
        gen_bytes(seed.as_u64().unwrap(), c["n"].as_u64().unwrap() as usize)
    } else {
        c["b"].as_array().unwrap().iter().map(|x| x.as_u64().unwrap() as u8).collect()
    }
}
fn segs_of(v: &Value) -> Vec<String> {
    v.as_array().unwrap().iter().map(|x| x.as_str().unwrap().to_string()).collect()
}
/// the spelled path: segments joined by '/', absolute spellings are re-rooted at the private root
fn spell(root: &Path, segs: &[String]) -> String {
    let j = segs.join("/");
    if segs.len() > 1 && segs[0].is_empty() {
        format!("{}{}", root.display(), j)
    } else {
        j
    }
}

fn build(root: &Path, tree: &Value) {
    let mut ents: Vec<&Value> = tree.as_array().unwrap().iter().collect();
    ents.sort_by_key(|e| e["p"].as_array().unwrap().len());
    for e in ents {
        let p = segs_of(&e["p"]);
        if p.is_empty() {
            continue;
        }
        let path = root.join(p.join("/"));
        let n = &e["n"];
        match n["k"].as_str().unwrap() {
            "d" => std::fs::create_dir(&path).unwrap(),
            "f" => {
                if let Some(segs) = n["c"].get("sparse") {
                    use std::os::unix::fs::FileExt;
                    let f = std::fs::File::create(&path).unwrap();
                    f.set_len(n["c"]["n"].as_u64().unwrap()).unwrap();
                    for s in segs.as_array().unwrap() {
                        f.write_all_at(&gen_bytes(s[2].as_u64().unwrap(), s[1].as_u64().unwrap() as usize), s[0].as_u64().unwrap()).unwrap();
                    }
                } else {
                    std::fs::write(&path, content_bytes(&n["c"])).unwrap();
                }
            }
            "l" => std::os::unix::fs::symlink(segs_of(&n["t"]).join("/"), &path).unwrap(),
            "p" => {
                let c = std::ffi::CString::new(path.as_os_str().as_bytes()).unwrap();
                assert_eq!(0, unsafe { libc::mkfifo(c.as_ptr(), 0o644) });
            }
            "s" => {
                // a unix socket bound at the path; the listener is dropped, the node stays
                drop(std::os::unix::net::UnixListener::bind(&path).unwrap());
            }
            "b" => {
                // a block-device node with no driver behind it; without mknod rights: a socket instead (the
                // model state is the observer's dump, so the run stays judged)
                let c = std::ffi::CString::new(path.as_os_str().as_bytes()).unwrap();
                if unsafe { libc::mknod(c.as_ptr(), libc::S_IFBLK | 0o600, libc::makedev(241, 77)) } != 0 {
                    drop(std::os::unix::net::UnixListener::bind(&path).unwrap());
                }
            }
            k => panic!("unknown kind {k}"),
        }
    }
}

/// the independent observer: std::fs only
fn dump(root: &Path) -> Value {
    fn walk(dir: &Path, rel: &mut Vec<String>, out: &mut Vec<Value>) {
        let mut names: Vec<std::ffi::OsString> =
            std::fs::read_dir(dir).unwrap().map(|e| e.unwrap().file_name()).collect();
        names.sort();
        for name in names {
            let path = if dir == Path::new(".") { PathBuf::from(&name) } else { dir.join(&name) };
            let md = std::fs::symlink_metadata(&path).unwrap();
            rel.push(name.to_string_lossy().into_owned());
            let ft = md.file_type();
            if ft.is_dir() {
                out.push(json!({"p": rel, "k": "d"}));
                walk(&path, rel, out);
            } else if ft.is_symlink() {
                let t = std::fs::read_link(&path).unwrap();
                let segs: Vec<String> = t.to_string_lossy().split('/').map(str::to_string).collect();
                out.push(json!({"p": rel, "k": "l", "t": segs}));
            } else if ft.is_file() {
                out.push(json!({"p": rel, "k": "f", "c": content(&std::fs::read(&path).unwrap())}));
            } else if std::os::unix::fs::FileTypeExt::is_fifo(&ft) {
                out.push(json!({"p": rel, "k": "p"}));
            } else if std::os::unix::fs::FileTypeExt::is_socket(&ft) {
                out.push(json!({"p": rel, "k": "s"}));
            } else if std::os::unix::fs::FileTypeExt::is_block_device(&ft) {
                out.push(json!({"p": rel, "k": "b"}));
            } else {
                out.push(json!({"p": rel, "k": "?"}));
            }
            rel.pop();
        }
    }
    let mut out = vec![json!({"p": [], "k": "d"})];
    walk(root, &mut Vec::new(), &mut out);
    Value::Array(out)
}

fn ustr(s: &str) -> UnixString {
    UnixString::try_from_str(s).unwrap()
}
fn err_val(e: &tiny_std::Error) -> Value {
    match e {
        tiny_std::Error::Os { code, msg } => json!({"class": "err", "v": [], "errno": code.raw(), "msg": msg}),
        tiny_std::Error::Uncategorized(m) => json!({"class": "err", "v": [], "errno": 0, "msg": m}),
        tiny_std::Error::Timeout => json!({"class": "err", "v": [], "errno": 0, "msg": "timeout"}),
    }
}
static IN_OP: std::sync::atomic::AtomicBool = std::sync::atomic::AtomicBool::new(false);
fn guarded<T>(f: impl FnOnce() -> T) -> Result<T, String> {
    IN_OP.store(true, std::sync::atomic::Ordering::Relaxed);
    let r = vharness::guarded(f);
    IN_OP.store(false, std::sync::atomic::Ordering::Relaxed);
    r
}
fn wrap<T>(r: Result<tiny_std::Result<T>, String>, f: impl FnOnce(T) -> Value) -> Value {
    match r {
        Ok(Ok(v)) => json!({"class": "ok", "v": f(v)}),
        Ok(Err(e)) => err_val(&e),
        Err(m) => json!({"class": "panic", "v": [], "msg": m}),
    }
}
fn kind_of(ft: tiny_std::fs::FileType) -> &'static str {
    use tiny_std::fs::FileType as F;
    match ft {
        F::Directory => "d",
        F::RegularFile => "f",
        F::Symlink => "l",
        F::Fifo => "p",
        F::Socket => "s",
        F::BlockDevice => "b",
        _ => "?",
    }
}

fn list_dir(p: &UnixString) -> tiny_std::Result<Vec<(String, &'static str)>> {
    let d = tiny_std::fs::Directory::open(p)?;
    let mut v = Vec::new();
    for e in d.read() {
        let e = e?;
        let name = e.file_name()?.to_string();
        // the two name accessors must agree
        let un = e.file_unix_name()?;
        if un.as_slice().split_last().map(|x| x.1) != Some(name.as_bytes()) {
            return Err(tiny_std::Error::Uncategorized("file_name != file_unix_name"));
        }
        v.push((name, kind_of(e.file_type())));
    }
    Ok(v)
}

fn run_op(root: &Path, o: &Value) -> (Value, Value) {
    use tiny_std::fs;
    let op = o["op"].as_str().unwrap();
    let p = ustr(&spell(root, &segs_of(&o["p"])));
    let q = o.get("q").filter(|q| q.is_array()).map(|q| ustr(&spell(root, &segs_of(q))));
    let cbytes = o.get("c").filter(|c| c.is_object()).map(content_bytes);
    // the operation as the trace shows it: contents in canonical form
    let mut shown = o.clone();
    if let (Some(b), true) = (&cbytes, !matches!(op, "copy_lim" | "fcopy" | "fcopy_x")) {
        shown["c"] = content(b);
    }
    let nothing = |()| json!([]);
    let owrite = |opts: &mut fs::OpenOptions| -> Value {
        wrap(
            guarded(|| {
                let mut f = opts.open(&p)?;
                f.write_all(cbytes.as_ref().unwrap())?;
                Ok(())
            }),
            nothing,
        )
    };
    let res = match op {
        "write" => wrap(guarded(|| fs::write(&p, cbytes.as_ref().unwrap())), nothing),
        "owrite_c" => owrite(fs::OpenOptions::new().write(true).create(true)),
        "owrite_a" => owrite(fs::OpenOptions::new().append(true).create(true)),
        "owrite_x" => owrite(fs::OpenOptions::new().write(true).create_new(true)),
        "owrite_t" => owrite(fs::OpenOptions::new().write(true).truncate(true)),
        "owrite_p" => owrite(fs::OpenOptions::new().write(true)),
        "oopen" => {
            let f: Vec<bool> = o["f"].as_array().unwrap().iter().map(|x| x.as_bool().unwrap()).collect();
            let mut opts = fs::OpenOptions::new();
            opts.read(f[0]).write(f[1]).append(f[2]).truncate(f[3]).create(f[4]).create_new(f[5]);
            let writable = f[1] || f[2];
            wrap(
                guarded(|| {
                    let mut file = opts.open(&p)?;
                    if writable {
                        file.write_all(cbytes.as_ref().unwrap())?;
                        Ok(None)
                    } else {
                        let mut v = Vec::new();
                        file.read_to_end(&mut v)?;
                        Ok(Some(v))
                    }
                }),
                |v| v.map_or(json!([]), |v| content(&v)),
            )
        }
        "read" => wrap(guarded(|| fs::read(&p)), |v| content(&v)),
        "read_string" => wrap(guarded(|| fs::read_to_string(&p)), |v| content(v.as_bytes())),
        "fread_string" => wrap(
            guarded(|| {
                let mut f = fs::File::open(&p)?;
                let mut t = String::new();
                f.read_to_string(&mut t)?;
                Ok(t)
            }),
            |v| content(v.as_bytes()),
        ),
        "read_x" | "read_string_x" => {
            // a file OUTSIDE the tree (o.x, absolute), e.g. a sysfs binary attribute: st_size says N, every
            // read(2) hands out at most one page.  The observer's content goes into the shown operation (c).
            let x = o["x"].as_str().unwrap();
            shown["c"] = content(&std::fs::read(x).unwrap());
            let px = ustr(x);
            if op == "read_x" {
                wrap(guarded(|| fs::read(&px)), |v| content(&v))
            } else {
                wrap(guarded(|| fs::read_to_string(&px)), |v| content(v.as_bytes()))
            }
        }
        "read_file" => wrap(
            guarded(|| {
                let mut f = fs::File::open(&p)?;
                let mut v = Vec::new();
                let mut buf = [0u8; 37];
                loop {
                    let n = f.read(&mut buf)?;
                    if n == 0 {
                        break;
                    }
                    v.extend_from_slice(&buf[..n]);
                }
                Ok(v)
            }),
            |v| content(&v),
        ),
        "copy" => wrap(guarded(|| fs::copy_file(&p, q.as_ref().unwrap()).map(|_f| ())), nothing),
        "write_lim" => {
            // write-like operations under RLIMIT_FSIZE = 3 bytes: the kernel answers the payload write short
            let f: Vec<bool> = o["f"].as_array().unwrap().iter().map(|x| x.as_bool().unwrap()).collect();
            unsafe {
                libc::signal(libc::SIGXFSZ, libc::SIG_IGN);
                let rl = libc::rlimit { rlim_cur: 3, rlim_max: libc::RLIM_INFINITY };
                assert_eq!(0, libc::setrlimit(libc::RLIMIT_FSIZE, &rl));
            }
            let r = if f.is_empty() {
                wrap(guarded(|| fs::write(&p, cbytes.as_ref().unwrap())), nothing)
            } else {
                let mut opts = fs::OpenOptions::new();
                opts.read(f[0]).write(f[1]).append(f[2]).truncate(f[3]).create(f[4]).create_new(f[5]);
                owrite(&mut opts)
            };
            unsafe {
                let rl = libc::rlimit { rlim_cur: libc::RLIM_INFINITY, rlim_max: libc::RLIM_INFINITY };
                assert_eq!(0, libc::setrlimit(libc::RLIMIT_FSIZE, &rl));
            }
            r
        }
        "copy_lim" => {
            // RLIMIT_FSIZE makes the kernel cut copy_file_range short: the copy loop has to iterate
            let lim = o["c"]["n"].as_u64().unwrap();
            unsafe {
                libc::signal(libc::SIGXFSZ, libc::SIG_IGN);
                let rl = libc::rlimit { rlim_cur: lim, rlim_max: libc::RLIM_INFINITY };
                assert_eq!(0, libc::setrlimit(libc::RLIMIT_FSIZE, &rl));
            }
            let r = wrap(guarded(|| fs::copy_file(&p, q.as_ref().unwrap()).map(|_f| ())), nothing);
            unsafe {
                let rl = libc::rlimit { rlim_cur: libc::RLIM_INFINITY, rlim_max: libc::RLIM_INFINITY };
                assert_eq!(0, libc::setrlimit(libc::RLIMIT_FSIZE, &rl));
            }
            r
        }
        "fcopy" | "fcopy_x" => {
            // File::copy on an OPEN handle of which k bytes were read before (position k, not 0);
            // fcopy_x: destination on another file system (tmpfs), reported as the value
            let k = o["c"]["n"].as_u64().unwrap() as usize;
            let xdir = PathBuf::from(format!("/dev/shm/verif-c14-{}", std::process::id()));
            let xdst = xdir.join("dst");
            let dst = if op == "fcopy_x" {
                let _ = std::fs::remove_dir_all(&xdir);
                std::fs::create_dir_all(&xdir).unwrap();
                ustr(&xdst.display().to_string())
            } else {
                ustr(&spell(root, &segs_of(&o["q"])))
            };
            let r = guarded(|| {
                let mut f = fs::File::open(&p)?;
                let mut got = 0;
                let mut b = [0u8; 1];
                while got < k {
                    if f.read(&mut b)? == 0 {
                        break;
                    }
                    got += 1;
                }
                f.copy(&dst).map(|_f| ())
            });
            let v = if op == "fcopy_x" {
                let c = std::fs::read(&xdst).ok();
                let _ = std::fs::remove_dir_all(&xdir);
                wrap(r, |()| c.map_or(json!([]), |c| content(&c)))
            } else {
                wrap(r, nothing)
            };
            v
        }
        "create_dir" => wrap(guarded(|| fs::create_dir(&p)), nothing),
        "create_dir_all" => wrap(guarded(|| fs::create_dir_all(&p)), nothing),
        "remove_dir_all" => wrap(guarded(|| fs::remove_dir_all(&p)), nothing),
        "remove_file" => wrap(guarded(|| fs::remove_file(&p)), nothing),
        "remove_dir" => wrap(guarded(|| fs::remove_dir(&p)), nothing),
        "rename" => wrap(guarded(|| fs::rename(&p, q.as_ref().unwrap())), nothing),
        "exists" => wrap(guarded(|| fs::exists(&p)), |b| json!(b)),
        "metadata" => wrap(guarded(|| fs::metadata(&p)), |m| {
            json!({"dir": m.is_dir(), "file": m.is_file(), "symlink": m.is_symlink(), "len": m.len().min(1 << 30)})
        }),
        "read_dir" => wrap(guarded(|| list_dir(&p)), |v| json!(v.iter().map(|(n, k)| json!([n, k])).collect::<Vec<_>>())),
        _ => panic!("unknown op {op}"),
    };
    (shown, res)
}

static CUR: std::sync::atomic::AtomicI64 = std::sync::atomic::AtomicI64::new(-1);
/// a plan that does not finish within 30 s is a hang of the code under test (exit 43)
fn watchdog() {
    std::thread::spawn(|| {
        let mut last = (-2i64, std::time::Instant::now());
        loop {
            std::thread::sleep(std::time::Duration::from_millis(250));
            let cur = CUR.load(std::sync::atomic::Ordering::Relaxed);
            if cur != last.0 {
                last = (cur, std::time::Instant::now());
            } else if cur >= 0 && last.1.elapsed() > std::time::Duration::from_secs(std::env::var("VERIF_WATCHDOG_S").ok().and_then(|s| s.parse().ok()).unwrap_or(30)) {
                unsafe { libc::_exit(43) };
            }
        }
    });
}

fn seq_mode(plans: &str, base: &str, skip: usize) {
    watchdog();
    let f = std::io::BufReader::new(std::fs::File::open(plans).unwrap());
    let stdout = std::io::stdout();
    let mut out = std::io::BufWriter::with_capacity(1 << 16, stdout.lock());
    let mut inits: Vec<Value> = Vec::new();
    let home = std::env::current_dir().unwrap();
    let mut idx = 0usize;
    for line in f.lines() {
        let line = line.unwrap();
        if line.is_empty() {
            continue;
        }
        let plan: Value = serde_json::from_str(&line).unwrap();
        if let Some(ts) = plan.get("inits") {
            inits = ts.as_array().unwrap().clone();
            continue;
        }
        let id = idx;
        idx += 1;
        if id < skip {
            continue;
        }
        // three private levels above the root: a link moved upwards may point to "../.." without
        // leaving the plan's own directory
        let top = PathBuf::from(base).join(format!("r{id}"));
        let root = top.join("u/v/root");
        let _ = std::fs::remove_dir_all(&top);
        std::fs::create_dir_all(&root).unwrap();
        CUR.store(id as i64, std::sync::atomic::Ordering::Relaxed);
        let tree = match plan.get("tree") {
            Some(t) => t.clone(),
            None => inits[plan["init"].as_u64().unwrap() as usize - 1].clone(),
        };
        std::env::set_current_dir(&root).unwrap();
        // everything the observer does is relative to the root, so that paths up to PATH_MAX fit
        build(Path::new(""), &tree);
        // announce the plan before running it: a crash is attributed to it
        writeln!(out, "{}", json!({"ev": "begin", "id": id})).unwrap();
        out.flush().unwrap();
        writeln!(out, "{}", json!({"ev": "reset", "id": id, "tree": dump(Path::new("."))})).unwrap();
        for o in plan["ops"].as_array().unwrap() {
            let (shown, res) = run_op(&root, o);
            writeln!(out, "{}", json!({"ev": "op", "id": id, "o": shown, "res": res, "tree": dump(Path::new("."))})).unwrap();
        }
        out.flush().unwrap();
        std::env::set_current_dir(&home).unwrap();
        std::fs::remove_dir_all(&top).unwrap();
    }
    CUR.store(-1, std::sync::atomic::Ordering::Relaxed);
    writeln!(out, "{}", json!({"ev": "end", "n": idx})).unwrap();
    out.flush().unwrap();
}

/// Big directories: `{"n":count,"namelen":l,"kinds":"dflp"}` creates n entries (kinds cycling),
/// lists the directory with tiny_std's ReadDir and with std::fs, then remove_dir_all's it.
fn fanout_mode(cases: &str, base: &str) {
    let f = std::io::BufReader::new(std::fs::File::open(cases).unwrap());
    let stdout = std::io::stdout();
    let mut out = std::io::BufWriter::new(stdout.lock());
    for (id, line) in f.lines().enumerate() {
        let case: Value = serde_json::from_str(&line.unwrap()).unwrap();
        let n = case["n"].as_u64().unwrap() as usize;
        let namelen = case["namelen"].as_u64().unwrap() as usize;
        let kinds: Vec<char> = case["kinds"].as_str().unwrap().chars().collect();
        let root = PathBuf::from(base).join(format!("f{id}"));
        let _ = std::fs::remove_dir_all(&root);
        std::fs::create_dir_all(root.join("d")).unwrap();
        std::fs::write(root.join("outside"), b"keep").unwrap();
        let mut expect: Vec<(String, String)> = Vec::new();
        for i in 0..n {
            let stem = format!("{i:05}");
            let varlen = if case["vary"].as_bool().unwrap_or(false) { 1 + (i * 37) % namelen.max(1) } else { namelen };
            let name = if varlen <= stem.len() { format!("{i}") } else { format!("{stem}{}", "x".repeat(varlen - stem.len())) };
            let k = kinds[i % kinds.len()];
            let path = root.join("d").join(&name);
            match k {
                'd' => std::fs::create_dir(&path).unwrap(),
                'f' => std::fs::write(&path, b"x").unwrap(),
                'l' => std::os::unix::fs::symlink("../outside", &path).unwrap(),
                'p' => {
                    let c = std::ffi::CString::new(path.as_os_str().as_bytes()).unwrap();
                    assert_eq!(0, unsafe { libc::mkfifo(c.as_ptr(), 0o644) });
                }
                _ => panic!(),
            }
            expect.push((name, k.to_string()));
        }
        let dpath = ustr(&root.join("d").display().to_string());
        let listed = wrap(guarded(|| list_dir(&dpath)), |v| json!(v.iter().map(|(n, k)| json!([n, k])).collect::<Vec<_>>()));
        // the observer's view
        let mut seen: Vec<(String, String)> = std::fs::read_dir(root.join("d"))
            .unwrap()
            .map(|e| {
                let e = e.unwrap();
                let ft = e.file_type().unwrap();
                let k = if ft.is_dir() { "d" } else if ft.is_symlink() { "l" } else if ft.is_file() { "f" } else { "p" };
                (e.file_name().to_string_lossy().into_owned(), k.to_string())
            })
            .collect();
        seen.sort();
        expect.sort();
        assert_eq!(seen, expect, "observer disagrees with what the driver created");
        let rm = wrap(guarded(|| tiny_std::fs::remove_dir_all(&dpath)), |()| json!([]));
        let left: Vec<String> = std::fs::read_dir(&root).unwrap().map(|e| e.unwrap().file_name().to_string_lossy().into_owned()).collect();
        let outside_ok = std::fs::read(root.join("outside")).map(|b| b == b"keep").unwrap_or(false);
        writeln!(out, "{}", json!({"ev": "fanout", "id": id, "case": case, "children": seen.iter().map(|(n, k)| json!([n, k])).collect::<Vec<_>>(),
            "listed": listed, "rm": rm, "left": left, "outside_ok": outside_ok})).unwrap();
        out.flush().unwrap();
        let _ = std::fs::remove_dir_all(&root);
    }
}

/// What getdents64 with a 512-byte buffer returns for `dir`: the record sizes of every batch (observer).
fn getdents_batches(dir: &Path) -> Vec<Vec<usize>> {
    use std::os::fd::AsRawFd;
    let f = std::fs::File::open(dir).unwrap();
    let mut out = Vec::new();
    let mut buf = [0u64; 64];           // 512 bytes, aligned
    loop {
        let n = unsafe { libc::syscall(libc::SYS_getdents64, f.as_raw_fd(), buf.as_mut_ptr(), 512usize) };
        assert!(n >= 0);
        if n == 0 {
            break;
        }
        let bytes = unsafe { std::slice::from_raw_parts(buf.as_ptr().cast::<u8>(), n as usize) };
        let mut off = 0;
        let mut recs = Vec::new();
        while off < bytes.len() {
            let reclen = u16::from_ne_bytes([bytes[off + 16], bytes[off + 17]]) as usize;
            recs.push(reclen);
            off += reclen;
        }
        out.push(recs);
    }
    out
}
fn name_for(reclen: usize, idx: usize, salt: usize) -> String {
    // d_reclen = align8(19 + len + 1)
    let len = (reclen - 20).min(255);
    let mut s = format!("{}{:x}", (b'a' + idx as u8) as char, salt % 4096);
    s.truncate(len);
    while s.len() < len {
        s.push('x');
    }
    s
}
/// Directories engineered so that "space left in the 512-byte window after a batch" x "size of the next
/// record" sweeps the boundary matrix: case {"r","R","tries"}: fillers whose records (with "." and "..")
/// sum to 512 - r, and one record of R bytes; the order is the file system's, so several salts are tried
/// and the batches actually observed are reported (`pairs`).  Every directory is listed by tiny_std and judged.
fn dirmatrix_mode(cases: &str, base: &str) {
    let f = std::io::BufReader::new(std::fs::File::open(cases).unwrap());
    let stdout = std::io::stdout();
    let mut out = std::io::BufWriter::new(stdout.lock());
    let mut id = 0usize;
    for line in f.lines() {
        let case: Value = serde_json::from_str(&line.unwrap()).unwrap();
        let r = case["r"].as_u64().unwrap() as usize;
        let big = case["R"].as_u64().unwrap() as usize;
        let tries = case["tries"].as_u64().unwrap() as usize;
        let total = 512 - 48 - r;
        let m = total.div_ceil(280);
        let mut sizes: Vec<usize> = (0..m).map(|_| total / m / 8 * 8).collect();
        let rest = total - sizes.iter().sum::<usize>();
        sizes[0] += rest;
        sizes.push(big);
        for salt in 0..tries {
            let root = PathBuf::from(base).join(format!("m{id}"));
            id += 1;
            let _ = std::fs::remove_dir_all(&root);
            std::fs::create_dir_all(root.join("d")).unwrap();
            std::fs::write(root.join("outside"), b"keep").unwrap();
            let mut expect: Vec<(String, String)> = Vec::new();
            for (i, sz) in sizes.iter().enumerate() {
                let name = name_for(*sz, i, salt * 7 + r + big);
                std::fs::write(root.join("d").join(&name), b"").unwrap();
                expect.push((name, "f".to_string()));
            }
            expect.sort();
            let batches = getdents_batches(&root.join("d"));
            let mut pairs = Vec::new();
            for w in batches.windows(2) {
                pairs.push(json!([512 - w[0].iter().sum::<usize>(), w[1][0]]));
            }
            let hit = pairs.iter().any(|p| p[0] == r && p[1] == big);
            let dpath = ustr(&root.join("d").display().to_string());
            let listed = wrap(guarded(|| list_dir(&dpath)), |v| json!(v.iter().map(|(n, k)| json!([n, k])).collect::<Vec<_>>()));
            let rm = wrap(guarded(|| tiny_std::fs::remove_dir_all(&dpath)), |()| json!([]));
            let left: Vec<String> = std::fs::read_dir(&root).unwrap().map(|e| e.unwrap().file_name().to_string_lossy().into_owned()).collect();
            let outside_ok = std::fs::read(root.join("outside")).map(|b| b == b"keep").unwrap_or(false);
            writeln!(out, "{}", json!({"ev": "fanout", "id": id - 1, "case": case, "children": expect.iter().map(|(n, k)| json!([n, k])).collect::<Vec<_>>(),
                "listed": listed, "rm": rm, "left": left, "outside_ok": outside_ok, "pairs": pairs, "hit": hit})).unwrap();
            let _ = std::fs::remove_dir_all(&root);
            if hit {
                break;
            }
        }
    }
    out.flush().unwrap();
}

/// One copy of a sparse file of `len` bytes (data only in the first and last KiB) over a
/// destination of `dst_len` bytes; reports lengths and whether head/tail arrived.
fn bigcopy_mode(base: &str, len: u64, dst_len: u64) {
    use std::io::{Read, Seek, SeekFrom, Write};
    let root = PathBuf::from(base).join("bigcopy");
    let _ = std::fs::remove_dir_all(&root);
    std::fs::create_dir_all(&root).unwrap();
    let src = root.join("src");
    let dst = root.join("dst");
    let head = gen_bytes(7, 1024);
    let tail = gen_bytes(8, 1024);
    {
        let mut f = std::fs::File::create(&src).unwrap();
        f.write_all(&head).unwrap();
        f.set_len(len).unwrap();
        f.seek(SeekFrom::Start(len - 1024)).unwrap();
        f.write_all(&tail).unwrap();
    }
    if dst_len > 0 {
        let f = std::fs::File::create(&dst).unwrap();
        f.set_len(dst_len).unwrap();
    }
    let r = wrap(guarded(|| tiny_std::fs::copy_file(&ustr(&src.display().to_string()), &ustr(&dst.display().to_string())).map(|_f| ())), |()| json!([]));
    let got_len = std::fs::metadata(&dst).map(|m| m.len()).unwrap_or(0);
    let mut ok_head = false;
    let mut ok_tail = false;
    if let Ok(mut f) = std::fs::File::open(&dst) {
        let mut b = vec![0u8; 1024];
        ok_head = f.read_exact(&mut b).is_ok() && b == head;
        ok_tail = got_len >= 1024 && f.seek(SeekFrom::Start(got_len - 1024)).is_ok() && f.read_exact(&mut b).is_ok() && b == tail;
    }
    println!("{}", json!({"ev": "bigcopy", "len": len, "dst_len": dst_len, "res": r, "got_len": got_len, "head_ok": ok_head, "tail_ok": ok_tail}));
    let _ = std::fs::remove_dir_all(&root);
}

/// Whole-file reads of a sparse file larger than what one read(2) hands out (0x7ffff000): fs::read and
/// fs::read_to_string must return every byte.  Reports length and head/tail/sample checks.
fn bigread_mode(base: &str, len: u64, which_ops: &str) {
    use std::io::{Seek, SeekFrom, Write};
    let root = PathBuf::from(base).join("bigread");
    let _ = std::fs::remove_dir_all(&root);
    std::fs::create_dir_all(&root).unwrap();
    let src = root.join("src");
    // ASCII head / tail so that the file is valid UTF-8 (zeros in between)
    let head: Vec<u8> = gen_bytes(7, 1024).iter().map(|b| b & 0x7f).collect();
    let tail: Vec<u8> = gen_bytes(8, 1024).iter().map(|b| b & 0x7f).collect();
    {
        let mut f = std::fs::File::create(&src).unwrap();
        f.write_all(&head).unwrap();
        f.set_len(len).unwrap();
        f.seek(SeekFrom::Start(len - 1024)).unwrap();
        f.write_all(&tail).unwrap();
    }
    let p = ustr(&src.display().to_string());
    for which in ["read", "read_to_string"] {
        if which_ops == "read" && which != "read" {
            continue;
        }
        let t0 = std::time::Instant::now();
        let r: Result<tiny_std::Result<Vec<u8>>, String> = guarded(|| {
            if which == "read" {
                tiny_std::fs::read(&p)
            } else {
                tiny_std::fs::read_to_string(&p).map(String::into_bytes)
            }
        });
        let ev = match r {
            Ok(Ok(v)) => {
                let l = v.len() as u64;
                let ok = l == len && v[..1024] == head[..] && v[v.len() - 1024..] == tail[..] && v[1024..v.len() - 1024].iter().step_by(4093).all(|b| *b == 0);
                json!({"ev": "bigread", "op": which, "len": len, "res": "ok", "got_len": l, "content_ok": ok, "ms": t0.elapsed().as_millis() as u64})
            }
            Ok(Err(e)) => json!({"ev": "bigread", "op": which, "len": len, "res": "err", "got_len": 0, "content_ok": false, "msg": format!("{e}"), "ms": t0.elapsed().as_millis() as u64}),
            Err(m) => json!({"ev": "bigread", "op": which, "len": len, "res": "panic", "got_len": 0, "content_ok": false, "msg": m, "ms": t0.elapsed().as_millis() as u64}),
        };
        println!("{ev}");
    }
    let _ = std::fs::remove_dir_all(&root);
}

/// The same operations as an UNPRIVILEGED uid: root prepares twin trees (A for std::fs = the reference, B for
/// tiny_std::fs) under a fresh 0755 directory in /var/tmp with entries owned by root and by `uid`; a forked
/// child drops to `uid` and runs each scenario with both, printing {scenario, op, std, tiny, same}.
fn unpriv_mode(uid: u32) {
    use std::os::unix::fs::{chown, PermissionsExt};
    let mut tmpl = *b"/var/tmp/verif-c14-XXXXXX\0";
    assert!(!unsafe { libc::mkdtemp(tmpl.as_mut_ptr().cast()) }.is_null());
    let base = PathBuf::from(std::str::from_utf8(&tmpl[..tmpl.len() - 1]).unwrap());
    std::fs::set_permissions(&base, std::fs::Permissions::from_mode(0o755)).unwrap();
    let own = |p: &Path| chown(p, Some(uid), Some(uid)).unwrap();
    for twin in ["A", "B"] {
        let t = base.join(twin);
        std::fs::create_dir(&t).unwrap();
        own(&t);
        // a root-owned world-readable directory with entries of both owners
        std::fs::create_dir(t.join("rootdir")).unwrap();
        std::fs::write(t.join("rootdir/f1"), b"root file").unwrap();
        std::fs::create_dir(t.join("rootdir/sub")).unwrap();
        std::fs::write(t.join("rootdir/u1"), b"user file").unwrap();
        own(&t.join("rootdir/u1"));
        std::os::unix::fs::symlink("f1", t.join("rootdir/lnk")).unwrap();
        // an own tree that holds a FOREIGN-owned empty directory inside an own-owned parent
        for d in ["own", "own/mine", "own/deep", "own/deep/er"] {
            std::fs::create_dir(t.join(d)).unwrap();
            own(&t.join(d));
        }
        for f in ["own/file", "own/mine/x", "own/deep/er/y"] {
            std::fs::write(t.join(f), b"x").unwrap();
            own(&t.join(f));
        }
        std::fs::create_dir(t.join("own/foreign_empty")).unwrap();
        std::fs::create_dir(t.join("own/deep/foreign_empty2")).unwrap();
        // an entirely own tree
        for d in ["own2", "own2/a"] {
            std::fs::create_dir(t.join(d)).unwrap();
            own(&t.join(d));
        }
        std::fs::write(t.join("own2/a/f"), b"y").unwrap();
        own(&t.join("own2/a/f"));
        for p in ["rootdir", "rootdir/sub", "own/foreign_empty", "own/deep/foreign_empty2"] {
            std::fs::set_permissions(t.join(p), std::fs::Permissions::from_mode(0o755)).unwrap();
        }
    }
    // permission-bit scenarios: everything below perm/ belongs to `uid`, modes as the names say
    for twin in ["A", "B"] {
        let p = base.join(twin).join("perm");
        std::fs::create_dir(&p).unwrap();
        let file = |rel: &str, bytes: &[u8], mode: u32| {
            std::fs::write(p.join(rel), bytes).unwrap();
            own(&p.join(rel));
            std::fs::set_permissions(p.join(rel), std::fs::Permissions::from_mode(mode)).unwrap();
        };
        for d in ["dir300", "dir300/emptysub", "dir300/sub2", "dir500", "dir500/sub", "dir100", "dir700"] {
            std::fs::create_dir(p.join(d)).unwrap();
            own(&p.join(d));
        }
        file("src", b"source bytes", 0o644);
        file("src400", b"read-only source", 0o400);
        for (n, m) in [("d200", 0o200), ("d600", 0o600), ("d644", 0o644), ("w200", 0o200), ("a200", 0o200), ("o200", 0o200), ("fc200", 0o200)] {
            file(n, b"old content that is longer than the source", m);
        }
        file("r400", b"only readable", 0o400);
        file("dir300/f", b"f", 0o644);
        file("dir300/g", b"g", 0o644);
        file("dir300/sub2/h", b"h", 0o644);
        file("dir500/a", b"a", 0o644);
        file("dir500/b", b"b", 0o600);
        file("dir100/f", b"in x-only dir", 0o644);
        file("dir700/keep", b"k", 0o600);
        own(&p);
        for (d, m) in [("dir300", 0o300), ("dir500", 0o500), ("dir100", 0o100), ("dir700", 0o700)] {
            std::fs::set_permissions(p.join(d), std::fs::Permissions::from_mode(m)).unwrap();
        }
    }
    std::io::stdout().flush().unwrap();
    let pid = unsafe { libc::fork() };
    if pid == 0 {
        unsafe {
            assert_eq!(0, libc::setgroups(0, std::ptr::null()));
            assert_eq!(0, libc::setresgid(uid, uid, uid));
            assert_eq!(0, libc::setresuid(uid, uid, uid));
        }
        let listing_std = |p: &Path| -> Result<Vec<(String, String)>, String> {
            let mut v = Vec::new();
            for e in std::fs::read_dir(p).map_err(|e| e.to_string())? {
                let e = e.map_err(|e| e.to_string())?;
                let ft = e.file_type().map_err(|e| e.to_string())?;
                let k = if ft.is_dir() { "d" } else if ft.is_symlink() { "l" } else if ft.is_file() { "f" } else { "?" };
                v.push((e.file_name().to_string_lossy().into_owned(), k.to_string()));
            }
            v.sort();
            Ok(v)
        };
        let listing_tiny = |p: &Path| -> Result<Vec<(String, String)>, String> {
            let r = guarded(|| list_dir(&ustr(&p.display().to_string())));
            match r {
                Ok(Ok(v)) => {
                    let mut v: Vec<(String, String)> = v.into_iter().filter(|(n, _)| n != "." && n != "..")
                        .map(|(n, k)| (n, if matches!(k, "d" | "l" | "f") { k.to_string() } else { "?".to_string() })).collect();
                    v.sort();
                    Ok(v)
                }
                Ok(Err(e)) => Err(format!("{e}")),
                Err(m) => Err(format!("panic: {m}")),
            }
        };
        let emit = |scenario: &str, op: &str, std_ok: bool, tiny: &str, same: bool, note: String| {
            println!("{}", json!({"ev": "unpriv", "scenario": scenario, "op": op, "std": if std_ok { "ok" } else { "err" }, "tiny": tiny, "same": same, "note": note}));
        };
        // listings: prepared root-owned directory, own directory, real system directories
        let (a, b) = (base.join("A"), base.join("B"));
        for (name, pa, pb) in [("root_owned_0755_dir", a.join("rootdir"), b.join("rootdir")), ("own_dir", a.join("own"), b.join("own")),
                               ("/", PathBuf::from("/"), PathBuf::from("/")), ("/usr", PathBuf::from("/usr"), PathBuf::from("/usr")),
                               ("/etc", PathBuf::from("/etc"), PathBuf::from("/etc"))] {
            let s = listing_std(&pa);
            let t = listing_tiny(&pb);
            emit(name, "read_dir", s.is_ok(), if t.is_ok() { "ok" } else { "err" }, s.is_ok() && t.is_ok() && s == t,
                 format!("std={:?} tiny={:?}", s.as_ref().map(Vec::len), t.as_ref().map(Vec::len).map_err(Clone::clone)));
        }
        // reading a root-owned 0644 file, metadata of a root-owned directory
        let s = std::fs::read(a.join("rootdir/f1"));
        let t = guarded(|| tiny_std::fs::read(&ustr(&b.join("rootdir/f1").display().to_string())));
        emit("root_owned_0644_file", "read", s.is_ok(), if matches!(t, Ok(Ok(_))) { "ok" } else { "err" },
             matches!((&s, &t), (Ok(x), Ok(Ok(y))) if x == y), String::new());
        let s = std::fs::metadata(a.join("rootdir/sub")).map(|m| m.is_dir());
        let t = guarded(|| tiny_std::fs::metadata(&ustr(&b.join("rootdir/sub").display().to_string())).map(|m| m.is_dir()));
        emit("root_owned_dir", "metadata", s.is_ok(), if matches!(t, Ok(Ok(_))) { "ok" } else { "err" },
             matches!((&s, &t), (Ok(x), Ok(Ok(y))) if x == y), String::new());
        // remove_dir_all: entirely own tree; own tree holding foreign-owned EMPTY directories; a root-owned tree (std fails)
        for (name, rel) in [("own_tree", "own2"), ("own_tree_with_foreign_empty_subdirs", "own"), ("root_owned_tree", "rootdir")] {
            let s = std::fs::remove_dir_all(a.join(rel));
            let t = guarded(|| tiny_std::fs::remove_dir_all(&ustr(&b.join(rel).display().to_string())));
            let tiny = match &t {
                Ok(Ok(())) => "ok".to_string(),
                Ok(Err(e)) => format!("err: {e}"),
                Err(m) => format!("panic: {m}"),
            };
            let same = a.join(rel).exists() == b.join(rel).exists();
            emit(name, "remove_dir_all", s.is_ok(), if tiny == "ok" { "ok" } else { "err" }, same, tiny);
        }
        // create_dir_all + write + read_to_string below an own directory
        let s = std::fs::create_dir_all(a.join("own2n/x/y")).and_then(|()| std::fs::write(a.join("own2n/x/y/f"), "t\u{e9}xt")).and_then(|()| std::fs::read_to_string(a.join("own2n/x/y/f")));
        let t = guarded(|| {
            tiny_std::fs::create_dir_all(&ustr(&b.join("own2n/x/y").display().to_string()))?;
            tiny_std::fs::write(&ustr(&b.join("own2n/x/y/f").display().to_string()), "t\u{e9}xt".as_bytes())?;
            tiny_std::fs::read_to_string(&ustr(&b.join("own2n/x/y/f").display().to_string()))
        });
        emit("new_tree_in_own_dir", "create_dir_all+write+read_to_string", s.is_ok(), if matches!(t, Ok(Ok(_))) { "ok" } else { "err" },
             matches!((&s, &t), (Ok(x), Ok(Ok(y))) if x == y), String::new());
        // ---- permission bits: (scenario, op, std on twin A, tiny on twin B); what is compared afterwards (by the
        //      parent, as root, because the child may not be able to read it) is listed in PERM_CMP
        let u = |p: PathBuf| ustr(&p.display().to_string());
        let (pa, pb) = (a.join("perm"), b.join("perm"));
        let t_ok = |r: Result<tiny_std::Result<()>, String>| -> (bool, String) {
            match r {
                Ok(Ok(())) => (true, String::new()),
                Ok(Err(e)) => (false, format!("{e}")),
                Err(m) => (false, format!("panic: {m}")),
            }
        };
        let mut perm = |scenario: &str, op: &str, s: std::io::Result<()>, t: Result<tiny_std::Result<()>, String>| {
            let (tok, note) = t_ok(t);
            println!("{}", json!({"ev": "unpriv", "scenario": scenario, "op": op, "std": if s.is_ok() { "ok" } else { "err" },
                                  "tiny": if tok { "ok" } else { "err" }, "same": false, "cmp": true, "note": note}));
        };
        for dst in ["d200", "d600", "d644"] {
            perm(&format!("copy_onto_{dst}"), "copy", std::fs::copy(pa.join("src"), pa.join(dst)).map(|_| ()),
                 guarded(|| tiny_std::fs::copy_file(&u(pb.join("src")), &u(pb.join(dst))).map(|_f| ())));
        }
        perm("copy_from_0400_to_new", "copy", std::fs::copy(pa.join("src400"), pa.join("dir700/new")).map(|_| ()),
             guarded(|| tiny_std::fs::copy_file(&u(pb.join("src400")), &u(pb.join("dir700/new"))).map(|_f| ())));
        perm("file_copy_onto_fc200", "File::copy", std::fs::copy(pa.join("src"), pa.join("fc200")).map(|_| ()),
             guarded(|| tiny_std::fs::File::open(&u(pb.join("src")))?.copy(&u(pb.join("fc200"))).map(|_f| ())));
        perm("write_0200", "write", std::fs::write(pa.join("w200"), b"new"), guarded(|| tiny_std::fs::write(&u(pb.join("w200")), b"new")));
        perm("append_0200", "OpenOptions append", std::fs::OpenOptions::new().append(true).open(pa.join("a200")).and_then(|mut f| std::io::Write::write_all(&mut f, b"+more")),
             guarded(|| {
                 let mut f = tiny_std::fs::OpenOptions::new().append(true).open(&u(pb.join("a200")))?;
                 f.write_all(b"+more")
             }));
        perm("overwrite_0200_no_trunc", "OpenOptions write", std::fs::OpenOptions::new().write(true).open(pa.join("o200")).and_then(|mut f| std::io::Write::write_all(&mut f, b"XY")),
             guarded(|| {
                 let mut f = tiny_std::fs::OpenOptions::new().write(true).open(&u(pb.join("o200")))?;
                 f.write_all(b"XY")
             }));
        perm("create_file_in_0300_dir", "write", std::fs::write(pa.join("dir300/new"), b"n"), guarded(|| tiny_std::fs::write(&u(pb.join("dir300/new")), b"n")));
        perm("create_dir_in_0300_dir", "create_dir", std::fs::create_dir(pa.join("dir300/nd")), guarded(|| tiny_std::fs::create_dir(&u(pb.join("dir300/nd")))));
        perm("create_dir_all_in_0300_dir", "create_dir_all", std::fs::create_dir_all(pa.join("dir300/x/y")), guarded(|| tiny_std::fs::create_dir_all(&u(pb.join("dir300/x/y")))));
        perm("remove_file_in_0300_dir", "remove_file", std::fs::remove_file(pa.join("dir300/f")), guarded(|| tiny_std::fs::remove_file(&u(pb.join("dir300/f")))));
        perm("remove_dir_in_0300_dir", "remove_dir", std::fs::remove_dir(pa.join("dir300/emptysub")), guarded(|| tiny_std::fs::remove_dir(&u(pb.join("dir300/emptysub")))));
        perm("remove_dir_all_below_0300_dir", "remove_dir_all", std::fs::remove_dir_all(pa.join("dir300/sub2")), guarded(|| tiny_std::fs::remove_dir_all(&u(pb.join("dir300/sub2")))));
        perm("rename_in_0300_dir", "rename", std::fs::rename(pa.join("dir300/g"), pa.join("dir300/g2")), guarded(|| tiny_std::fs::rename(&u(pb.join("dir300/g")), &u(pb.join("dir300/g2")))));
        perm("remove_dir_all_of_0300_dir", "remove_dir_all", std::fs::remove_dir_all(pa.join("dir300")), guarded(|| tiny_std::fs::remove_dir_all(&u(pb.join("dir300")))));
        // results the child can compare itself
        let s = std::fs::read(pa.join("r400"));
        let t = guarded(|| tiny_std::fs::read(&u(pb.join("r400"))));
        emit("read_0400", "read", s.is_ok(), if matches!(t, Ok(Ok(_))) { "ok" } else { "err" }, matches!((&s, &t), (Ok(x), Ok(Ok(y))) if x == y), String::new());
        let s = listing_std(&pa.join("dir500"));
        let t = listing_tiny(&pb.join("dir500"));
        emit("list_0500_dir", "read_dir", s.is_ok(), if t.is_ok() { "ok" } else { "err" }, s.is_ok() && t.is_ok() && s == t, format!("{t:?}"));
        let s = std::fs::metadata(pa.join("dir100/f")).map(|m| m.len());
        let t = guarded(|| tiny_std::fs::metadata(&u(pb.join("dir100/f"))).map(|m| m.len()));
        emit("metadata_in_0100_dir", "metadata", s.is_ok(), if matches!(t, Ok(Ok(_))) { "ok" } else { "err" }, matches!((&s, &t), (Ok(x), Ok(Ok(y))) if x == y), String::new());
        let s = std::fs::read(pa.join("dir100/f"));
        let t = guarded(|| tiny_std::fs::read(&u(pb.join("dir100/f"))));
        emit("read_in_0100_dir", "read", s.is_ok(), if matches!(t, Ok(Ok(_))) { "ok" } else { "err" }, matches!((&s, &t), (Ok(x), Ok(Ok(y))) if x == y), String::new());
        std::io::stdout().flush().unwrap();
        unsafe { libc::_exit(0) };
    }
    let mut status = 0;
    unsafe { libc::waitpid(pid, &mut status, 0) };
    // root compares what the permission scenarios left in the two twins (kinds and bytes, not modes)
    fn snapshot(p: &Path, rel: &mut String, out: &mut Vec<(String, String, Vec<u8>)>) {
        let Ok(md) = std::fs::symlink_metadata(p) else { return };
        if md.is_dir() {
            out.push((rel.clone(), "d".into(), Vec::new()));
            let mut names: Vec<_> = std::fs::read_dir(p).unwrap().map(|e| e.unwrap().file_name()).collect();
            names.sort();
            for n in names {
                let keep = rel.len();
                rel.push('/');
                rel.push_str(&n.to_string_lossy());
                snapshot(&p.join(&n), rel, out);
                rel.truncate(keep);
            }
        } else {
            out.push((rel.clone(), "f".into(), std::fs::read(p).unwrap_or_default()));
        }
    }
    let (mut sa, mut sb) = (Vec::new(), Vec::new());
    snapshot(&base.join("A/perm"), &mut String::new(), &mut sa);
    snapshot(&base.join("B/perm"), &mut String::new(), &mut sb);
    let diff: Vec<String> = sa.iter().filter(|x| !sb.contains(x)).chain(sb.iter().filter(|x| !sa.contains(x))).map(|x| x.0.clone()).collect();
    println!("{}", json!({"ev": "unpriv_cmp", "differing_paths": diff}));
    println!("{}", json!({"ev": "unpriv_end", "status": status}));
    let _ = std::fs::remove_dir_all(&base);
}

fn main() {
    // panics of the code under test are data (quiet); panics of the driver itself are tool errors (loud)
    std::panic::set_hook(Box::new(|info| {
        if !IN_OP.load(std::sync::atomic::Ordering::Relaxed) {
            eprintln!("fsops driver panic: {info}");
        }
    }));
    let a: Vec<String> = std::env::args().collect();
    match a[1].as_str() {
        "seq" => seq_mode(&a[2], &a[3], a.get(4).and_then(|s| s.parse().ok()).unwrap_or(0)),
        "fanout" => fanout_mode(&a[2], &a[3]),
        "dirmatrix" => dirmatrix_mode(&a[2], &a[3]),
        "bigcopy" => bigcopy_mode(&a[2], a[3].parse().unwrap(), a[4].parse().unwrap()),
        "unpriv" => unpriv_mode(a[2].parse().unwrap()),
        "bigread" => bigread_mode(&a[2], a[3].parse().unwrap(), a.get(4).map_or("both", String::as_str)),
        _ => panic!("usage"),
    }
}
