//! C12 driver: runs one public descriptor-creating operation of tiny-std / rusl between markers
//! so that tools/sysinj can log (and fail) the system calls it performs and snapshot the
//! descriptor table.
//!
//! usage: fdops list                       scenario names, one per line
//!        fdops run <scenario> <tmpdir>    stdout: one JSON line {scenario, ok, handed, exact, err}
//!
//! Protocol (all markers are write(-1, ..)):
//!   [set-up with std, outside the window]
//!   MARK:<scenario>:begin:owned=<fds whose ownership the operation takes>
//!   the operation
//!   MARK:<scenario>:returned:<ok|err>:<raw fds the returned value owns, as far as the API shows them>[:inexact]
//!   the returned value is dropped (raw `Fd`s that were handed over are closed by the driver)
//!   MARK:<scenario>:end
use std::any::Any;
use std::io::Write as _;
use std::os::fd::{AsRawFd as _, IntoRawFd as _};
use std::path::{Path, PathBuf};

use tiny_std::fs::{Directory, File, OpenOptions};
use tiny_std::linux::epoll::{EpollDriver, EpollEventMask, EpollTimeout};
use tiny_std::net::{Ip, SocketAddress, TcpListener, TcpStream, TcpTryConnect, UnixListener, UnixStream};
use tiny_std::process::{Child, Command, Stdio};
use tiny_std::unix::fd::AsRawFd;
use tiny_std::{UnixStr, UnixString};
use vharness::json;

/// what an operation returned: ok?, the raw descriptors the value owns (as far as the API exposes
/// them; `exact` = the list is complete), the value itself (kept alive across the marker), and a
/// description of the error
struct Ret {
    ok: bool,
    handed: Vec<i32>,
    exact: bool,
    keep: Box<dyn Any>,
    /// raw descriptors handed over as plain numbers: the driver closes them after the marker
    raw_close: Vec<i32>,
    err: String,
}
impl Ret {
    fn ok(handed: Vec<i32>, exact: bool, keep: Box<dyn Any>) -> Self {
        Ret { ok: true, handed, exact, keep, raw_close: vec![], err: String::new() }
    }
    fn err(e: impl std::fmt::Debug) -> Self {
        Ret { ok: false, handed: vec![], exact: true, keep: Box::new(()), raw_close: vec![], err: format!("{e:?}") }
    }
    fn from<T: 'static>(r: Result<T, impl std::fmt::Debug>, fds: impl FnOnce(&T) -> (Vec<i32>, bool)) -> Self {
        match r {
            Ok(v) => {
                let (h, exact) = fds(&v);
                Ret::ok(h, exact, Box::new(v))
            }
            Err(e) => Ret::err(e),
        }
    }
    fn unit(r: Result<impl Sized, impl std::fmt::Debug>) -> Self {
        match r {
            Ok(_) => Ret::ok(vec![], true, Box::new(())),
            Err(e) => Ret::err(e),
        }
    }
}

struct Scen {
    owned: Vec<i32>,
    run: Box<dyn FnOnce() -> Ret>,
    /// std objects that must stay alive during the window (listeners, peers)
    _bg: Box<dyn Any>,
}
fn scen(run: impl FnOnce() -> Ret + 'static) -> Scen {
    Scen { owned: vec![], run: Box::new(run), _bg: Box::new(()) }
}
fn scen_bg(bg: impl Any, run: impl FnOnce() -> Ret + 'static) -> Scen {
    Scen { owned: vec![], run: Box::new(run), _bg: Box::new(bg) }
}

fn us(p: &Path) -> UnixString {
    UnixString::try_from_str(p.to_str().unwrap()).unwrap()
}
fn leak_us(p: &Path) -> &'static UnixStr {
    let s: &'static UnixString = Box::leak(Box::new(us(p)));
    s
}
fn lit(s: &str) -> &'static UnixStr {
    leak_us(Path::new(s))
}

fn child_fds(c: &Child) -> Vec<i32> {
    let mut v = vec![];
    for p in [&c.stdin, &c.stdout, &c.stderr].into_iter().flatten() {
        v.push(p.borrow_fd().as_raw_fd().value());
    }
    v
}
/// a returned Child is reaped when it is dropped by the driver
struct Reap(Child);
impl Drop for Reap {
    fn drop(&mut self) {
        let _ = self.0.wait();
    }
}
fn spawn_ret(r: tiny_std::Result<Child>) -> Ret {
    match r {
        Ok(c) => {
            let h = child_fds(&c);
            Ret::ok(h, true, Box::new(Reap(c)))
        }
        Err(e) => Ret::err(e),
    }
}

const NAMES: &[&str] = &[
    "file_open", "file_open_missing", "file_create", "fs_read", "fs_read_to_string", "fs_write", "file_copy",
    "copy_file", "metadata", "exists", "dir_open", "dir_entries_open", "remove_dir_all", "create_dir_all", "random",
    "unix_bind", "unix_bind_long_path", "unix_bind_in_use", "unix_connect", "unix_connect_long_path",
    "unix_connect_refused", "unix_try_connect", "unix_try_connect_long_path", "unix_accept", "unix_try_accept_none",
    "tcp_bind", "tcp_bind_in_use", "tcp_connect", "tcp_connect_refused", "tcp_try_connect", "tcp_inprogress_connect_blocking",
    "tcp_accept", "tcp_try_accept_none",
    "spawn_inherit", "spawn_pipes", "spawn_null", "spawn_rawfd", "spawn_rawfd_same", "spawn_missing_bin",
    "epoll", "getpwuid_r", "getpwuid_r_refill", "openpty", "openpty_termios", "io_uring_setup",
    // operations on values the caller keeps: nothing may be closed, nothing may stay behind
    "unix_stream_io", "tcp_stream_io", "tcp_read_timeout_expires", "file_io", "dir_iterate", "epoll_existing",
    "unix_accept_timeout", "unix_accept_timeout_expires", "tcp_accept_timeout", "tcp_connect_timeout", "child_wait",
    "tcp_inprogress_try_connect", "anon_pipe_io", "child_try_wait", "openpty_named", "spawn_mixed",
];


/// Argument / peer-state boundary scenarios: every operation that takes or returns an address or a
/// length is run with the caller-controlled size at {min, typical, max, max+1}.
fn boundary_names() -> Vec<String> {
    let mut v = vec![];
    for how in ["accept", "accept_timeout", "try_accept"] {
        for peer in ["path1", "path20", "path107", "path108", "unbound", "abstract", "abstract_full"] {
            v.push(format!("unix_{how}_peer_{peer}"));
        }
    }
    for op in ["bind", "connect", "try_connect"] {
        for len in [1, 107, 108] {
            v.push(format!("unix_{op}_pathlen_{len}"));
        }
    }
    for e in ["0", "1", "4096", "huge"] {
        v.push(format!("io_uring_setup_entries_{e}"));
    }
    for b in [1, 16, 64] {
        v.push(format!("getpwuid_r_buf_{b}"));
    }
    for sz in ["empty", "large"] {
        v.push(format!("fs_read_{sz}"));
        v.push(format!("copy_file_{sz}"));
    }
    v.push("epoll_wait_zero_buf".to_string());
    // EXTREME / unconvertible argument values, no fault: durations, paths, ports, counts
    for op in ["tcp_connect_timeout", "tcp_accept_timeout", "unix_accept_timeout", "tcp_read_timeout"] {
        for d in ["zero", "1ns", "max", "secs_u64max", "nanos_u64max", "secs_i64max", "secs_i64max_plus1"] {
            v.push(format!("extreme_{op}_{d}"));
        }
    }
    for ms in ["0", "1", "i32max", "i32max_plus1", "u32max"] {
        v.push(format!("extreme_epoll_wait_{ms}"));
    }
    for op in ["file_open", "file_create", "dir_open", "fs_read", "fs_write", "copy_file", "remove_dir_all", "create_dir_all", "unix_connect", "unix_try_connect", "unix_bind"] {
        for pth in ["len255", "len4095", "len5000", "highbit", "component256"] {
            v.push(format!("extreme_{op}_path_{pth}"));
        }
    }
    for op in ["tcp_connect", "tcp_try_connect", "tcp_bind"] {
        for port in ["0", "1", "65535"] {
            v.push(format!("extreme_{op}_port_{port}"));
        }
    }
    // a value only the kernel can produce: the pty number, driven up by holding that many masters open
    for n in ["9", "10", "99", "100", "255", "256", "300"] {
        v.push(format!("extreme_openpty_ptynum_{n}"));
    }
    for x in ["getpwuid_r_buf_0", "io_uring_entries_u32max", "tcp_read_timeout_empty_buf"] {
        v.push(format!("extreme_{x}"));
    }
    // objects of the WRONG kind: every descriptor-producing operation on something it is not meant for
    for op in ["dir_open", "dir_iterate", "remove_dir_all", "file_open", "file_create", "fs_read", "fs_write", "copy_file_from", "copy_file_to",
               "unix_connect", "unix_try_connect", "unix_bind"] {
        for obj in ["file", "dir", "symlink_file", "symlink_dir", "dangling_symlink", "fifo", "socket"] {
            if (op, obj) == ("fs_read", "fifo") {
                continue; // reading a fifo to its end never finishes while a writer exists
            }
            v.push(format!("wrongkind_{op}_on_{obj}"));
        }
    }
    v
}

/// creates the object of the given kind inside the current directory and returns its (relative) path
fn make_object(obj: &str) -> (&'static str, Box<dyn Any>) {
    match obj {
        "file" => {
            std::fs::write("obj", b"some file content\n").unwrap();
            ("obj", Box::new(()))
        }
        "dir" => {
            std::fs::create_dir_all("obj/inner").unwrap();
            std::fs::write("obj/inner/f", b"x").unwrap();
            ("obj", Box::new(()))
        }
        "symlink_file" => {
            std::fs::write("target", b"pointed-to file\n").unwrap();
            std::os::unix::fs::symlink("target", "obj").unwrap();
            ("obj", Box::new(()))
        }
        "symlink_dir" => {
            std::fs::create_dir_all("target/inner").unwrap();
            std::os::unix::fs::symlink("target", "obj").unwrap();
            ("obj", Box::new(()))
        }
        "dangling_symlink" => {
            std::os::unix::fs::symlink("nowhere", "obj").unwrap();
            ("obj", Box::new(()))
        }
        "fifo" => {
            let c = std::ffi::CString::new("obj").unwrap();
            assert_eq!(0, unsafe { libc::mkfifo(c.as_ptr(), 0o600) });
            // keep both ends open so that opening it for reading or writing does not block
            let keep = std::fs::OpenOptions::new().read(true).write(true).open("obj").unwrap();
            ("obj", Box::new(keep))
        }
        "socket" => {
            let l = std::os::unix::net::UnixListener::bind("obj").unwrap();
            ("obj", Box::new(l))
        }
        x => panic!("object kind {x}"),
    }
}

fn extreme_duration(d: &str) -> core::time::Duration {
    use core::time::Duration;
    match d {
        "zero" => Duration::ZERO,
        "1ns" => Duration::from_nanos(1),
        "max" => Duration::MAX,
        "secs_u64max" => Duration::from_secs(u64::MAX),
        "nanos_u64max" => Duration::from_nanos(u64::MAX),
        "secs_i64max" => Duration::from_secs(i64::MAX as u64),
        "secs_i64max_plus1" => Duration::from_secs(i64::MAX as u64 + 1),
        x => panic!("duration {x}"),
    }
}

fn extreme_path(kind: &str) -> &'static UnixStr {
    let s: String = match kind {
        "len255" => "n".repeat(255),
        "len4095" => format!("{}x", "d/".repeat(2047)),
        "len5000" => format!("{}", "e/".repeat(2500)),
        "highbit" => "caf\u{e9}-\u{1f980}.sock".to_string(),
        "component256" => "c".repeat(256),
        x => panic!("path {x}"),
    };
    lit(&s)
}

fn setup_extreme(name: &str) -> Option<Scen> {
    let rest = name.strip_prefix("extreme_")?;
    for op in ["tcp_connect_timeout", "tcp_accept_timeout", "unix_accept_timeout", "tcp_read_timeout"] {
        if let Some(d) = rest.strip_prefix(&format!("{op}_")) {
            if d == "empty_buf" {
                break;
            }
            let dur = extreme_duration(d);
            return Some(match op {
                "tcp_connect_timeout" => {
                    let bg = std::net::TcpListener::bind("127.0.0.1:0").unwrap();
                    let addr = SocketAddress::new(Ip::V4([127, 0, 0, 1]), bg.local_addr().unwrap().port());
                    scen_bg(bg, move || Ret::from(TcpStream::connect_with_timeout(&addr, dur), |s| (vec![s.as_raw_fd().value()], true)))
                }
                "tcp_accept_timeout" => {
                    let mut l = TcpListener::bind(&SocketAddress::new(Ip::V4([127, 0, 0, 1]), 0)).unwrap();
                    let port = format!("{:?}", l.local_addr().unwrap()).rsplit("port: ").next().unwrap().trim_end_matches([' ', '}']).parse::<u16>().unwrap();
                    let client = std::net::TcpStream::connect(("127.0.0.1", port)).unwrap();
                    std::thread::sleep(std::time::Duration::from_millis(20));
                    scen_bg(client, move || {
                        let ret = Ret::from(l.accept_with_timeout(dur), |s| (vec![s.as_raw_fd().value()], true));
                        std::mem::forget(l);
                        ret
                    })
                }
                "unix_accept_timeout" => {
                    let mut l = UnixListener::bind(lit("xl.sock")).unwrap();
                    let client = std::os::unix::net::UnixStream::connect("xl.sock").unwrap();
                    scen_bg(client, move || {
                        let ret = Ret::from(l.accept_with_timeout(dur), |s| (vec![s.as_raw_fd().value()], true));
                        std::mem::forget(l);
                        ret
                    })
                }
                _ => {
                    let srv = std::net::TcpListener::bind("127.0.0.1:0").unwrap();
                    let mut c = TcpStream::connect(&SocketAddress::new(Ip::V4([127, 0, 0, 1]), srv.local_addr().unwrap().port())).unwrap();
                    let (mut peer, _) = srv.accept().unwrap();
                    std::io::Write::write_all(&mut peer, b"pong").unwrap();
                    std::thread::sleep(std::time::Duration::from_millis(20));
                    scen_bg((srv, peer), move || {
                        let mut b = [0u8; 4];
                        let ret = Ret::unit(c.read_with_timeout(&mut b, dur));
                        std::mem::forget(c);
                        ret
                    })
                }
            });
        }
    }
    if rest == "tcp_read_timeout_empty_buf" {
        let srv = std::net::TcpListener::bind("127.0.0.1:0").unwrap();
        let mut c = TcpStream::connect(&SocketAddress::new(Ip::V4([127, 0, 0, 1]), srv.local_addr().unwrap().port())).unwrap();
        let (mut peer, _) = srv.accept().unwrap();
        std::io::Write::write_all(&mut peer, b"pong").unwrap();
        return Some(scen_bg((srv, peer), move || {
            let ret = Ret::unit(c.read_with_timeout(&mut [], core::time::Duration::from_millis(20)));
            std::mem::forget(c);
            ret
        }));
    }
    if let Some(ms) = rest.strip_prefix("epoll_wait_") {
        let ms: u32 = match ms {
            "i32max" => i32::MAX as u32,
            "i32max_plus1" => i32::MAX as u32 + 1,
            "u32max" => u32::MAX,
            x => x.parse().unwrap(),
        };
        let (a, mut b) = std::os::unix::net::UnixStream::pair().unwrap();
        std::io::Write::write_all(&mut b, b"x").unwrap(); // ready at once: even the longest wait returns
        let raw = rusl::platform::Fd::try_new(a.as_raw_fd()).unwrap();
        return Some(scen_bg((a, b), move || {
            let d = match EpollDriver::create(true) {
                Ok(d) => d,
                Err(e) => return Ret::err(e),
            };
            if let Err(e) = d.register(raw, 1, EpollEventMask::EPOLLIN) {
                return Ret::err(e);
            }
            let mut ev = [tiny_std::linux::epoll::EpollEvent::new(0, EpollEventMask::EPOLLIN); 1];
            match d.wait(&mut ev, if ms == 0 { EpollTimeout::NoWait } else { EpollTimeout::WaitMillis(ms) }) {
                Ok(_) => Ret::ok(vec![], false, Box::new(d)),
                Err(e) => Ret::err(e),
            }
        }));
    }
    for op in ["remove_dir_all", "create_dir_all", "unix_try_connect", "unix_connect", "unix_bind", "file_open", "file_create", "dir_open", "fs_read", "fs_write", "copy_file"] {
        if let Some(kind) = rest.strip_prefix(&format!("{op}_path_")) {
            let p = extreme_path(kind);
            std::fs::write("small", b"small file\n").unwrap();
            let small = lit("small");
            let op = op.to_string();
            return Some(scen(move || match op.as_str() {
                "file_open" => Ret::from(File::open(p), |f| (vec![f.as_raw_fd().value()], true)),
                "file_create" => Ret::from(OpenOptions::new().create(true).write(true).open(p), |f| (vec![f.as_raw_fd().value()], true)),
                "dir_open" => Ret::from(Directory::open(p), |_| (vec![], false)),
                "fs_read" => Ret::unit(tiny_std::fs::read(p)),
                "fs_write" => Ret::unit(tiny_std::fs::write(p, b"data")),
                "copy_file" => Ret::from(tiny_std::fs::copy_file(small, p), |f| (vec![f.as_raw_fd().value()], true)),
                "remove_dir_all" => Ret::unit(tiny_std::fs::remove_dir_all(p)),
                "create_dir_all" => Ret::unit(tiny_std::fs::create_dir_all(p)),
                "unix_connect" => Ret::from(UnixStream::connect(p), |s| (vec![s.as_raw_fd().value()], true)),
                "unix_try_connect" => Ret::from(UnixStream::try_connect(p), |s| (s.iter().map(|s| s.as_raw_fd().value()).collect(), true)),
                _ => Ret::from(UnixListener::bind(p), |_| (vec![], false)),
            }));
        }
    }
    for op in ["tcp_try_connect", "tcp_connect", "tcp_bind"] {
        if let Some(port) = rest.strip_prefix(&format!("{op}_port_")) {
            let addr = SocketAddress::new(Ip::V4([127, 0, 0, 1]), port.parse().unwrap());
            let op = op.to_string();
            return Some(scen(move || match op.as_str() {
                "tcp_connect" => Ret::from(TcpStream::connect(&addr), |s| (vec![s.as_raw_fd().value()], true)),
                "tcp_try_connect" => Ret::from(TcpStream::try_connect(&addr), |s| match s {
                    TcpTryConnect::Connected(s) => (vec![s.as_raw_fd().value()], true),
                    TcpTryConnect::InProgress(_) => (vec![], false),
                }),
                _ => Ret::from(TcpListener::bind(&addr), |_| (vec![], false)),
            }));
        }
    }
    if let Some(n) = rest.strip_prefix("openpty_ptynum_") {
        let n: usize = n.parse().unwrap();
        // hold n pty masters open (the kernel hands out the lowest free number): the next one gets
        // a number >= n.  The descriptor limit is raised to its hard value for that.
        let mut held = vec![];
        unsafe {
            let mut rl: libc::rlimit = std::mem::zeroed();
            libc::getrlimit(libc::RLIMIT_NOFILE, &mut rl);
            rl.rlim_cur = rl.rlim_max.min(65536);
            libc::setrlimit(libc::RLIMIT_NOFILE, &rl);
            for _ in 0..n {
                let fd = libc::open(c"/dev/ptmx".as_ptr(), libc::O_RDWR | libc::O_NOCTTY | libc::O_CLOEXEC);
                assert!(fd >= 0, "cannot hold {n} pty masters: {}", std::io::Error::last_os_error());
                held.push(fd);
            }
        }
        return Some(scen_bg(held, move || {
            let r = tiny_std::unix::misc::openpty::openpty(None, None, None);
            match r {
                Ok(h) => {
                    let fds = vec![h.master.value(), h.slave.value()];
                    let mut ret = Ret::ok(fds.clone(), true, Box::new(()));
                    ret.raw_close = fds;
                    ret
                }
                Err(e) => Ret::err(e),
            }
        }));
    }
    match rest {
        "getpwuid_r_buf_0" => Some(scen(move || {
            let r = vharness::guarded(|| tiny_std::unix::passwd::getpw_r::getpwuid_r(0, &mut []).map(|o| o.is_some()));
            match r {
                Ok(r) => Ret::unit(r),
                Err(p) => Ret::err(format!("panicked: {p}")),
            }
        })),
        "io_uring_entries_u32max" => Some(scen(move || {
            let r = rusl::io_uring::setup_io_uring(u32::MAX, rusl::platform::IoUringParamFlags::empty(), 0, 0);
            Ret::from(r, |u| (vec![u.fd.value()], true))
        })),
        _ => None,
    }
}

fn setup_wrongkind(name: &str) -> Option<Scen> {
    let rest = name.strip_prefix("wrongkind_")?;
    let (op, obj) = rest.split_once("_on_")?;
    let (path, bg) = make_object(obj);
    let p = lit(path);
    std::fs::write("other", b"another regular file\n").unwrap();
    let other = lit("other");
    let op = op.to_string();
    Some(scen_bg(bg, move || match op.as_str() {
        "dir_open" => Ret::from(Directory::open(p), |_| (vec![], false)),
        "dir_iterate" => {
            let d = match Directory::open(p) {
                Ok(d) => d,
                Err(e) => return Ret::err(e),
            };
            for e in d.read() {
                if let Err(e) = e {
                    return Ret::err(e);
                }
            }
            Ret::ok(vec![], false, Box::new(d))
        }
        "remove_dir_all" => Ret::unit(tiny_std::fs::remove_dir_all(p)),
        "file_open" => Ret::from(File::open(p), |f| (vec![f.as_raw_fd().value()], true)),
        "file_create" => Ret::from(OpenOptions::new().create(true).write(true).truncate(true).open(p), |f| (vec![f.as_raw_fd().value()], true)),
        "fs_read" => Ret::unit(tiny_std::fs::read(p)),
        "fs_write" => Ret::unit(tiny_std::fs::write(p, b"overwrite")),
        "copy_file_from" => Ret::from(tiny_std::fs::copy_file(p, lit("copy.out")), |f| (vec![f.as_raw_fd().value()], true)),
        "copy_file_to" => Ret::from(tiny_std::fs::copy_file(other, p), |f| (vec![f.as_raw_fd().value()], true)),
        "unix_connect" => Ret::from(UnixStream::connect(p), |s| (vec![s.as_raw_fd().value()], true)),
        "unix_try_connect" => Ret::from(UnixStream::try_connect(p), |s| (s.iter().map(|s| s.as_raw_fd().value()).collect(), true)),
        "unix_bind" => Ret::from(UnixListener::bind(p), |_| (vec![], false)),
        x => panic!("operation {x}"),
    }))
}

/// a client socket bound (with libc, exact sockaddr length) as the scenario says, connected to `listener`
fn raw_unix_client(peer: &str, listener: &str) -> i32 {
    unsafe {
        let fd = libc::socket(libc::AF_UNIX, libc::SOCK_STREAM | libc::SOCK_CLOEXEC, 0);
        assert!(fd >= 0);
        let mut a: libc::sockaddr_un = std::mem::zeroed();
        a.sun_family = libc::AF_UNIX as u16;
        let fill = |a: &mut libc::sockaddr_un, from: usize, n: usize| {
            for k in 0..n {
                a.sun_path[from + k] = b'p' as libc::c_char;
            }
        };
        let bind_len: Option<usize> = match peer {
            "path1" => { fill(&mut a, 0, 1); Some(2 + 1 + 1) }
            "path20" => { fill(&mut a, 0, 20); Some(2 + 20 + 1) }
            "path107" => { fill(&mut a, 0, 107); Some(2 + 107 + 1) }
            "path108" => { fill(&mut a, 0, 108); Some(2 + 108) } // no terminator fits: the kernel reports one more
            // (abstract names are global to the network namespace: make them unique per process)
            "abstract" | "abstract_full" => {
                let n = if peer == "abstract" { 12 } else { 107 };
                fill(&mut a, 1, n);
                for (k, b) in std::process::id().to_string().bytes().enumerate() {
                    a.sun_path[1 + k] = b as libc::c_char;
                }
                Some(2 + 1 + n)
            }
            "autobind" => Some(2),
            _ => None,
        };
        if let Some(len) = bind_len {
            let r = libc::bind(fd, std::ptr::addr_of!(a).cast(), len as u32);
            assert_eq!(0, r, "bind of the peer failed: {}", std::io::Error::last_os_error());
        }
        let mut l: libc::sockaddr_un = std::mem::zeroed();
        l.sun_family = libc::AF_UNIX as u16;
        for (k, b) in listener.bytes().enumerate() {
            l.sun_path[k] = b as libc::c_char;
        }
        let r = libc::connect(fd, std::ptr::addr_of!(l).cast(), (2 + listener.len() + 1) as u32);
        assert_eq!(0, r, "connect of the peer failed: {}", std::io::Error::last_os_error());
        fd
    }
}

fn setup_boundary(name: &str, root: &Path) -> Option<Scen> {
    // relative paths of an exact length: work inside the scenario's private directory
    std::env::set_current_dir(root).unwrap();
    if let Some(rest) = name.strip_prefix("unix_") {
        for how in ["accept_timeout", "try_accept", "accept"] {
            if let Some(peer) = rest.strip_prefix(&format!("{how}_peer_")) {
                let mut l = UnixListener::bind(lit("l.sock")).unwrap();
                let client = raw_unix_client(peer, "l.sock");
                let how = how.to_string();
                return Some(scen_bg(client, move || {
                    let ret = match how.as_str() {
                        "accept" => Ret::from(l.accept(), |s| (vec![s.as_raw_fd().value()], true)),
                        "accept_timeout" => Ret::from(l.accept_with_timeout(core::time::Duration::from_millis(100)), |s| (vec![s.as_raw_fd().value()], true)),
                        _ => Ret::from(l.try_accept(), |s| (s.iter().map(|s| s.as_raw_fd().value()).collect(), true)),
                    };
                    std::mem::forget(l);
                    ret
                }));
            }
        }
        for op in ["try_connect", "connect", "bind"] {
            if let Some(len) = rest.strip_prefix(&format!("{op}_pathlen_")) {
                let len: usize = len.parse().unwrap();
                let path = "q".repeat(len);
                let p = lit(&path);
                // a listener for the connecting variants, bound with libc at exactly that path
                let bg = if op == "bind" {
                    -1
                } else {
                    unsafe {
                        let fd = libc::socket(libc::AF_UNIX, libc::SOCK_STREAM | libc::SOCK_CLOEXEC, 0);
                        let mut a: libc::sockaddr_un = std::mem::zeroed();
                        a.sun_family = libc::AF_UNIX as u16;
                        for k in 0..len.min(108) {
                            a.sun_path[k] = b'q' as libc::c_char;
                        }
                        let alen = if len >= 108 { 2 + 108 } else { 2 + len + 1 };
                        assert_eq!(0, libc::bind(fd, std::ptr::addr_of!(a).cast(), alen as u32));
                        assert_eq!(0, libc::listen(fd, 4));
                        fd
                    }
                };
                let op = op.to_string();
                return Some(scen_bg(bg, move || match op.as_str() {
                    "bind" => Ret::from(UnixListener::bind(p), |_| (vec![], false)),
                    "connect" => Ret::from(UnixStream::connect(p), |s| (vec![s.as_raw_fd().value()], true)),
                    _ => Ret::from(UnixStream::try_connect(p), |s| (s.iter().map(|s| s.as_raw_fd().value()).collect(), true)),
                }));
            }
        }
    }
    if let Some(e) = name.strip_prefix("io_uring_setup_entries_") {
        let entries: u32 = match e {
            "huge" => 1 << 20,
            x => x.parse().unwrap(),
        };
        return Some(scen(move || {
            let r = rusl::io_uring::setup_io_uring(entries, rusl::platform::IoUringParamFlags::empty(), 0, 0);
            Ret::from(r, |u| (vec![u.fd.value()], true))
        }));
    }
    if let Some(b) = name.strip_prefix("getpwuid_r_buf_") {
        let size: usize = b.parse().unwrap();
        return Some(scen(move || {
            let mut buf = vec![0u8; size];
            let r = tiny_std::unix::passwd::getpw_r::getpwuid_r(0, &mut buf).map(|o| o.is_some());
            Ret::unit(r)
        }));
    }
    if name.starts_with("fs_read_") || name.starts_with("copy_file_") {
        let size = if name.ends_with("empty") { 0 } else { 3 << 20 };
        std::fs::write("data.bin", vec![7u8; size]).unwrap();
        let src = lit("data.bin");
        let dst = lit("data.copy");
        return Some(if name.starts_with("fs_read_") {
            scen(move || Ret::unit(tiny_std::fs::read(src)))
        } else {
            scen(move || Ret::from(tiny_std::fs::copy_file(src, dst), |f| (vec![f.as_raw_fd().value()], true)))
        });
    }
    if name.starts_with("wrongkind_") {
        return setup_wrongkind(name);
    }
    if name.starts_with("extreme_") {
        return setup_extreme(name);
    }
    if name == "epoll_wait_zero_buf" {
        return Some(scen(move || {
            let d = match EpollDriver::create(true) {
                Ok(d) => d,
                Err(e) => return Ret::err(e),
            };
            let mut ev: [tiny_std::linux::epoll::EpollEvent; 0] = [];
            match d.wait(&mut ev, EpollTimeout::NoWait) {
                Ok(_) => Ret::ok(vec![], false, Box::new(d)),
                Err(e) => Ret::err(e),
            }
        }));
    }
    None
}

#[allow(clippy::too_many_lines)]
fn setup(name: &str, root: &Path) -> Scen {
    if boundary_names().iter().any(|n| n == name) {
        return setup_boundary(name, root).unwrap_or_else(|| panic!("boundary scenario {name}"));
    }
    let f_small = root.join("small.txt");
    std::fs::write(&f_small, b"hello descriptor table\n").unwrap();
    let long_path = root.join("x".repeat(120));
    match name {
        // ---------------------------------------------------------------- fs
        "file_open" => {
            let p = leak_us(&f_small);
            scen(move || Ret::from(File::open(p), |f| (vec![f.as_raw_fd().value()], true)))
        }
        "file_open_missing" => {
            let p = leak_us(&root.join("missing"));
            scen(move || Ret::from(File::open(p), |f| (vec![f.as_raw_fd().value()], true)))
        }
        "file_create" => {
            let p = leak_us(&root.join("created.txt"));
            scen(move || Ret::from(OpenOptions::new().create(true).write(true).open(p), |f| (vec![f.as_raw_fd().value()], true)))
        }
        "fs_read" => {
            let p = leak_us(&f_small);
            scen(move || Ret::unit(tiny_std::fs::read(p)))
        }
        "fs_read_to_string" => {
            let p = leak_us(&f_small);
            scen(move || Ret::unit(tiny_std::fs::read_to_string(p)))
        }
        "fs_write" => {
            let p = leak_us(&root.join("written.txt"));
            scen(move || Ret::unit(tiny_std::fs::write(p, b"some bytes")))
        }
        "file_copy" => {
            let src = File::open(leak_us(&f_small)).unwrap();
            let dst = leak_us(&root.join("copy.txt"));
            scen(move || {
                let r = src.copy(dst);
                let ret = Ret::from(r, |f| (vec![f.as_raw_fd().value()], true));
                std::mem::forget(src); // belongs to the set-up, not to the operation
                ret
            })
        }
        "copy_file" => {
            let src = leak_us(&f_small);
            let dst = leak_us(&root.join("copy2.txt"));
            scen(move || Ret::from(tiny_std::fs::copy_file(src, dst), |f| (vec![f.as_raw_fd().value()], true)))
        }
        "metadata" => {
            let p = leak_us(&f_small);
            scen(move || Ret::unit(tiny_std::fs::metadata(p)))
        }
        "exists" => {
            let p = leak_us(&f_small);
            scen(move || Ret::unit(tiny_std::fs::exists(p)))
        }
        "dir_open" => {
            let p = leak_us(root);
            scen(move || Ret::from(Directory::open(p), |_| (vec![], false)))
        }
        "dir_entries_open" => {
            std::fs::create_dir_all(root.join("d/sub")).unwrap();
            std::fs::write(root.join("d/a.txt"), b"a").unwrap();
            let p = leak_us(&root.join("d"));
            scen(move || {
                let dir = match Directory::open(p) {
                    Ok(d) => d,
                    Err(e) => return Ret::err(e),
                };
                let mut keep: Vec<Box<dyn Any>> = vec![];
                let mut fds = vec![];
                for e in dir.read() {
                    let e = match e {
                        Ok(e) => e,
                        Err(e) => return Ret::err(e),
                    };
                    if e.is_relative_reference() {
                        continue;
                    }
                    if let Ok(f) = e.open_file() {
                        fds.push(f.as_raw_fd().value());
                        keep.push(Box::new(f));
                    } else {
                        match e.open_dir() {
                            Ok(d) => keep.push(Box::new(d)),
                            Err(e) => return Ret::err(e),
                        }
                    }
                }
                keep.push(Box::new(dir));
                Ret::ok(fds, false, Box::new(keep))
            })
        }
        "remove_dir_all" => {
            std::fs::create_dir_all(root.join("r/a/b")).unwrap();
            std::fs::create_dir_all(root.join("r/c")).unwrap();
            std::fs::write(root.join("r/a/f1"), b"1").unwrap();
            std::fs::write(root.join("r/a/b/f2"), b"2").unwrap();
            std::fs::write(root.join("r/f3"), b"3").unwrap();
            let p = leak_us(&root.join("r"));
            scen(move || Ret::unit(tiny_std::fs::remove_dir_all(p)))
        }
        "create_dir_all" => {
            let p = leak_us(&root.join("n1/n2/n3"));
            scen(move || Ret::unit(tiny_std::fs::create_dir_all(p)))
        }
        "random" => scen(move || {
            let mut b = [0u8; 8];
            Ret::unit(tiny_std::unix::random::system_random(&mut b))
        }),
        // ---------------------------------------------------------------- unix sockets
        "unix_bind" => {
            let p = leak_us(&root.join("l.sock"));
            scen(move || Ret::from(UnixListener::bind(p), |_| (vec![], false)))
        }
        "unix_bind_long_path" => {
            let p = leak_us(&long_path);
            scen(move || Ret::from(UnixListener::bind(p), |_| (vec![], false)))
        }
        "unix_bind_in_use" => {
            let path = root.join("used.sock");
            let bg = std::os::unix::net::UnixListener::bind(&path).unwrap();
            let p = leak_us(&path);
            scen_bg(bg, move || Ret::from(UnixListener::bind(p), |_| (vec![], false)))
        }
        "unix_connect" | "unix_try_connect" => {
            let path = root.join("srv.sock");
            let bg = std::os::unix::net::UnixListener::bind(&path).unwrap();
            let p = leak_us(&path);
            if name == "unix_connect" {
                scen_bg(bg, move || Ret::from(UnixStream::connect(p), |s| (vec![s.as_raw_fd().value()], true)))
            } else {
                scen_bg(bg, move || {
                    Ret::from(UnixStream::try_connect(p), |s| (s.iter().map(|s| s.as_raw_fd().value()).collect(), true))
                })
            }
        }
        "unix_connect_long_path" => {
            let p = leak_us(&long_path);
            scen(move || Ret::from(UnixStream::connect(p), |s| (vec![s.as_raw_fd().value()], true)))
        }
        "unix_try_connect_long_path" => {
            let p = leak_us(&long_path);
            scen(move || Ret::from(UnixStream::try_connect(p), |s| (s.iter().map(|s| s.as_raw_fd().value()).collect(), true)))
        }
        "unix_connect_refused" => {
            let p = leak_us(&root.join("nobody.sock"));
            scen(move || Ret::from(UnixStream::connect(p), |s| (vec![s.as_raw_fd().value()], true)))
        }
        "unix_accept" | "unix_try_accept_none" => {
            let path = root.join("acc.sock");
            let mut l = UnixListener::bind(leak_us(&path)).unwrap();
            if name == "unix_accept" {
                let client = std::os::unix::net::UnixStream::connect(&path).unwrap();
                scen_bg(client, move || {
                    let r = l.accept();
                    let ret = Ret::from(r, |s| (vec![s.as_raw_fd().value()], true));
                    std::mem::forget(l);
                    ret
                })
            } else {
                scen(move || {
                    let r = l.try_accept();
                    let ret = Ret::from(r, |s| (s.iter().map(|s| s.as_raw_fd().value()).collect(), true));
                    std::mem::forget(l);
                    ret
                })
            }
        }
        // ---------------------------------------------------------------- tcp
        "tcp_bind" => scen(move || Ret::from(TcpListener::bind(&SocketAddress::new(Ip::V4([127, 0, 0, 1]), 0)), |_| (vec![], false))),
        "tcp_bind_in_use" => {
            let bg = std::net::TcpListener::bind("127.0.0.1:0").unwrap();
            let port = bg.local_addr().unwrap().port();
            scen_bg(bg, move || Ret::from(TcpListener::bind(&SocketAddress::new(Ip::V4([127, 0, 0, 1]), port)), |_| (vec![], false)))
        }
        "tcp_connect" | "tcp_try_connect" | "tcp_inprogress_connect_blocking" => {
            let bg = std::net::TcpListener::bind("127.0.0.1:0").unwrap();
            let port = bg.local_addr().unwrap().port();
            let addr = SocketAddress::new(Ip::V4([127, 0, 0, 1]), port);
            match name {
                "tcp_connect" => scen_bg(bg, move || Ret::from(TcpStream::connect(&addr), |s| (vec![s.as_raw_fd().value()], true))),
                "tcp_try_connect" => scen_bg(bg, move || {
                    Ret::from(TcpStream::try_connect(&addr), |s| match s {
                        TcpTryConnect::Connected(s) => (vec![s.as_raw_fd().value()], true),
                        TcpTryConnect::InProgress(_) => (vec![], false),
                    })
                }),
                _ => {
                    // the value consumed by the operation is created in the set-up
                    match TcpStream::try_connect(&addr).unwrap() {
                        TcpTryConnect::InProgress(p) => {
                            let mut s = scen_bg(bg, move || Ret::from(p.connect_blocking(), |s| (vec![s.as_raw_fd().value()], true)));
                            s.owned = vec![-1]; // patched below: the in-progress socket is the highest open fd
                            s
                        }
                        TcpTryConnect::Connected(c) => {
                            // loopback connected at once: nothing in progress to finish; degenerate scenario
                            scen_bg((bg, c), move || Ret::ok(vec![], true, Box::new(())))
                        }
                    }
                }
            }
        }
        "tcp_connect_refused" => {
            let port = {
                let l = std::net::TcpListener::bind("127.0.0.1:0").unwrap();
                l.local_addr().unwrap().port()
            };
            let addr = SocketAddress::new(Ip::V4([127, 0, 0, 1]), port);
            scen(move || Ret::from(TcpStream::connect(&addr), |s| (vec![s.as_raw_fd().value()], true)))
        }
        "tcp_accept" | "tcp_try_accept_none" => {
            let mut l = TcpListener::bind(&SocketAddress::new(Ip::V4([127, 0, 0, 1]), 0)).unwrap();
            let port = match l.local_addr().unwrap() {
                a => format!("{a:?}").rsplit("port: ").next().unwrap().trim_end_matches([' ', '}']).parse::<u16>().unwrap(),
            };
            if name == "tcp_accept" {
                let client = std::net::TcpStream::connect(("127.0.0.1", port)).unwrap();
                scen_bg(client, move || {
                    let r = l.accept();
                    let ret = Ret::from(r, |s| (vec![s.as_raw_fd().value()], true));
                    std::mem::forget(l);
                    ret
                })
            } else {
                scen(move || {
                    let r = l.try_accept();
                    let ret = Ret::from(r, |s| (s.iter().map(|s| s.as_raw_fd().value()).collect(), true));
                    std::mem::forget(l);
                    ret
                })
            }
        }
        // ---------------------------------------------------------------- process (parent side)
        "spawn_inherit" => scen(move || {
            let mut c = Command::new(lit("/bin/true")).unwrap();
            c.env(UnixString::try_from_str("A=1").unwrap());
            spawn_ret(c.spawn())
        }),
        "spawn_pipes" => scen(move || {
            let mut c = Command::new(lit("/bin/true")).unwrap();
            c.env(UnixString::try_from_str("A=1").unwrap());
            c.stdin(Stdio::MakePipe).stdout(Stdio::MakePipe).stderr(Stdio::MakePipe);
            spawn_ret(c.spawn())
        }),
        "spawn_null" => scen(move || {
            let mut c = Command::new(lit("/bin/true")).unwrap();
            c.env(UnixString::try_from_str("A=1").unwrap());
            c.stdin(Stdio::Null).stdout(Stdio::Null).stderr(Stdio::Null);
            spawn_ret(c.spawn())
        }),
        "spawn_rawfd" | "spawn_rawfd_same" => {
            let out = std::fs::File::create(root.join("child.out")).unwrap().into_raw_fd();
            let fd = rusl::platform::Fd::try_new(out).unwrap();
            let same = name == "spawn_rawfd_same";
            let mut s = scen(move || {
                let mut c = Command::new(lit("/bin/true")).unwrap();
                c.env(UnixString::try_from_str("A=1").unwrap());
                c.stdout(Stdio::RawFd(fd));
                if same {
                    c.stderr(Stdio::RawFd(fd));
                }
                spawn_ret(c.spawn())
            });
            s.owned = vec![out];
            s
        }
        "spawn_missing_bin" => scen(move || {
            let mut c = Command::new(lit("/nonexistent/bin/nothing")).unwrap();
            c.env(UnixString::try_from_str("A=1").unwrap());
            c.stdout(Stdio::MakePipe);
            spawn_ret(c.spawn())
        }),
        // ---------------------------------------------------------------- epoll, passwd, pty, io_uring
        "epoll" => {
            let (a, b) = std::os::unix::net::UnixStream::pair().unwrap();
            let raw = rusl::platform::Fd::try_new(a.as_raw_fd()).unwrap();
            scen_bg((a, b), move || {
                let d = match EpollDriver::create(true) {
                    Ok(d) => d,
                    Err(e) => return Ret::err(e),
                };
                if let Err(e) = d.register(raw, 7, EpollEventMask::EPOLLIN) {
                    return Ret::err(e);
                }
                let mut ev = [tiny_std::linux::epoll::EpollEvent::new(0, EpollEventMask::EPOLLIN); 2];
                if let Err(e) = d.wait(&mut ev, EpollTimeout::NoWait) {
                    return Ret::err(e);
                }
                if let Err(e) = d.unregister(raw) {
                    return Ret::err(e);
                }
                Ret::ok(vec![], false, Box::new(d))
            })
        }
        "getpwuid_r" | "getpwuid_r_refill" => {
            // (a uid that is not in /etc/passwd makes getpwuid_r spin forever on the pinned tree -
            // a termination defect outside C12; the last entry with a small buffer exercises the
            // refill path instead)
            let last_uid = std::fs::read_to_string("/etc/passwd").ok().and_then(|s| s.lines().last().and_then(|l| l.split(':').nth(2)?.parse::<u32>().ok())).unwrap_or(0);
            let (uid, size) = if name == "getpwuid_r" { (0, 1024) } else { (last_uid, 256) };
            scen(move || {
                let mut buf = vec![0u8; size];
                let r = tiny_std::unix::passwd::getpw_r::getpwuid_r(uid, &mut buf).map(|o| o.is_some());
                Ret::unit(r)
            })
        }
        "spawn_mixed" => scen(move || {
            let mut c = Command::new(lit("/bin/true")).unwrap();
            c.env(UnixString::try_from_str("A=1").unwrap());
            c.stdin(Stdio::MakePipe).stdout(Stdio::Null).stderr(Stdio::Inherit);
            spawn_ret(c.spawn())
        }),
        "openpty_named" => scen(move || {
            // the slave is opened by the given name (any openable path will do for the descriptor accounting)
            let r = tiny_std::unix::misc::openpty::openpty(Some(lit("/dev/null")), None, None);
            match r {
                Ok(h) => {
                    let fds = vec![h.master.value(), h.slave.value()];
                    let mut ret = Ret::ok(fds.clone(), true, Box::new(()));
                    ret.raw_close = fds;
                    ret
                }
                Err(e) => Ret::err(e),
            }
        }),
        "openpty" | "openpty_termios" => {
            let with = name == "openpty_termios";
            scen(move || {
                let tio: rusl::platform::Termios = unsafe { core::mem::zeroed() };
                let ws = rusl::platform::WindowSize::new(24, 80, 0, 0);
                let r = tiny_std::unix::misc::openpty::openpty(None, if with { Some(&tio) } else { None }, if with { Some(&ws) } else { None });
                match r {
                    Ok(h) => {
                        let fds = vec![h.master.value(), h.slave.value()];
                        let mut ret = Ret::ok(fds.clone(), true, Box::new(()));
                        ret.raw_close = fds;
                        ret
                    }
                    Err(e) => Ret::err(e),
                }
            })
        }
        "io_uring_setup" => scen(move || {
            let r = rusl::io_uring::setup_io_uring(8, rusl::platform::IoUringParamFlags::empty(), 0, 0);
            Ret::from(r, |u| (vec![u.fd.value()], true))
        }),

        // ---------------------------------------------------------------- operations on kept values
        "unix_stream_io" => {
            let path = root.join("io.sock");
            let srv = std::os::unix::net::UnixListener::bind(&path).unwrap();
            let mut c = UnixStream::connect(leak_us(&path)).unwrap();
            let (mut peer, _) = srv.accept().unwrap();
            std::io::Write::write_all(&mut peer, b"pong").unwrap();
            scen_bg((srv, peer), move || {
                use tiny_std::io::{Read, Write};
                let mut b = [0u8; 4];
                let r = c.write(b"ping").and_then(|_| c.read(&mut b));
                let ret = Ret::unit(r);
                std::mem::forget(c); // the stream stays with the caller
                ret
            })
        }
        "tcp_stream_io" | "tcp_read_timeout_expires" => {
            let srv = std::net::TcpListener::bind("127.0.0.1:0").unwrap();
            let port = srv.local_addr().unwrap().port();
            let mut c = TcpStream::connect(&SocketAddress::new(Ip::V4([127, 0, 0, 1]), port)).unwrap();
            let (mut peer, _) = srv.accept().unwrap();
            let expires = name == "tcp_read_timeout_expires";
            if !expires {
                std::io::Write::write_all(&mut peer, b"pong").unwrap();
            }
            scen_bg((srv, peer), move || {
                use tiny_std::io::{Read, Write};
                let mut b = [0u8; 4];
                let r = if expires {
                    c.read_with_timeout(&mut b, core::time::Duration::from_millis(30))
                } else {
                    c.write(b"ping").and_then(|_| c.read(&mut b))
                };
                let ret = Ret::unit(r);
                std::mem::forget(c);
                ret
            })
        }
        "file_io" => {
            let p = leak_us(&root.join("io.txt"));
            let mut f = OpenOptions::new().create(true).read(true).write(true).open(p).unwrap();
            scen(move || {
                use tiny_std::io::{Read, Write};
                let mut b = [0u8; 8];
                let r = f.write(b"12345678").and_then(|_| f.metadata().map(|_| 0)).and_then(|_| f.set_nonblocking().map(|()| 0)).and_then(|_| f.read(&mut b));
                let ret = Ret::unit(r);
                std::mem::forget(f);
                ret
            })
        }
        "dir_iterate" => {
            std::fs::create_dir_all(root.join("it/sub")).unwrap();
            for i in 0..40 {
                std::fs::write(root.join(format!("it/file-with-a-rather-long-name-{i:03}")), b"x").unwrap();
            }
            let d = Directory::open(leak_us(&root.join("it"))).unwrap();
            scen(move || {
                let mut n = 0;
                for e in d.read() {
                    match e {
                        Ok(_) => n += 1,
                        Err(e) => {
                            std::mem::forget(d);
                            return Ret::err(e);
                        }
                    }
                }
                std::mem::forget(d);
                Ret::unit(if n >= 41 { Ok(()) } else { Err("short listing") })
            })
        }
        "epoll_existing" => {
            let (a, b) = std::os::unix::net::UnixStream::pair().unwrap();
            let raw = rusl::platform::Fd::try_new(a.as_raw_fd()).unwrap();
            let d = EpollDriver::create(true).unwrap();
            scen_bg((a, b), move || {
                let mut ev = [tiny_std::linux::epoll::EpollEvent::new(0, EpollEventMask::EPOLLIN); 2];
                let r = d
                    .register(raw, 7, EpollEventMask::EPOLLIN)
                    .and_then(|()| d.modify(raw, 8, EpollEventMask::EPOLLOUT))
                    .and_then(|()| d.wait(&mut ev, EpollTimeout::WaitMillis(5)))
                    .and_then(|_| d.unregister(raw));
                std::mem::forget(d);
                Ret::unit(r)
            })
        }
        "unix_accept_timeout" | "unix_accept_timeout_expires" => {
            let path = root.join("acct.sock");
            let mut l = UnixListener::bind(leak_us(&path)).unwrap();
            let client = if name == "unix_accept_timeout" { Some(std::os::unix::net::UnixStream::connect(&path).unwrap()) } else { None };
            scen_bg(client, move || {
                let r = l.accept_with_timeout(core::time::Duration::from_millis(30));
                let ret = Ret::from(r, |s| (vec![s.as_raw_fd().value()], true));
                std::mem::forget(l);
                ret
            })
        }
        "tcp_accept_timeout" => {
            let mut l = TcpListener::bind(&SocketAddress::new(Ip::V4([127, 0, 0, 1]), 0)).unwrap();
            let port = match l.local_addr().unwrap() {
                a => format!("{a:?}").rsplit("port: ").next().unwrap().trim_end_matches([' ', '}']).parse::<u16>().unwrap(),
            };
            let client = std::net::TcpStream::connect(("127.0.0.1", port)).unwrap();
            scen_bg(client, move || {
                let r = l.accept_with_timeout(core::time::Duration::from_millis(200));
                let ret = Ret::from(r, |s| (vec![s.as_raw_fd().value()], true));
                std::mem::forget(l);
                ret
            })
        }
        "tcp_connect_timeout" => {
            let bg = std::net::TcpListener::bind("127.0.0.1:0").unwrap();
            let port = bg.local_addr().unwrap().port();
            let addr = SocketAddress::new(Ip::V4([127, 0, 0, 1]), port);
            scen_bg(bg, move || {
                Ret::from(TcpStream::connect_with_timeout(&addr, core::time::Duration::from_millis(200)), |s| (vec![s.as_raw_fd().value()], true))
            })
        }
        "child_wait" => {
            let mut c = Command::new(lit("/bin/true")).unwrap();
            c.env(UnixString::try_from_str("A=1").unwrap());
            c.stdin(Stdio::MakePipe).stdout(Stdio::MakePipe);
            let mut child = c.spawn().unwrap();
            // wait() is documented to close the child's stdin first: that pipe end passes to the operation
            let stdin_fd = child.stdin.as_ref().unwrap().borrow_fd().as_raw_fd().value();
            let mut s = scen(move || {
                let r = child.wait();
                let ret = Ret::unit(r);
                std::mem::forget(child); // stdout pipe stays with the caller
                ret
            });
            s.owned = vec![stdin_fd];
            s
        }

        "tcp_inprogress_try_connect" => {
            let bg = std::net::TcpListener::bind("127.0.0.1:0").unwrap();
            let port = bg.local_addr().unwrap().port();
            let addr = SocketAddress::new(Ip::V4([127, 0, 0, 1]), port);
            match TcpStream::try_connect(&addr).unwrap() {
                TcpTryConnect::InProgress(p) => {
                    let mut s = scen_bg(bg, move || {
                        Ret::from(p.try_connect(), |s| match s {
                            TcpTryConnect::Connected(s) => (vec![s.as_raw_fd().value()], true),
                            TcpTryConnect::InProgress(_) => (vec![], false),
                        })
                    });
                    s.owned = vec![-1];
                    s
                }
                TcpTryConnect::Connected(c) => scen_bg((bg, c), move || Ret::ok(vec![], true, Box::new(()))),
            }
        }
        "anon_pipe_io" | "child_try_wait" => {
            let mut c = Command::new(lit("/bin/cat")).unwrap();
            c.env(UnixString::try_from_str("A=1").unwrap());
            c.stdin(Stdio::MakePipe).stdout(Stdio::MakePipe);
            let mut child = c.spawn().unwrap();
            if name == "anon_pipe_io" {
                scen(move || {
                    use tiny_std::io::{Read, Write};
                    let mut b = [0u8; 4];
                    let r = child.stdin.as_mut().unwrap().write(b"ping").and_then(|_| child.stdout.as_mut().unwrap().read(&mut b));
                    let ret = Ret::unit(r);
                    // the pipes stay with the caller (cat sees end of file when this process exits)
                    std::mem::forget(child);
                    ret
                })
            } else {
                scen(move || {
                    let r = child.try_wait();
                    let ret = Ret::unit(r);
                    std::mem::forget(child);
                    ret
                })
            }
        }
        _ => {
            eprintln!("unknown scenario {name}");
            std::process::exit(2);
        }
    }
}

fn mark(s: &str) {
    unsafe {
        libc::write(-1, s.as_ptr().cast(), s.len());
    }
}

fn open_fds() -> Vec<i32> {
    let mut v: Vec<i32> = std::fs::read_dir("/proc/self/fd")
        .unwrap()
        .filter_map(|e| e.ok()?.file_name().to_str()?.parse().ok())
        .collect();
    v.sort_unstable();
    v
}

fn main() {
    let args: Vec<String> = std::env::args().collect();
    match args.get(1).map(String::as_str) {
        Some("list") => {
            for n in NAMES {
                println!("{n}");
            }
            for n in boundary_names() {
                println!("{n}");
            }
        }
        Some("run") if args.len() >= 4 => {
            let name = args[2].clone();
            let root = PathBuf::from(&args[3]);
            let mut s = setup(&name, &root);
            if s.owned == vec![-1] {
                // the descriptor consumed by the operation is the one the set-up opened last
                // (the listing itself holds a directory descriptor that is closed again by now)
                let fds = open_fds();
                s.owned = vec![*fds.iter().filter(|f| **f > 2 && unsafe { libc::fcntl(**f, libc::F_GETFD) } != -1).max().unwrap()];
            }
            // prior-state variation: the standard descriptors listed in args[4] (e.g. "012") are closed
            // after the set-up, so that the operation's new descriptors are 0/1/2.  The driver keeps a
            // high-numbered duplicate of stdout for its own result line and never touches stdio.
            let mut result_fd = 1;
            if let Some(list) = args.get(4) {
                unsafe {
                    result_fd = libc::fcntl(1, libc::F_DUPFD_CLOEXEC, 700);
                    assert!(result_fd >= 700);
                    for c in list.chars() {
                        libc::close(c.to_digit(10).unwrap() as i32);
                    }
                }
            }
            let owned = s.owned.iter().map(ToString::to_string).collect::<Vec<_>>().join(",");
            let begin = format!("MARK:{name}:begin:owned={owned}");
            let end = format!("MARK:{name}:end");
            mark(&begin);
            let ret = (s.run)();
            let handed = ret.handed.iter().map(ToString::to_string).collect::<Vec<_>>().join(",");
            let returned = format!("MARK:{name}:returned:{}:{}{}", if ret.ok { "ok" } else { "err" }, handed, if ret.exact { "" } else { ":inexact" });
            mark(&returned);
            let Ret { ok, handed, exact, keep, raw_close, err } = ret;
            drop(keep);
            for fd in raw_close {
                unsafe {
                    libc::close(fd);
                }
            }
            mark(&end);
            let l = json!({"scenario": name, "ok": ok, "handed": handed, "exact": exact, "err": err});
            let line = format!("{l}\n");
            unsafe {
                libc::write(result_fd, line.as_ptr().cast(), line.len());
            }
        }
        _ => {
            eprintln!("usage: fdops list | run <scenario> <tmpdir> [stdio descriptors to close first, e.g. 012]");
            std::process::exit(2);
        }
    }
}
