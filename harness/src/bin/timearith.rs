//! C19 driver.
//!
//! timearith arith <n_random> <seed> [full]
//!     runs boundary-biased and random 64-bit inputs through the REAL Instant / SystemTime API
//!     (+ Duration, - Duration, - Self, duration_since, duration_since_unix_time, comparisons) and
//!     prints one ndjson line per call: operands and result as DECIMAL STRINGS (the check converts
//!     them to base-10^4 limbs; the judgement is TLC's), panics caught per call.
//! timearith one <a_s> <a_ns> <b_s> <b_ns> <d_s> <d_ns>     the calls of one case (replay)
//! timearith clock <threads> <readings>
//!     monotonic readings per thread (lane = thread), readings taken while holding a baton
//!     (lane 0: a total happens-before order across threads), and sleeps of 0 / 1us / 1ms / 20ms
//!     with and without signals interrupting them; one ndjson event per line.
use core::time::Duration;
use rusl::platform::TimeSpec;
use tiny_std::time::{Instant, MonotonicInstant, SystemTime};
use vharness::{guarded, json, quiet_panics, Out, Rng, Value};

const NPS: i64 = 1_000_000_000;

fn mk_instant(ts: TimeSpec) -> Instant {
    // Instant is a one-field tuple struct around TimeSpec with a crate-private field; there is no
    // public constructor from a TimeSpec.  The layout assumption is verified in `selfcheck`.
    unsafe { core::mem::transmute::<TimeSpec, Instant>(ts) }
}
fn ts_of_system(t: SystemTime) -> TimeSpec {
    unsafe { core::mem::transmute::<SystemTime, TimeSpec>(t) }
}
fn selfcheck() {
    for (s, n) in [(5i64, 7i64), (i64::MAX, 999_999_999), (i64::MIN, 0), (-1, 1)] {
        let ts = TimeSpec::new(s, n);
        let i = mk_instant(ts);
        let back: &TimeSpec = i.as_ref();
        assert!(back.seconds() == s && back.nanoseconds() == n, "harness: Instant layout assumption broken");
        let st = SystemTime::from(ts);
        let b2 = ts_of_system(st);
        assert!(b2.seconds() == s && b2.nanoseconds() == n, "harness: SystemTime layout assumption broken");
    }
    let z = MonotonicInstant::ZERO.as_instant();
    let zt: &TimeSpec = z.as_ref();
    assert!(zt.seconds() == 0 && zt.nanoseconds() == 0);
}

fn tv(s: i64, ns: i64) -> Value {
    json!([s.to_string(), ns])
}
fn dv(d: Duration) -> Value {
    json!([d.as_secs().to_string(), d.subsec_nanos()])
}
fn out_ts(r: Result<Option<TimeSpec>, String>) -> Value {
    match r {
        Ok(Some(t)) => json!(["some", t.seconds().to_string(), t.nanoseconds()]),
        Ok(None) => json!(["none"]),
        Err(m) => json!(["panic", m]),
    }
}
fn out_dur(r: Result<Option<Duration>, String>) -> Value {
    match r {
        Ok(Some(d)) => json!(["some", d.as_secs().to_string(), d.subsec_nanos()]),
        Ok(None) => json!(["none"]),
        Err(m) => json!(["panic", m]),
    }
}

struct Gen {
    rng: Rng,
}
impl Gen {
    fn nanos(&mut self) -> i64 {
        const B: [i64; 9] = [0, 1, 2, 499_999_999, 500_000_000, 500_000_001, 999_999_997, 999_999_998, 999_999_999];
        if self.rng.below(3) == 0 {
            self.rng.below(NPS as u64) as i64
        } else {
            *self.rng.pick(&B)
        }
    }
    /// a u64 that is boundary-biased: around 0, powers of two, i64::MAX, u64::MAX, or random of random width
    fn u64b(&mut self) -> u64 {
        const ANCH: [u64; 12] = [
            0, 1, 1 << 31, 1 << 32, 1 << 62, (1 << 63) - 2, (1 << 63) - 1, 1 << 63, (1 << 63) + 1,
            u64::MAX - 1, u64::MAX, 1_000_000_000,
        ];
        match self.rng.below(4) {
            0 => {
                let w = self.rng.below(65);
                if w == 0 { 0 } else { self.rng.next() >> (64 - w) }
            }
            _ => {
                let a = *self.rng.pick(&ANCH);
                let k = self.rng.below(4);
                if self.rng.below(2) == 0 { a.saturating_add(k) } else { a.saturating_sub(k) }
            }
        }
    }
    /// seconds of a time value at/after the epoch: 0..=i64::MAX
    fn secs_pos(&mut self) -> i64 {
        loop {
            let v = self.u64b();
            if v <= i64::MAX as u64 {
                return v as i64;
            }
            if self.rng.below(2) == 0 {
                return (v >> 1) as i64;
            }
        }
    }
    fn secs_neg(&mut self) -> i64 {
        const ANCH: [i64; 6] = [i64::MIN, i64::MIN + 1, -1, -2, -(1 << 32), -(1 << 62)];
        if self.rng.below(3) == 0 {
            -((self.rng.next() >> (1 + self.rng.below(63))) as i64) - 1
        } else {
            let a = *self.rng.pick(&ANCH);
            a.saturating_add(self.rng.below(3) as i64).min(-1)
        }
    }
    fn dur(&mut self) -> Duration {
        Duration::new(self.u64b(), self.nanos() as u32)
    }
}

fn arith_case(out: &mut Out, a: (i64, i64), b: (i64, i64), d: Duration) {
    let ta = TimeSpec::new(a.0, a.1);
    let tb = TimeSpec::new(b.0, b.1);
    // Instant API (time values at/after boot only: an Instant is never negative)
    if a.0 >= 0 {
        let ia = mk_instant(ta);
        out.ev(&json!({"ty":"instant","op":"add","a":tv(a.0,a.1),"b":dv(d),
            "out": out_ts(guarded(|| (ia + d).map(|x| *x.as_ref())))}));
        out.ev(&json!({"ty":"instant","op":"sub","a":tv(a.0,a.1),"b":dv(d),
            "out": out_ts(guarded(|| (ia - d).map(|x| *x.as_ref())))}));
        // elapsed(): now.duration_since(self); bracketed by two readings of the same clock
        let before: TimeSpec = *Instant::now().as_ref();
        let el = guarded(|| ia.elapsed());
        let after: TimeSpec = *Instant::now().as_ref();
        out.ev(&json!({"ty":"instant","op":"elapsed","a":tv(a.0,a.1),"b":tv(before.seconds(),before.nanoseconds()),
            "c":tv(after.seconds(),after.nanoseconds()),"out": out_dur(el)}));
        if b.0 >= 0 {
            let ib = mk_instant(tb);
            out.ev(&json!({"ty":"instant","op":"diff","a":tv(a.0,a.1),"b":tv(b.0,b.1),
                "out": out_dur(guarded(|| ia - ib))}));
            out.ev(&json!({"ty":"instant","op":"diff","a":tv(a.0,a.1),"b":tv(b.0,b.1),"via":"duration_since",
                "out": out_dur(guarded(|| ia.duration_since(ib)))}));
            let cmp = guarded(|| (ia <= ib, ia < ib, ia == ib, ia.cmp(&ib) as i32));
            out.ev(&match cmp {
                Ok((le, lt, eq, c)) => json!({"ty":"instant","op":"cmp","a":tv(a.0,a.1),"b":tv(b.0,b.1),"out":["cmp", le, lt, eq, c]}),
                Err(m) => json!({"ty":"instant","op":"cmp","a":tv(a.0,a.1),"b":tv(b.0,b.1),"out":["panic", m]}),
            });
        }
    }
    // rusl: TryFrom<Duration> for TimeSpec (what thread::sleep hands to nanosleep)
    out.ev(&json!({"ty":"rusl","op":"to_timespec","a":dv(d),"b":tv(0,0),
        "out": out_ts(guarded(|| TimeSpec::try_from(d).ok()))}));
    // SystemTime API (negative seconds allowed: panic-freedom)
    let sa = SystemTime::from(ta);
    let sb = SystemTime::from(tb);
    out.ev(&json!({"ty":"system","op":"add","a":tv(a.0,a.1),"b":dv(d),
        "out": out_ts(guarded(|| (sa + d).map(ts_of_system)))}));
    out.ev(&json!({"ty":"system","op":"sub","a":tv(a.0,a.1),"b":dv(d),
        "out": out_ts(guarded(|| (sa - d).map(ts_of_system)))}));
    out.ev(&json!({"ty":"system","op":"diff","a":tv(a.0,a.1),"b":tv(b.0,b.1),
        "out": out_dur(guarded(|| sa - sb))}));
    out.ev(&json!({"ty":"system","op":"diff","a":tv(a.0,a.1),"b":tv(b.0,b.1),"via":"duration_since",
        "out": out_dur(guarded(|| sa.duration_since(sb)))}));
    // SystemTime::elapsed = SystemTime::now() - a: bracketed by two readings of the real-time clock;
    // that clock may be stepped, so the judge allows 10 s of slack on either side
    let rb = ts_of_system(SystemTime::now());
    let sel = guarded(|| sa.elapsed());
    let rc = ts_of_system(SystemTime::now());
    out.ev(&json!({"ty":"system","op":"elapsed_sys","a":tv(a.0,a.1),"b":tv(rb.seconds(),rb.nanoseconds()),
        "c":tv(rc.seconds(),rc.nanoseconds()),"out": out_dur(sel)}));
    out.ev(&json!({"ty":"system","op":"since_unix","a":tv(a.0,a.1),"b":tv(0,0),
        "out": out_dur(guarded(|| Some(sa.duration_since_unix_time())))}));
    let cmp = guarded(|| (sa <= sb, sa < sb, sa == sb, sa.cmp(&sb) as i32));
    out.ev(&match cmp {
        Ok((le, lt, eq, c)) => json!({"ty":"system","op":"cmp","a":tv(a.0,a.1),"b":tv(b.0,b.1),"out":["cmp", le, lt, eq, c]}),
        Err(m) => json!({"ty":"system","op":"cmp","a":tv(a.0,a.1),"b":tv(b.0,b.1),"out":["panic", m]}),
    });
}

fn mk_monotonic(ts: TimeSpec) -> MonotonicInstant {
    // same one-field layout as Instant (checked through as_instant() below)
    let m = unsafe { core::mem::transmute::<TimeSpec, MonotonicInstant>(ts) };
    let i = m.as_instant();
    let back: &TimeSpec = i.as_ref();
    assert!(back.seconds() == ts.seconds() && back.nanoseconds() == ts.nanoseconds(), "harness: MonotonicInstant layout assumption broken");
    m
}

/// (s, ns) + off nanoseconds (off may be negative), computed by the harness, not by the code under test
fn shift(t: (i64, i64), off: i128) -> Option<(i64, i64)> {
    let tot = i128::from(t.0) * i128::from(NPS) + i128::from(t.1) + off;
    if tot < 0 {
        return None;
    }
    Some(((tot / i128::from(NPS)) as i64, (tot % i128::from(NPS)) as i64))
}

/// Every "difference against now" entry point on instants a little / a lot ahead of and behind the
/// clock: ahead or behind by 1 ns, 1 us, 400 ms, 999 999 999 ns, 1 s, 1 h.  The call is bracketed by
/// two readings of the same clock; the judge demands None when the instant lies after the later
/// reading, Some(d) inside the bracket when before the earlier one.  For "ahead by 400 ms / 999 999 999 ns"
/// the measurement is repeated until instant and clock share the SAME seconds value (and, for
/// contrast, until they do not), so that only the nanoseconds decide.
fn near_now(out: &mut Out) {
    const OFFS: [i128; 6] = [1, 1_000, 400_000_000, 999_999_999, 1_000_000_000, 3_600_000_000_000];
    for &off in &OFFS {
        for sign in [1i128, -1] {
            for want_same_second in [true, false] {
                // Instant
                for attempt in 0..60 {
                    let before: TimeSpec = *Instant::now().as_ref();
                    let b = (before.seconds(), before.nanoseconds());
                    let Some(a) = shift(b, sign * off) else { break };
                    let same = a.0 == b.0;
                    if off < NPS as i128 && sign == 1 && off >= 400_000_000 && same != want_same_second && attempt < 59 {
                        std::thread::sleep(std::time::Duration::from_millis(37));
                        continue;
                    }
                    let ia = mk_instant(TimeSpec::new(a.0, a.1));
                    let el = guarded(|| ia.elapsed());
                    let after: TimeSpec = *Instant::now().as_ref();
                    out.ev(&json!({"ty":"instant","op":"elapsed","a":tv(a.0,a.1),"b":tv(b.0,b.1),
                        "c":tv(after.seconds(),after.nanoseconds()),"out": out_dur(el),"near":true}));
                    break;
                }
                // SystemTime (real-time clock): the sample is dropped if that clock was stepped meanwhile
                // (its bracket must be as long as the monotonic clock's, within 1 ms)
                for attempt in 0..60 {
                    let m0 = mono();
                    let rb = ts_of_system(SystemTime::now());
                    let b = (rb.seconds(), rb.nanoseconds());
                    let Some(a) = shift(b, sign * off) else { break };
                    let same = a.0 == b.0;
                    if off < NPS as i128 && sign == 1 && off >= 400_000_000 && same != want_same_second && attempt < 59 {
                        std::thread::sleep(std::time::Duration::from_millis(37));
                        continue;
                    }
                    let sa = SystemTime::from(TimeSpec::new(a.0, a.1));
                    let el = guarded(|| sa.elapsed());
                    let rc = ts_of_system(SystemTime::now());
                    let m1 = mono();
                    let real = (i128::from(rc.seconds()) - i128::from(b.0)) * i128::from(NPS) + i128::from(rc.nanoseconds()) - i128::from(b.1);
                    let mon = (i128::from(m1.0) - i128::from(m0.0)) * i128::from(NPS) + i128::from(m1.1) - i128::from(m0.1);
                    if real < 0 || (real - mon).abs() > 1_000_000 {
                        continue; // stepped clock: not a usable bracket
                    }
                    out.ev(&json!({"ty":"system","op":"elapsed","a":tv(a.0,a.1),"b":tv(b.0,b.1),
                        "c":tv(rc.seconds(),rc.nanoseconds()),"out": out_dur(el),"near":true}));
                    break;
                }
                // MonotonicInstant::elapsed returns a Duration; safe code only ever holds past readings
                if sign == -1 && want_same_second {
                    let b = mono();
                    if let Some(a) = shift(b, -off) {
                        let m = mk_monotonic(TimeSpec::new(a.0, a.1));
                        let el = guarded(|| Some(m.elapsed()));
                        let after = mono();
                        out.ev(&json!({"ty":"monotonic","op":"elapsed","a":tv(a.0,a.1),"b":tv(b.0,b.1),
                            "c":tv(after.0,after.1),"out": out_dur(el),"near":true}));
                    }
                }
            }
        }
    }
}

fn arith(n: u64, seed: u64, full_grid: bool) {
    selfcheck();
    let mut out = Out::new();
    near_now(&mut out);
    let mut g = Gen { rng: Rng::new(seed) };
    // 1. the boundary grid: every combination of anchor seconds x anchor nanoseconds
    let secs_full: [i64; 10] = [0, 1, 2, (1 << 32) - 1, 1 << 32, i64::MAX - 2, i64::MAX - 1, i64::MAX, 1 << 62, 1_000_000_000];
    let nss_full: [i64; 4] = [0, 1, 500_000_000, 999_999_999];
    let dsecs_full: [u64; 10] = [0, 1, 2, i64::MAX as u64 - 1, i64::MAX as u64, i64::MAX as u64 + 1, u64::MAX - 1, u64::MAX, 1 << 62, (1 << 32) + 1];
    let secs: &[i64] = if full_grid { &secs_full } else { &[0, 1, 1 << 32, i64::MAX - 1, i64::MAX] };
    let nss: &[i64] = if full_grid { &nss_full } else { &[0, 1, 999_999_999] };
    let dsecs: &[u64] = if full_grid { &dsecs_full } else { &[0, 1, i64::MAX as u64 - 1, i64::MAX as u64, i64::MAX as u64 + 1, u64::MAX] };
    for &s1 in secs {
        for &n1 in nss {
            for &s2 in secs {
                for &n2 in nss {
                    let ds = dsecs[((s2 as u64 ^ (n2 as u64) ^ (s1 as u64 >> 3)) % dsecs.len() as u64) as usize];
                    arith_case(&mut out, (s1, n1), (s2, n2), Duration::new(ds, n2 as u32));
                }
            }
            for &ds in dsecs {
                for &dn in nss {
                    arith_case(&mut out, (s1, n1), (s1, dn), Duration::new(ds, dn as u32));
                }
            }
        }
    }
    // 1b. boundaries of PRODUCT ranges: for c in {i64::MAX, u64::MAX, i32::MAX, u32::MAX} and a unit u in
    // {10^3, 10^6, 10^9}: seconds c/u and c/u +- 1 with nanoseconds 0, 1, (c % u) - 1, c % u, (c % u) + 1,
    // 10^9 - 1 - where a conversion of the whole value to milli/micro/nanoseconds in a 32/64-bit
    // integer starts to overflow
    {
        let mut vals: Vec<(i64, i64)> = vec![];
        for c in [i64::MAX as u128, u64::MAX as u128, i32::MAX as u128, u32::MAX as u128] {
            for u in [1_000u128, 1_000_000, 1_000_000_000] {
                for ds in [-1i128, 0, 1] {
                    let sec = (c / u) as i128 + ds;
                    if sec < 0 || sec > i64::MAX as i128 {
                        continue;
                    }
                    let r = (c % u) as i128;
                    for ns in [0i128, 1, r - 1, r, r + 1, 999_999_999] {
                        if (0..1_000_000_000).contains(&ns) && !vals.contains(&(sec as i64, ns as i64)) {
                            vals.push((sec as i64, ns as i64));
                        }
                    }
                }
            }
        }
        for &v in &vals {
            let iv = mk_instant(TimeSpec::new(v.0, v.1));
            let sv = SystemTime::from(TimeSpec::new(v.0, v.1));
            let partners = [(0i64, 0i64), (v.0, 0), (v.0, 999_999_999), v, (v.0.saturating_add(1), 0), ((v.0 - 1).max(0), 999_999_999), (1, 1)];
            for &w in &partners {
                let iw = mk_instant(TimeSpec::new(w.0, w.1));
                let sw = SystemTime::from(TimeSpec::new(w.0, w.1));
                out.ev(&json!({"ty":"instant","op":"diff","a":tv(v.0,v.1),"b":tv(w.0,w.1),"out": out_dur(guarded(|| iv - iw))}));
                out.ev(&json!({"ty":"instant","op":"diff","a":tv(w.0,w.1),"b":tv(v.0,v.1),"out": out_dur(guarded(|| iw - iv))}));
                out.ev(&json!({"ty":"system","op":"diff","a":tv(v.0,v.1),"b":tv(w.0,w.1),"via":"duration_since","out": out_dur(guarded(|| sv.duration_since(sw)))}));
                out.ev(&json!({"ty":"system","op":"diff","a":tv(w.0,w.1),"b":tv(v.0,v.1),"via":"duration_since","out": out_dur(guarded(|| sw.duration_since(sv)))}));
                // the same numbers as a Duration added to / subtracted from the partner
                let d = Duration::new(v.0 as u64, v.1 as u32);
                out.ev(&json!({"ty":"instant","op":"add","a":tv(w.0,w.1),"b":dv(d),"out": out_ts(guarded(|| (iw + d).map(|x| *x.as_ref())))}));
                out.ev(&json!({"ty":"system","op":"sub","a":tv(w.0,w.1),"b":dv(d),"out": out_ts(guarded(|| (sw - d).map(ts_of_system)))}));
                let dw = Duration::new(w.0 as u64, w.1 as u32);
                out.ev(&json!({"ty":"instant","op":"sub","a":tv(v.0,v.1),"b":dv(dw),"out": out_ts(guarded(|| (iv - dw).map(|x| *x.as_ref())))}));
                out.ev(&json!({"ty":"system","op":"add","a":tv(v.0,v.1),"b":dv(dw),"out": out_ts(guarded(|| (sv + dw).map(ts_of_system)))}));
            }
            out.ev(&json!({"ty":"system","op":"since_unix","a":tv(v.0,v.1),"b":tv(0,0),"out": out_dur(guarded(|| Some(sv.duration_since_unix_time())))}));
        }
    }
    // 2. random, boundary-biased, with related operands
    for _ in 0..n {
        let a = (g.secs_pos(), g.nanos());
        let mut b = (g.secs_pos(), g.nanos());
        let mut d = g.dur();
        match g.rng.below(8) {
            0 => b = (a.0, g.nanos()),                                   // same second
            1 => b = (a.0.saturating_add(1), g.nanos()),                 // adjacent seconds
            2 => b = ((a.0 - 1).max(0), g.nanos()),
            3 => {
                // the duration that takes a exactly to the last representable second, +- a little
                let k = g.rng.below(3) as i64 - 1;
                d = Duration::new((i64::MAX - a.0).saturating_add(k).max(0) as u64, g.nanos() as u32);
            }
            4 => {
                // the duration that takes a exactly back to the epoch, +- a little
                let k = g.rng.below(3) as i64 - 1;
                d = Duration::new(a.0.saturating_add(k).max(0) as u64, g.nanos() as u32);
            }
            5 => d = Duration::new(a.0 as u64, a.1 as u32),
            _ => {}
        }
        arith_case(&mut out, a, b, d);
        // chains: feed results back ((t+d)-d, (t+d)-t, (t-d)+d)
        let ia = mk_instant(TimeSpec::new(a.0, a.1));
        if let Ok(Some(u)) = guarded(|| ia + d) {
            let ut: TimeSpec = *u.as_ref();
            arith_case(&mut out, (ut.seconds(), ut.nanoseconds()), a, d);
        }
        if let Ok(Some(u)) = guarded(|| ia - d) {
            let ut: TimeSpec = *u.as_ref();
            arith_case(&mut out, (ut.seconds(), ut.nanoseconds()), a, d);
        }
        // 3. SystemTime with negative seconds: panic-freedom
        if g.rng.below(3) == 0 {
            let na = (g.secs_neg(), g.nanos());
            let nb = if g.rng.below(2) == 0 { (g.secs_neg(), g.nanos()) } else { b };
            arith_case(&mut out, na, nb, d);
            arith_case(&mut out, b, na, d);
        }
    }
    // the extremes of the negative range
    for &s1 in &[i64::MIN, i64::MIN + 1, -1i64] {
        for &n1 in nss {
            for &s2 in &[i64::MIN, -1i64, 0, 1, i64::MAX] {
                for &ds in dsecs {
                    arith_case(&mut out, (s1, n1), (s2, n1), Duration::new(ds, n1 as u32));
                    arith_case(&mut out, (s2, n1), (s1, 0), Duration::new(ds, 999_999_999));
                }
            }
        }
    }
    out.flush();
}

// ------------------------------------------------------------------------------------------
extern "C" fn on_sig(_s: i32) {}

fn mono() -> (i64, i64) {
    let i = MonotonicInstant::now().as_instant();
    let t: &TimeSpec = i.as_ref();
    (t.seconds(), t.nanoseconds())
}

/// CLOCK_MONOTONIC read by the driver itself (libc, vDSO: ~20 ns), not through the library
fn raw_mono() -> (i64, i64) {
    let mut ts = libc::timespec { tv_sec: 0, tv_nsec: 0 };
    unsafe { libc::clock_gettime(libc::CLOCK_MONOTONIC, &mut ts) };
    (ts.tv_sec as i64, ts.tv_nsec as i64)
}

fn clock(threads: usize, readings: usize) {
    use std::sync::{Arc, Mutex};
    let outm = Arc::new(Mutex::new(Vec::<Value>::new()));
    let baton = Arc::new(Mutex::new(0u64));
    // a no-op handler WITHOUT SA_RESTART so that a signal interrupts nanosleep with EINTR
    unsafe {
        let mut sa: libc::sigaction = core::mem::zeroed();
        sa.sa_sigaction = on_sig as usize;
        sa.sa_flags = 0;
        libc::sigaction(libc::SIGUSR1, &sa, core::ptr::null_mut());
    }
    let mut hs = vec![];
    for th in 1..=threads {
        let outm = outm.clone();
        let baton = baton.clone();
        hs.push(std::thread::spawn(move || {
            let mut evs = Vec::with_capacity(readings + readings / 4 + 64);
            let mut bevs = vec![];
            let base = MonotonicInstant::now();
            let base_ts: TimeSpec = *base.as_instant().as_ref();
            for k in 0..readings {
                if k % 5 == 2 {
                    // MonotonicInstant::elapsed of an earlier reading, bracketed by two readings
                    let b = mono();
                    let d = base.elapsed();
                    let a = mono();
                    evs.push(json!({"ev":"elapsed","lane":th,"base_s":base_ts.seconds(),"base_ns":base_ts.nanoseconds(),
                        "ds":d.as_secs(),"dns":d.subsec_nanos(),"bs":b.0,"bns":b.1,"s":a.0,"ns":a.1}));
                }
                // four flavours of reading: MonotonicInstant::now, Instant::now, elapsed() of ZERO, rusl clock_get_time
                let (s, ns) = match k % 4 {
                    3 => {
                        // rusl's fallible wrapper; an Err is reported as a reading of (-1, 0) and rejected
                        match rusl::time::clock_get_time(rusl::platform::ClockId::CLOCK_MONOTONIC) {
                            Ok(t) => (t.seconds(), t.nanoseconds()),
                            Err(_) => (-1, 0),
                        }
                    }
                    0 => mono(),
                    1 => {
                        let i = Instant::now();
                        let t: &TimeSpec = i.as_ref();
                        (t.seconds(), t.nanoseconds())
                    }
                    _ => {
                        let d = MonotonicInstant::ZERO.elapsed();
                        (d.as_secs() as i64, i64::from(d.subsec_nanos()))
                    }
                };
                evs.push(json!({"ev":"read","lane":th,"s":s,"ns":ns}));
                if k % 8 == 0 {
                    // a reading inside a critical section: totally ordered across threads by the lock
                    let mut g = baton.lock().unwrap();
                    *g += 1;
                    let (s, ns) = mono();
                    bevs.push((*g, json!({"ev":"read","lane":0,"seq":*g,"thr":th,"s":s,"ns":ns})));
                    drop(g);
                }
                if k % 97 == 0 {
                    std::thread::yield_now();
                }
            }
            let mut o = outm.lock().unwrap();
            o.extend(evs);
            o.extend(bevs.into_iter().map(|(_, v)| v));
        }));
    }
    for h in hs {
        h.join().unwrap();
    }
    let mut out = Out::new();
    let evs = outm.lock().unwrap();
    // lanes 1..threads in per-thread order (already), lane 0 sorted by the baton sequence number
    let mut lane0: Vec<&Value> = evs.iter().filter(|e| e["lane"] == 0).collect();
    lane0.sort_by_key(|e| e["seq"].as_u64().unwrap());
    for e in evs.iter().filter(|e| e["lane"] != 0) {
        out.ev(e);
    }
    for e in lane0 {
        out.ev(e);
    }
    // MonotonicInstant::elapsed across a second boundary (base late in a second, now early in the
    // next one: the nanosecond difference is negative and a second must be borrowed); lane threads + 2
    {
        let lane = threads + 2;
        for _ in 0..2 {
            let mut base = MonotonicInstant::now();
            loop {
                let t: TimeSpec = *base.as_instant().as_ref();
                if t.nanoseconds() >= 930_000_000 {
                    break;
                }
                std::thread::sleep(std::time::Duration::from_millis(5));
                base = MonotonicInstant::now();
            }
            let base_ts: TimeSpec = *base.as_instant().as_ref();
            for step in 0..40 {
                let b = mono();
                let d = base.elapsed();
                let a = mono();
                out.ev(&json!({"ev":"elapsed","lane":lane,"base_s":base_ts.seconds(),"base_ns":base_ts.nanoseconds(),
                    "ds":d.as_secs(),"dns":d.subsec_nanos(),"bs":b.0,"bns":b.1,"s":a.0,"ns":a.1,"step":step}));
                std::thread::sleep(std::time::Duration::from_millis(4));
            }
        }
    }
    // very short sleeps at NANOSECOND granularity: durations around the microsecond and the 50 us
    // timer-slack boundaries, many repetitions, each bracketed by two raw readings of
    // CLOCK_MONOTONIC taken by the driver (a reading through the library costs a system call, which
    // alone would hide a sleep that returns a microsecond early); lane threads + 20
    {
        let lane = threads + 20;
        for ns in [1u64, 500, 999, 1_001, 1_999, 49_999, 50_001, 999_999] {
            let d = Duration::from_nanos(ns);
            for _ in 0..200 {
                let b = raw_mono();
                let r = tiny_std::thread::sleep(d);
                let a = raw_mono();
                out.ev(&json!({"ev":"sleep","lane":lane,"ds":0,"dns":ns,"bs":b.0,"bns":b.1,"s":a.0,"ns":a.1,
                    "res": if r.is_ok() { "ok" } else { "err" },"signals":0,"raw":true}));
            }
        }
    }
    // sleeps: lane = threads + 1; (a) undisturbed, (b) with SIGUSR1 arriving during the sleep
    let lane = threads + 1;
    let me = unsafe { libc::pthread_self() } as usize;
    for round in 0..2 {
        for (d, reps) in [
            (Duration::ZERO, 20usize),
            (Duration::from_nanos(1), 20),
            (Duration::from_micros(1), 50),
            (Duration::from_millis(1), 20),
            (Duration::from_millis(5), 10),
            (Duration::from_millis(20), 5),
            (Duration::new(0, 999_999), 5),
        ] {
            for _ in 0..reps {
                let interrupt = round == 1 && d >= Duration::from_millis(1);
                let stop = Arc::new(std::sync::atomic::AtomicBool::new(false));
                let sig = if interrupt {
                    let stop = stop.clone();
                    Some(std::thread::spawn(move || {
                        let mut n = 0u32;
                        // at most 60 signals: an implementation that restarts with the FULL duration after
                        // EINTR (allowed: only a lower bound is promised) must still be able to finish
                        while !stop.load(std::sync::atomic::Ordering::Relaxed) && n < 60 {
                            std::thread::sleep(std::time::Duration::from_micros(150));
                            unsafe { libc::pthread_kill(me as libc::pthread_t, libc::SIGUSR1) };
                            n += 1;
                        }
                        n
                    }))
                } else {
                    None
                };
                let before = mono();
                let r = guarded(|| tiny_std::thread::sleep(d));
                let after = mono();
                stop.store(true, std::sync::atomic::Ordering::Relaxed);
                let signals = sig.map(|h| h.join().unwrap()).unwrap_or(0);
                let res = match r {
                    Ok(Ok(())) => "ok".to_string(),
                    Ok(Err(e)) => format!("err:{e}"),
                    Err(m) => format!("panic:{m}"),
                };
                out.ev(&json!({"ev":"sleep","lane":lane,"ds":d.as_secs(),"dns":d.subsec_nanos(),
                    "bs":before.0,"bns":before.1,"s":after.0,"ns":after.1,"res":res,"signals":signals}));
            }
        }
    }
    // long sleeps interrupted while WHOLE SECONDS of the request remain: nanosleep returns EINTR with
    // a remainder >= 1 s and the loop must go back to sleep for all of it.  Each sleeper runs in its
    // own thread (lane) and is hit by SIGUSR1 (pthread_kill, handler without SA_RESTART) at chosen
    // offsets by a helper thread (lane + 100) that records a clock reading per signal.  The sleeps
    // run concurrently, so this costs as long as the longest one (about 2 s).
    // HUGE sleeps (i64::MAX s, u64::MAX s, Duration::MAX), undisturbed and hit by one / two signals:
    // started here, looked at after the long sleeps below (>= 2 s later): the sleeper must still be
    // asleep, or have returned a clean Err (a duration the kernel interface cannot express); an Ok
    // return is "returned early".  The sleeping threads die with the process.
    let huge_start = std::time::Instant::now();
    let mut huge = vec![];
    for (k, (name, d, sigs)) in [
        ("i64::MAX s", Duration::new(i64::MAX as u64, 0), 0u32),
        ("i64::MAX s", Duration::new(i64::MAX as u64, 0), 1),
        ("i64::MAX s + 999999999 ns", Duration::new(i64::MAX as u64, 999_999_999), 2),
        ("u64::MAX s", Duration::new(u64::MAX, 0), 1),
        ("Duration::MAX", Duration::MAX, 0),
        ("2^40 s", Duration::new(1 << 40, 5), 1),
    ].into_iter().enumerate() {
        let (ptx, prx) = std::sync::mpsc::channel::<usize>();
        let (rtx, rrx) = std::sync::mpsc::channel::<String>();
        std::thread::spawn(move || {
            ptx.send(unsafe { libc::pthread_self() } as usize).unwrap();
            let r = guarded(|| tiny_std::thread::sleep(d));
            let _ = rtx.send(match r {
                Ok(Ok(())) => "ok".to_string(),
                Ok(Err(_)) => "err".to_string(),
                Err(m) => format!("panic:{m}"),
            });
        });
        let target = prx.recv().unwrap();
        if sigs > 0 {
            std::thread::spawn(move || {
                for _ in 0..sigs {
                    std::thread::sleep(std::time::Duration::from_millis(300));
                    unsafe { libc::pthread_kill(target as libc::pthread_t, libc::SIGUSR1) };
                }
            });
        }
        huge.push((threads + 40 + k, name, sigs, rrx));
    }
    {
        use std::sync::mpsc;
        let plans: Vec<(Duration, Vec<u64>)> = vec![
            (Duration::from_millis(1200), vec![50]),
            (Duration::from_millis(2050), vec![50, 1100]),
            (Duration::from_millis(1010), vec![300]),
            (Duration::new(1, 1), vec![10, 25, 40]),
            (Duration::from_millis(1500), vec![600]),
        ];
        let mut running = vec![];
        for (k, (d, offs)) in plans.into_iter().enumerate() {
            let lane = threads + 3 + k;
            let (ptx, prx) = mpsc::channel::<usize>();
            let sleeper = std::thread::spawn(move || {
                ptx.send(unsafe { libc::pthread_self() } as usize).unwrap();
                let before = mono();
                let r = guarded(|| tiny_std::thread::sleep(d));
                let after = mono();
                let res = match r {
                    Ok(Ok(())) => "ok".to_string(),
                    Ok(Err(e)) => format!("err:{e}"),
                    Err(m) => format!("panic:{m}"),
                };
                (before, after, res)
            });
            let target = prx.recv().unwrap();
            let helper = std::thread::spawn(move || {
                let start = std::time::Instant::now();
                let mut sent = vec![];
                for o in offs {
                    let due = std::time::Duration::from_millis(o);
                    let now = start.elapsed();
                    if due > now {
                        std::thread::sleep(due - now);
                    }
                    unsafe { libc::pthread_kill(target as libc::pthread_t, libc::SIGUSR1) };
                    sent.push(mono());
                }
                sent
            });
            running.push((lane, d, sleeper, helper));
        }
        for (lane, d, sleeper, helper) in running {
            // the helper is joined first: it must not signal a thread that has been joined already
            let sent = helper.join().unwrap();
            let (before, after, res) = sleeper.join().unwrap();
            for t in &sent {
                out.ev(&json!({"ev":"intr","lane":lane + 100,"target":lane,"s":t.0,"ns":t.1}));
            }
            out.ev(&json!({"ev":"sleep","lane":lane,"ds":d.as_secs(),"dns":d.subsec_nanos(),
                "bs":before.0,"bns":before.1,"s":after.0,"ns":after.1,"res":res,"signals":sent.len(),"long":true}));
        }
    }
    // the huge sleeps: at least 2 s after they started
    let waited = huge_start.elapsed();
    if waited < std::time::Duration::from_millis(2000) {
        std::thread::sleep(std::time::Duration::from_millis(2000) - waited);
    }
    for (lane, name, sigs, rrx) in huge {
        let (returned, res) = match rrx.try_recv() {
            Ok(r) => (1, r),
            Err(_) => (0, String::new()),
        };
        let t = mono();
        out.ev(&json!({"ev":"hugesleep","lane":lane,"d":name,"signals":sigs,"returned":returned,"res":res,
            "waited_ms":huge_start.elapsed().as_millis() as u64,"s":t.0,"ns":t.1}));
    }
    out.flush();
}

fn main() {
    quiet_panics();
    let a: Vec<String> = std::env::args().collect();
    match a.get(1).map(String::as_str) {
        Some("arith") => arith(a[2].parse().unwrap(), a[3].parse().unwrap(), a.get(4).map(String::as_str) == Some("full")),
        Some("one") => {
            // one <a_s> <a_ns> <b_s> <b_ns> <d_s> <d_ns>: every call of arith_case on these operands
            selfcheck();
            let mut out = Out::new();
            let p = |i: usize| a[i].parse::<i64>().unwrap();
            arith_case(&mut out, (p(2), p(3)), (p(4), p(5)), Duration::new(a[6].parse().unwrap(), a[7].parse().unwrap()));
            out.flush();
        }
        Some("clock") => clock(a[2].parse().unwrap(), a[3].parse().unwrap()),
        _ => {
            eprintln!("usage: timearith arith <n> <seed> | clock <threads> <readings>");
            std::process::exit(2);
        }
    }
}
