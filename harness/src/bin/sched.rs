//! Instrument I1 of DESIGN.md: controlled-scheduler harness for tiny_std::sync::{Mutex, RwLock}.
//!
//! Real OS threads run the real lock code (built with --cfg tiny_std_verif).  Every atomic
//! operation and futex call of the lock goes through `tiny_std::verif`, whose hook table is
//! pointed at this scheduler: the calling thread announces the pending operation and parks
//! until the scheduler grants it the turn; exactly one thread runs between two yield points,
//! so the order of the log is the order of execution.  FUTEX_WAIT / FUTEX_WAKE are simulated
//! (wait = compare-and-enqueue or EAGAIN; wake(n) = the scheduler picks which waiters; spurious
//! returns and EINTR on demand), weak compare-exchange fails spuriously on demand.
//!
//! usage: sched replay  <plans.ndjson>   follow given schedules, finish each run by a default policy
//!        sched explore <spec.json>      bounded DFS over the schedules of the real code
//!        sched random  <spec.json>      seeded random schedules
//!        sched real    <spec.json>      free-running threads on the real kernel futex (no hooks)
//! Output: ndjson events on stdout (schema: DESIGN.md appendix A).
use std::cell::Cell;
use std::fmt::Write as _;
use std::io::{BufRead, Write};
use std::sync::atomic::{AtomicU32 as CoreAtomicU32, Ordering};
use std::sync::{Arc, Mutex as StdMutex, MutexGuard as StdGuard};
use tiny_std::sync::{Mutex, RwLock};
use tiny_std::verif::{self, Directive, Hooks, Op, OpKind};
use vharness::{Rng, Value};

const EAGAIN: i32 = 11;
const EINTR: i32 = 4;
const ETIMEDOUT: i32 = 110;
/// a thread re-reading an unchanged word this many times in a row never blocks: the judge calls a
/// load event with n >= SPIN_CAP unbounded spinning (the code's own spin budget is 100)
const SPIN_CAP: u32 = 4096;

thread_local! {
    static TID: Cell<usize> = const { Cell::new(0) };      // 0 = not a controlled thread
    static ABORTING: Cell<bool> = const { Cell::new(false) };
}

struct Abort;

#[derive(Clone, Debug)]
enum Pending {
    Atomic(Op),
    Wait { addr: usize, expect: u32 },
    Wake { addr: usize, n: i32 },
    Data,
}

#[derive(Clone, Debug)]
enum TState {
    Running,
    Announced(Pending),
    Parked(usize),
    /// removed from the queue, result chosen, not yet released by the scheduler
    Woken,
    Finished,
}

#[derive(Clone, Debug, Default)]
struct Grant {
    fail_weak: bool,
    wake: Vec<usize>,
    auto: bool,
}

struct Th {
    state: TState,
    grant: Option<Grant>,
    wake_code: Option<i32>,
    /// 0 none, 1 read guard, 2 write guard / mutex guard
    holding: u8,
    unlocking: bool,
    last_load: Option<(usize, u32, usize)>, // (addr, value, site id)
    spur_used: u32,
    eintr_used: u32,
    weak_used: u32,
    panicked: bool,
    /// the thread's last step exhausted a spin loop (a fair scheduler would now run somebody else)
    yielded: bool,
    spins: u32,
    /// number of lock-API calls started (part of the abstract state used by the coverage-guided explorer)
    calls: u32,
    /// parked in a FUTEX_WAIT that carries a timeout
    timed: bool,
    timeout_used: u32,
}

struct Shared {
    th: Vec<Th>, // index 0 unused
    log: Vec<String>,
    abort: bool,
    range: (usize, usize),
    locs: Vec<usize>,
    queues: Vec<Vec<usize>>,
    to_release: Vec<(usize, i32)>,
    rw: bool,
    step: i64, // index of the schedule step being executed (-1: none)
    snapshots: bool,
    // ---- the run in progress (the scheduling logic is executed by whichever thread holds the baton)
    chooser: Option<Chooser>,
    budgets: Budgets,
    max_steps: usize,
    follow_len: usize,
    sched: Vec<Choice>,
    last: Option<usize>,
    stepno: usize,
    diverged: Option<(usize, String)>,
    cut: bool,
    started: usize,
    nthreads: usize,
    run_over: bool,
    /// last value seen of tiny_std::verif::timed_wait_calls()
    timed_seen: u32,
}

struct Ctl {
    m: StdMutex<Shared>,
    /// one wake-up flag per party (0 = scheduler, t = worker t)
    flags: [CoreAtomicU32; 10],
}

impl Ctl {
    fn signal(&self, i: usize) {
        self.flags[i].store(1, Ordering::Release);
    }
    fn signal_workers(&self) {
        for i in 1..self.flags.len() {
            self.signal(i);
        }
    }
    /// Give up the lock on the shared state until party `i` is signalled (spin, then yield,
    /// then short sleeps: hand-overs are frequent and short, futex-parked threads wait long).
    fn wait(&self, i: usize, s: StdGuard<'static, Shared>) -> StdGuard<'static, Shared> {
        drop(s);
        let mut k = 0u32;
        while self.flags[i].swap(0, Ordering::Acquire) == 0 {
            if k < 300 {
                std::hint::spin_loop();
            } else if k < 3000 {
                std::thread::yield_now();
            } else {
                std::thread::sleep(std::time::Duration::from_micros(50));
            }
            k += 1;
        }
        lock_shared()
    }
}

static CTL: std::sync::OnceLock<Ctl> = std::sync::OnceLock::new();
fn ctl() -> &'static Ctl {
    CTL.get().expect("ctl")
}
fn lock_shared() -> StdGuard<'static, Shared> {
    ctl().m.lock().unwrap_or_else(std::sync::PoisonError::into_inner)
}

fn ord_name(o: Ordering) -> &'static str {
    match o {
        Ordering::Relaxed => "Relaxed",
        Ordering::Release => "Release",
        Ordering::Acquire => "Acquire",
        Ordering::AcqRel => "AcqRel",
        _ => "SeqCst",
    }
}

const MASK: u32 = (1 << 30) - 1;
/// RwLock words are logged with scaled constants (DESIGN.md 2.3): count 0..6, WRITE_LOCKED=7,
/// READERS_WAITING=8, WRITERS_WAITING=16.
fn scale(rw: bool, v: u32) -> u32 {
    if !rw {
        return v;
    }
    let c = v & MASK;
    let c = if c == MASK { 7 } else { c.min(6) };
    c + if v & (1 << 30) != 0 { 8 } else { 0 } + if v & (1 << 31) != 0 { 16 } else { 0 }
}
fn scale_arg(rw: bool, v: u32) -> u32 {
    // operands of fetch_add / fetch_sub: WRITE_LOCKED -> 7
    if rw && v == MASK {
        7
    } else {
        v
    }
}

impl Shared {
    fn loc_index(&mut self, addr: usize) -> usize {
        if let Some(i) = self.locs.iter().position(|a| *a == addr) {
            return i;
        }
        self.locs.push(addr);
        self.queues.push(Vec::new());
        self.locs.len() - 1
    }
    fn loc_name(&mut self, addr: usize) -> &'static str {
        let i = self.loc_index(addr);
        match (self.rw, i) {
            (false, 0) => "futex",
            (true, 0) => "state",
            (true, 1) => "notify",
            _ => "other",
        }
    }
    fn snapshot(&self) -> String {
        if !self.snapshots {
            return String::new();
        }
        let mut s = String::from(",\"w\":[");
        for (i, a) in self.locs.iter().enumerate() {
            if i > 0 {
                s.push(',');
            }
            // SAFETY: the address was announced by a shim operation on a live lock object
            let v = unsafe { (*(*a as *const CoreAtomicU32)).load(Ordering::SeqCst) };
            // the notify counter is logged raw, the lock word scaled
            let v = if i == 0 { scale(self.rw, v) } else { v & 0x3fff_ffff };
            let _ = write!(s, "{v}");
        }
        s.push_str("],\"q\":[");
        for (i, q) in self.queues.iter().enumerate() {
            if i > 0 {
                s.push(',');
            }
            let mut q = q.clone();
            q.sort_unstable();
            let _ = write!(s, "{q:?}");
        }
        s.push(']');
        s
    }
    fn step_tag(&self) -> String {
        if self.step >= 0 {
            format!(",\"k\":{}", self.step)
        } else {
            String::new()
        }
    }
    /// the first shim operation inside an unlock call ends the guard (projection used by B1)
    fn note_op(&mut self, t: usize) {
        if self.th[t].unlocking {
            self.th[t].unlocking = false;
            self.th[t].holding = 0;
        }
    }
}

fn site_str(op: &Op) -> String {
    let f = op.site.file();
    let f = f.rsplit('/').next().unwrap_or(f);
    format!("{}:{}", f, op.site.line())
}

// ------------------------------------------------------------------------------------------
// worker side: yield points
// ------------------------------------------------------------------------------------------
fn same_site(op: &Op) -> usize {
    op.site.line() as usize * 4096 + op.site.column() as usize
}

fn yield_point(me: usize, p: Pending) -> Grant {
    let c = ctl();
    let mut s = lock_shared();
    // spin-loop collapse: a thread that repeats the load it has just done (same location, call
    // site and value, nothing in between) goes on without a scheduling decision
    if let Pending::Atomic(op) = &p {
        if op.kind == OpKind::Load && s.th[me].spins < SPIN_CAP {
            if let Some((a, v, sid)) = s.th[me].last_load {
                // SAFETY: address of a live shim atomic
                if op.addr == a && same_site(op) == sid && unsafe { (*(a as *const CoreAtomicU32)).load(Ordering::SeqCst) } == v {
                    s.th[me].spins += 1;
                    s.th[me].yielded = true;
                    return Grant::default();
                }
            }
        }
    }
    s.th[me].spins = 0;
    s.th[me].state = TState::Announced(p);
    if let Some(g) = drive(&mut s, me) {
        return g;
    }
    loop {
        if s.abort {
            drop(s);
            ABORTING.with(|a| a.set(true));
            std::panic::resume_unwind(Box::new(Abort));
        }
        if let Some(g) = s.th[me].grant.take() {
            return g;
        }
        s = c.wait(me, s);
    }
}

fn controlled(addr: usize) -> Option<usize> {
    let me = TID.with(Cell::get);
    if me == 0 || ABORTING.with(Cell::get) {
        return None;
    }
    let s = lock_shared();
    if addr < s.range.0 || addr >= s.range.1 {
        return None;
    }
    Some(me)
}

fn hook_before(op: &Op) -> Directive {
    let Some(me) = controlled(op.addr) else {
        return Directive::Pass;
    };
    let g = yield_point(me, Pending::Atomic(*op));
    if g.fail_weak {
        Directive::FailWeak
    } else {
        Directive::Run
    }
}

fn hook_after(op: &Op, old: u32, ok: bool) {
    let me = TID.with(Cell::get);
    let mut s = lock_shared();
    s.note_op(me);
    let rw = s.rw;
    let loc = s.loc_name(op.addr);
    let li = s.loc_index(op.addr);
    let sc = |v: u32| if li == 0 { scale(rw, v) } else { v & 0x3fff_ffff };
    let site = site_str(op);
    let tail = format!("{}{}", s.step_tag(), s.snapshot());
    let line = match op.kind {
        OpKind::Load => {
            // spin-loop collapse: a repeated load (same thread, location, call site, value, nothing
            // in between) is merged into the previous event by bumping its count
            let sid = same_site(op);
            let rep = s.th[me].last_load == Some((op.addr, old, sid));
            s.th[me].last_load = Some((op.addr, old, sid));
            if rep {
                if let Some(last) = s.log.last_mut() {
                    if let Some(p) = last.find(",\"n\":") {
                        let e = last[p + 5..].find([',', '}']).map_or(last.len(), |x| x + p + 5);
                        let n: u32 = last[p + 5..e].parse().unwrap_or(1);
                        let new = format!("{}{}{}", &last[..p + 5], n + 1, &last[e..]);
                        *last = new;
                        return;
                    }
                }
            }
            format!(
                "{{\"ev\":\"load\",\"t\":{me},\"loc\":\"{loc}\",\"val\":{},\"ord\":\"{}\",\"n\":1,\"site\":\"{site}\"{tail}}}",
                sc(old),
                ord_name(op.success)
            )
        }
        OpKind::Store => format!(
            "{{\"ev\":\"store\",\"t\":{me},\"loc\":\"{loc}\",\"new\":{},\"old\":{},\"ord\":\"{}\",\"site\":\"{site}\"{tail}}}",
            sc(op.arg),
            sc(old),
            ord_name(op.success)
        ),
        OpKind::Swap => format!(
            "{{\"ev\":\"swap\",\"t\":{me},\"loc\":\"{loc}\",\"new\":{},\"old\":{},\"ord\":\"{}\",\"site\":\"{site}\"{tail}}}",
            sc(op.arg),
            sc(old),
            ord_name(op.success)
        ),
        OpKind::FetchAdd | OpKind::FetchSub => format!(
            "{{\"ev\":\"{}\",\"t\":{me},\"loc\":\"{loc}\",\"arg\":{},\"old\":{},\"ord\":\"{}\",\"site\":\"{site}\"{tail}}}",
            if op.kind == OpKind::FetchAdd { "fadd" } else { "fsub" },
            if li == 0 { scale_arg(rw, op.arg) } else { op.arg },
            sc(old),
            ord_name(op.success)
        ),
        OpKind::Cas | OpKind::CasWeak => {
            let spurious = !ok && old == op.expect;
            if spurious {
                s.th[me].weak_used += 1;
            }
            format!(
                "{{\"ev\":\"cas\",\"t\":{me},\"loc\":\"{loc}\",\"weak\":{},\"exp\":{},\"new\":{},\"old\":{},\"ok\":{ok},\"os\":\"{}\",\"of\":\"{}\",\"sp\":{spurious},\"site\":\"{site}\"{tail}}}",
                op.kind == OpKind::CasWeak,
                sc(op.expect),
                sc(op.arg),
                sc(old),
                ord_name(op.success),
                ord_name(op.failure)
            )
        }
    };
    if op.kind != OpKind::Load {
        s.th[me].last_load = None;
    }
    s.log.push(line);
}

fn hook_wait(word: &CoreAtomicU32, expect: u32) -> Option<i32> {
    let addr = std::ptr::from_ref(word) as usize;
    let me = controlled(addr)?;
    let _ = yield_point(me, Pending::Wait { addr, expect });
    let c = ctl();
    let mut s = lock_shared();
    s.note_op(me);
    s.th[me].last_load = None;
    // one thread runs at a time: an increment of the shim's counter belongs to this call
    let tw = verif::timed_wait_calls();
    let timed = tw != s.timed_seen;
    s.timed_seen = tw;
    let tmo = if timed { ",\"timeout\":true" } else { "" };
    let rw = s.rw;
    let loc = s.loc_name(addr);
    let li = s.loc_index(addr);
    let cur = word.load(Ordering::SeqCst);
    let e = if li == 0 { scale(rw, expect) } else { expect & 0x3fff_ffff };
    if cur != expect {
        let tail = format!("{}{}", s.step_tag(), s.snapshot());
        s.log
            .push(format!("{{\"ev\":\"wait\",\"t\":{me},\"loc\":\"{loc}\",\"exp\":{e},\"res\":\"eagain\"{tmo}{tail}}}"));
        return Some(-EAGAIN);
    }
    s.queues[li].push(me);
    s.th[me].state = TState::Parked(addr);
    s.th[me].timed = timed;
    s.th[me].wake_code = None;
    let tail = format!("{}{}", s.step_tag(), s.snapshot());
    s.log
        .push(format!("{{\"ev\":\"wait\",\"t\":{me},\"loc\":\"{loc}\",\"exp\":{e},\"res\":\"parked\"{tmo}{tail}}}"));
    let _ = drive(&mut s, me);
    loop {
        if s.abort {
            drop(s);
            ABORTING.with(|a| a.set(true));
            std::panic::resume_unwind(Box::new(Abort));
        }
        if matches!(s.th[me].state, TState::Running) {
            if let Some(code) = s.th[me].wake_code.take() {
                return Some(code);
            }
        }
        s = c.wait(me, s);
    }
}

fn hook_wake(word: &CoreAtomicU32, n: i32) -> Option<i32> {
    let addr = std::ptr::from_ref(word) as usize;
    let me = controlled(addr)?;
    let g = yield_point(me, Pending::Wake { addr, n });
    let mut s = lock_shared();
    s.note_op(me);
    s.th[me].last_load = None;
    let loc = s.loc_name(addr);
    let li = s.loc_index(addr);
    let mut woken = Vec::new();
    let chosen: Vec<usize> = if g.auto {
        let k = (n.max(0) as usize).min(s.queues[li].len());
        s.queues[li][..k].to_vec()
    } else {
        g.wake.clone()
    };
    for w in chosen {
        if let Some(p) = s.queues[li].iter().position(|x| *x == w) {
            s.queues[li].remove(p);
            s.th[w].state = TState::Woken;
            s.to_release.push((w, 0));
            woken.push(w);
        }
    }
    let tail = format!("{}{}", s.step_tag(), s.snapshot());
    s.log
        .push(format!("{{\"ev\":\"wake\",\"t\":{me},\"loc\":\"{loc}\",\"n\":{n},\"woken\":{woken:?}{tail}}}"));
    Some(woken.len() as i32)
}

static HOOKS: Hooks = Hooks { before: hook_before, after: hook_after, futex_wait: hook_wait, futex_wake: hook_wake };

// ------------------------------------------------------------------------------------------
// worker programs
// ------------------------------------------------------------------------------------------
/// The protected value.  Its Debug impl is a yield point and logs a data read, so that
/// `format!("{:?}", mutex)` (which reads the value under an internal guard) and formatting through a
/// guard are observed like every other access.
#[derive(Default)]
struct Data(u64);
impl std::fmt::Debug for Data {
    fn fmt(&self, f: &mut std::fmt::Formatter<'_>) -> std::fmt::Result {
        let me = TID.with(Cell::get);
        if me != 0 && !ABORTING.with(Cell::get) {
            let _ = yield_point(me, Pending::Data);
            data_event(me, "read", "debug", self.0);
        }
        write!(f, "{}", self.0)
    }
}

enum LockObj {
    M(Mutex<Data>),
    R(RwLock<Data>),
}

fn ev_call(me: usize, f: &str) {
    let mut s = lock_shared();
    s.th[me].last_load = None;
    s.th[me].calls += 1;
    s.log.push(format!("{{\"ev\":\"call\",\"t\":{me},\"fn\":\"{f}\"}}"));
}
fn ev_ret(me: usize, f: &str, ok: bool, holding: Option<u8>) {
    let mut s = lock_shared();
    if let Some(h) = holding {
        s.th[me].holding = h;
    }
    s.log.push(format!("{{\"ev\":\"ret\",\"t\":{me},\"fn\":\"{f}\",\"ok\":{ok}}}"));
}
fn mark_unlocking(me: usize) {
    let mut s = lock_shared();
    s.th[me].unlocking = true;
}
fn data_event(me: usize, kind: &str, guard: &str, val: u64) {
    let mut s = lock_shared();
    s.th[me].last_load = None;
    let tail = format!("{}{}", s.step_tag(), s.snapshot());
    s.log
        .push(format!("{{\"ev\":\"data\",\"t\":{me},\"kind\":\"{kind}\",\"guard\":\"{guard}\",\"val\":{val}{tail}}}"));
}

fn skip_section(prog: &[String], mut i: usize) -> usize {
    // a failed try: leave out the rest of this section (up to and including its unlock)
    while i < prog.len() {
        if prog[i] == "U" {
            return i + 1;
        }
        i += 1;
    }
    i
}

fn run_program(me: usize, lock: &LockObj, prog: &[String]) {
    match lock {
        LockObj::M(m) => {
            let mut guard = None;
            let mut i = 0;
            while i < prog.len() {
                match prog[i].as_str() {
                    "L" => {
                        ev_call(me, "lock");
                        let g = m.lock();
                        ev_ret(me, "lock", true, Some(2));
                        guard = Some(g);
                    }
                    "T" => {
                        ev_call(me, "try_lock");
                        if let Some(g) = m.try_lock() {
                            ev_ret(me, "try_lock", true, Some(2));
                            guard = Some(g);
                        } else {
                            ev_ret(me, "try_lock", false, None);
                            i = skip_section(prog, i);
                            continue;
                        }
                    }
                    "A" => {
                        if let Some(g) = guard.as_mut() {
                            let _ = yield_point(me, Pending::Data);
                            let v = g.0;
                            g.0 = v + 1;
                            data_event(me, "write", "mutex", v);
                        }
                    }
                    "U" => {
                        if let Some(g) = guard.take() {
                            ev_call(me, "unlock");
                            mark_unlocking(me);
                            drop(g);
                            ev_ret(me, "unlock", true, Some(0));
                        }
                    }
                    // format!("{:?}", mutex): try_lock + read through an internal guard + drop, or "<locked>"
                    "D" => {
                        if guard.is_none() {
                            ev_call(me, "debug");
                            let txt = format!("{m:?}");
                            ev_ret(me, "debug", !txt.contains("<locked>"), None);
                        }
                    }
                    _ => {}
                }
                i += 1;
            }
        }
        LockObj::R(r) => {
            let mut rg = None;
            let mut wg = None;
            let mut i = 0;
            while i < prog.len() {
                match prog[i].as_str() {
                    "R" => {
                        ev_call(me, "read");
                        let g = r.read();
                        ev_ret(me, "read", true, Some(1));
                        rg = Some(g);
                    }
                    "W" => {
                        ev_call(me, "write");
                        let g = r.write();
                        ev_ret(me, "write", true, Some(2));
                        wg = Some(g);
                    }
                    "TR" => {
                        ev_call(me, "try_read");
                        if let Some(g) = r.try_read() {
                            ev_ret(me, "try_read", true, Some(1));
                            rg = Some(g);
                        } else {
                            ev_ret(me, "try_read", false, None);
                            i = skip_section(prog, i);
                            continue;
                        }
                    }
                    "TW" => {
                        ev_call(me, "try_write");
                        if let Some(g) = r.try_write() {
                            ev_ret(me, "try_write", true, Some(2));
                            wg = Some(g);
                        } else {
                            ev_ret(me, "try_write", false, None);
                            i = skip_section(prog, i);
                            continue;
                        }
                    }
                    "A" => {
                        if let Some(g) = wg.as_mut() {
                            let _ = yield_point(me, Pending::Data);
                            let v = g.0;
                            g.0 = v + 1;
                            data_event(me, "write", "write", v);
                        } else if let Some(g) = rg.as_ref() {
                            let _ = yield_point(me, Pending::Data);
                            let v = g.0;
                            data_event(me, "read", "read", v);
                        }
                    }
                    "U" => {
                        if let Some(g) = wg.take() {
                            ev_call(me, "unlock");
                            mark_unlocking(me);
                            drop(g);
                            ev_ret(me, "unlock", true, Some(0));
                        } else if let Some(g) = rg.take() {
                            ev_call(me, "unlock");
                            mark_unlocking(me);
                            drop(g);
                            ev_ret(me, "unlock", true, Some(0));
                        }
                    }
                    _ => {}
                }
                i += 1;
            }
        }
    }
}

fn worker(me: usize, lock: Arc<LockObj>, prog: Vec<String>) {
    TID.with(|t| t.set(me));
    ABORTING.with(|a| a.set(false));
    let r = std::panic::catch_unwind(std::panic::AssertUnwindSafe(|| run_program(me, &lock, &prog)));
    ABORTING.with(|a| a.set(true)); // anything dropped from here on passes through
    let c = ctl();
    let mut s = lock_shared();
    if let Err(e) = r {
        if !e.is::<Abort>() {
            let msg = if let Some(m) = e.downcast_ref::<&str>() {
                (*m).to_string()
            } else if let Some(m) = e.downcast_ref::<String>() {
                m.clone()
            } else {
                "panic".to_string()
            };
            let msg = msg.replace(['"', '\\', '\n'], " ");
            s.th[me].panicked = true;
            s.log.push(format!("{{\"ev\":\"panic\",\"t\":{me},\"msg\":\"{msg}\"}}"));
        }
    }
    s.th[me].state = TState::Finished;
    let _ = drive(&mut s, me);
    drop(s);
    drop(lock);
    TID.with(|t| t.set(0));
}

// ------------------------------------------------------------------------------------------
// scheduler
// ------------------------------------------------------------------------------------------
#[derive(Clone, Debug, PartialEq)]
enum Choice {
    Grant(usize),
    GrantFail(usize),
    GrantWake(usize, Vec<usize>),
    Spurious(usize),
    Eintr(usize),
    /// a FUTEX_WAIT with a timeout returns ETIMEDOUT (offered only for timed waits)
    Timeout(usize),
}
impl Choice {
    fn thread(&self) -> usize {
        match self {
            Choice::Grant(t) | Choice::GrantFail(t) | Choice::GrantWake(t, _) | Choice::Spurious(t) | Choice::Eintr(t) | Choice::Timeout(t) => *t,
        }
    }
    fn is_env(&self) -> bool {
        matches!(self, Choice::Spurious(_) | Choice::Eintr(_) | Choice::Timeout(_))
    }
    fn json(&self) -> String {
        match self {
            Choice::Grant(t) => format!("[{t}]"),
            Choice::GrantFail(t) => format!("[{t},\"f\"]"),
            Choice::GrantWake(t, w) => format!("[{t},\"w\",{w:?}]"),
            Choice::Spurious(t) => format!("[{t},\"s\"]"),
            Choice::Eintr(t) => format!("[{t},\"i\"]"),
            Choice::Timeout(t) => format!("[{t},\"o\"]"),
        }
    }
    fn from_json(v: &Value) -> Option<Choice> {
        let a = v.as_array()?;
        let t = a.first()?.as_u64()? as usize;
        match a.get(1).and_then(Value::as_str) {
            None => Some(Choice::Grant(t)),
            Some("f") => Some(Choice::GrantFail(t)),
            Some("w") => Some(Choice::GrantWake(
                t,
                a.get(2)?.as_array()?.iter().filter_map(|x| x.as_u64().map(|y| y as usize)).collect(),
            )),
            Some("s") => Some(Choice::Spurious(t)),
            Some("i") => Some(Choice::Eintr(t)),
            Some("o") => Some(Choice::Timeout(t)),
            _ => None,
        }
    }
}

#[derive(Clone)]
struct Budgets {
    spur: u32,
    eintr: u32,
    weak: u32,
    timeouts: u32,
}

struct RunSpec {
    rw: bool,
    progs: Vec<Vec<String>>,
    budgets: Budgets,
    max_steps: usize,
    snapshots: bool,
}

struct RunResult {
    sched: Vec<Choice>,
    blocked: Vec<usize>,
    cut: bool,
    diverged: Option<(usize, String)>,
    log: Vec<String>,
}

fn wait_started(s: StdGuard<'static, Shared>, t: usize) -> StdGuard<'static, Shared> {
    let c = ctl();
    let mut s = s;
    while matches!(s.th[t].state, TState::Running) {
        s = c.wait(0, s);
    }
    s
}

fn enabled(s: &Shared, b: &Budgets) -> Vec<Choice> {
    let mut v = Vec::new();
    for t in 1..s.th.len() {
        match &s.th[t].state {
            TState::Announced(Pending::Atomic(op)) => {
                v.push(Choice::Grant(t));
                if op.kind == OpKind::CasWeak && s.th[t].weak_used < b.weak {
                    // SAFETY: address of a live shim atomic
                    let cur = unsafe { (*(op.addr as *const CoreAtomicU32)).load(Ordering::SeqCst) };
                    if cur == op.expect {
                        v.push(Choice::GrantFail(t));
                    }
                }
            }
            TState::Announced(Pending::Wait { .. } | Pending::Data) => v.push(Choice::Grant(t)),
            TState::Announced(Pending::Wake { addr, n }) => {
                let q = s.locs.iter().position(|a| a == addr).map_or(&[][..], |i| &s.queues[i][..]);
                let n = (*n).max(0) as usize;
                if q.is_empty() {
                    v.push(Choice::GrantWake(t, vec![]));
                } else if n >= q.len() {
                    let mut all = q.to_vec();
                    all.sort_unstable();
                    v.push(Choice::GrantWake(t, all));
                } else if n == 1 {
                    let mut all = q.to_vec();
                    all.sort_unstable();
                    for w in all {
                        v.push(Choice::GrantWake(t, vec![w]));
                    }
                } else {
                    v.push(Choice::GrantWake(t, q[..n].to_vec()));
                }
            }
            TState::Parked(_) => {
                if s.th[t].spur_used < b.spur {
                    v.push(Choice::Spurious(t));
                }
                if s.th[t].eintr_used < b.eintr {
                    v.push(Choice::Eintr(t));
                }
                if s.th[t].timed && s.th[t].timeout_used < b.timeouts {
                    v.push(Choice::Timeout(t));
                }
            }
            _ => {}
        }
    }
    v
}

enum Chooser {
    Follow(Follow),
    Dfs(Dfs),
    Random(Random),
    Cover(Cover),
    Hold,
}
impl Chooser {
    fn pick(&mut self, step: usize, choices: &[Choice], last: Option<usize>, yielded: bool, h: u64) -> Result<usize, String> {
        match self {
            Chooser::Cover(c) => c.pick(h, choices, last),
            Chooser::Hold => Ok(hold_pick(choices, last, h)),
            Chooser::Follow(f) => f.pick(step, choices),
            Chooser::Dfs(d) => d.pick(step, choices, last, yielded),
            Chooser::Random(r) => r.pick(choices, last),
        }
    }
}

/// The scheduling logic.  Called, with the shared state locked, by a thread that has just become
/// quiescent (announced an operation, parked in the simulated futex, finished) or by the main
/// thread to start the run.  If nobody else is running it makes scheduling decisions until some
/// thread has been set running; when that thread is the caller itself its grant is returned and no
/// hand-over takes place at all.
fn drive(s: &mut Shared, me: usize) -> Option<Grant> {
    let c = ctl();
    loop {
        if s.started < s.nthreads {
            c.signal(0); // start-up: the main thread waits for each worker's first yield point
            return None;
        }
        if s.run_over || s.abort {
            return None;
        }
        if (1..s.th.len()).any(|t| matches!(s.th[t].state, TState::Running)) {
            return None;
        }
        // woken threads are released one at a time so that the log stays deterministic
        if !s.to_release.is_empty() {
            let (w, code) = s.to_release.remove(0);
            s.th[w].wake_code = Some(code);
            s.th[w].state = TState::Running;
            c.signal(w);
            return None;
        }
        let choices = enabled(s, &s.budgets);
        if !choices.iter().any(|c| !c.is_env()) {
            s.run_over = true;
            c.signal(0);
            return None;
        }
        if s.stepno >= s.max_steps {
            s.cut = true;
            s.run_over = true;
            c.signal(0);
            return None;
        }
        let step = s.stepno;
        let last = s.last;
        let yielded = last.is_some_and(|l| s.th[l].yielded);
        let following = s.diverged.is_none() && step < s.follow_len;
        let idx = if s.diverged.is_none() && (following || s.follow_len == usize::MAX) {
            let mut ch = s.chooser.take().expect("chooser");
            let h = match ch {
                Chooser::Cover(_) => abs_hash(s),
                // bit t set: thread t holds a guard (or is dropping it)
                Chooser::Hold => (1..s.th.len()).filter(|t| s.th[*t].holding != 0).fold(0u64, |m, t| m | (1 << t)),
                _ => 0,
            };
            let r = ch.pick(step, &choices, last, yielded, h);
            s.chooser = Some(ch);
            match r {
                Ok(i) => Some(i),
                Err(why) => {
                    s.diverged = Some((step, why));
                    default_pick(&choices, last, yielded)
                }
            }
        } else {
            default_pick(&choices, last, yielded)
        };
        let Some(idx) = idx else {
            s.run_over = true;
            c.signal(0);
            return None;
        };
        let ch = choices[idx].clone();
        s.step = if following { step as i64 } else { -1 };
        if !ch.is_env() {
            s.last = Some(ch.thread());
        }
        s.sched.push(ch.clone());
        s.stepno += 1;
        match &ch {
            Choice::Grant(t) | Choice::GrantFail(t) | Choice::GrantWake(t, _) => {
                let t = *t;
                let mut g = Grant { fail_weak: matches!(ch, Choice::GrantFail(_)), wake: vec![], auto: false };
                if let Choice::GrantWake(_, w) = &ch {
                    g.wake.clone_from(w);
                } else if matches!(s.th[t].state, TState::Announced(Pending::Wake { .. })) {
                    g.auto = true;
                }
                s.th[t].yielded = false;
                s.th[t].state = TState::Running;
                if t == me {
                    return Some(g);
                }
                s.th[t].grant = Some(g);
                c.signal(t);
                return None;
            }
            Choice::Spurious(t) | Choice::Eintr(t) | Choice::Timeout(t) => {
                let t = *t;
                let eintr = matches!(ch, Choice::Eintr(_));
                let tmo = matches!(ch, Choice::Timeout(_));
                if let TState::Parked(addr) = s.th[t].state {
                    let li = s.loc_index(addr);
                    s.queues[li].retain(|x| *x != t);
                    if tmo {
                        s.th[t].timeout_used += 1;
                    } else if eintr {
                        s.th[t].eintr_used += 1;
                    } else {
                        s.th[t].spur_used += 1;
                    }
                    s.th[t].state = TState::Woken;
                    let tail = format!("{}{}", s.step_tag(), s.snapshot());
                    s.log.push(format!(
                        "{{\"ev\":\"woken\",\"t\":{t},\"cause\":\"{}\"{tail}}}",
                        if tmo { "timeout" } else if eintr { "eintr" } else { "spurious" }
                    ));
                    s.to_release.push((t, if tmo { -ETIMEDOUT } else if eintr { -EINTR } else { 0 }));
                }
            }
        }
    }
}

fn default_pick(choices: &[Choice], last: Option<usize>, yielded: bool) -> Option<usize> {
    let grants: Vec<usize> =
        (0..choices.len()).filter(|i| !choices[*i].is_env() && !matches!(choices[*i], Choice::GrantFail(_))).collect();
    if grants.is_empty() {
        return None;
    }
    if let Some(l) = last {
        if yielded {
            // the running thread has just exhausted a spin loop: be fair, run the next other thread
            if let Some(i) = grants.iter().find(|i| choices[**i].thread() > l) {
                return Some(*i);
            }
            if let Some(i) = grants.iter().find(|i| choices[**i].thread() != l) {
                return Some(*i);
            }
        }
        if let Some(i) = grants.iter().find(|i| choices[**i].thread() == l) {
            return Some(*i);
        }
    }
    grants.first().copied()
}

struct Follow {
    sched: Vec<Choice>,
}
impl Follow {
    fn pick(&mut self, step: usize, choices: &[Choice]) -> Result<usize, String> {
        let want = &self.sched[step];
        if let Some(i) = choices.iter().position(|c| c == want) {
            return Ok(i);
        }
        // a plain grant of a thread whose pending operation is a wake: FIFO default
        if let Choice::Grant(t) = want {
            if let Some(i) = choices.iter().position(|c| matches!(c, Choice::GrantWake(x, _) if x == t)) {
                return Ok(i);
            }
        }
        // a wake choice with the woken set in another order
        if let Choice::GrantWake(t, w) = want {
            let mut w = w.clone();
            w.sort_unstable();
            if let Some(i) = choices.iter().position(|c| matches!(c, Choice::GrantWake(x, y) if x == t && *y == w)) {
                return Ok(i);
            }
        }
        Err(format!("step {} wants {} but enabled are [{}]", step, want.json(), choices.iter().map(Choice::json).collect::<Vec<_>>().join(",")))
    }
}

fn run_once(spec: &RunSpec, chooser: Chooser, follow_len: usize) -> (RunResult, Chooser) {
    let n = spec.progs.len();
    let lock = Arc::new(if spec.rw { LockObj::R(RwLock::new(Data(0))) } else { LockObj::M(Mutex::default()) });
    let base = match &*lock {
        LockObj::M(m) => (std::ptr::from_ref(m) as usize, std::mem::size_of_val(m)),
        LockObj::R(r) => (std::ptr::from_ref(r) as usize, std::mem::size_of_val(r)),
    };
    {
        let mut s = lock_shared();
        s.th = (0..=n)
            .map(|_| Th {
                state: TState::Finished,
                grant: None,
                wake_code: None,
                holding: 0,
                unlocking: false,
                last_load: None,
                spur_used: 0,
                eintr_used: 0,
                weak_used: 0,
                panicked: false,
                yielded: false,
                spins: 0,
                calls: 0,
                timed: false,
                timeout_used: 0,
            })
            .collect();
        s.log = Vec::new();
        s.abort = false;
        s.range = (base.0, base.0 + base.1);
        s.locs.clear();
        s.queues.clear();
        s.to_release.clear();
        s.rw = spec.rw;
        s.step = -1;
        s.snapshots = spec.snapshots;
        s.chooser = Some(chooser);
        s.budgets = spec.budgets.clone();
        s.max_steps = spec.max_steps;
        s.follow_len = follow_len;
        s.sched = Vec::new();
        s.last = None;
        s.stepno = 0;
        s.diverged = None;
        s.cut = false;
        s.started = 0;
        s.nthreads = n;
        s.run_over = false;
    }
    for f in &ctl().flags {
        f.store(0, Ordering::SeqCst);
    }
    let mut handles = Vec::new();
    for t in 1..=n {
        // started one after the other so that the initial call events are logged in thread order
        let l = lock.clone();
        let p = spec.progs[t - 1].clone();
        lock_shared().th[t].state = TState::Running;
        handles.push(std::thread::spawn(move || worker(t, l, p)));
        drop(wait_started(lock_shared(), t));
    }
    let mut s = lock_shared();
    s.started = n;
    let _ = drive(&mut s, 0);
    while !s.run_over {
        s = ctl().wait(0, s);
    }
    let blocked: Vec<usize> = (1..=n).filter(|t| matches!(s.th[*t].state, TState::Parked(_))).collect();
    // tear down: everything still alive unwinds out of its yield point
    s.abort = true;
    ctl().signal_workers();
    drop(s);
    for h in handles {
        let _ = h.join();
    }
    // the run is over and every thread is gone: the remaining public operations on the quiescent
    // lock (this thread is not controlled, everything passes through to the real atomics).
    // try_lock / try_write must succeed when no guard is outstanding; get_mut / into_inner must
    // deliver the value the write accesses left.
    let clean = {
        let s = lock_shared();
        blocked.is_empty() && !s.cut && (1..=n).all(|t| !s.th[t].panicked)
    };
    let mut fin = String::new();
    if clean {
        let try_ok = match &*lock {
            LockObj::M(m) => m.try_lock().is_some(),
            LockObj::R(r) => r.try_write().is_some(),
        };
        if let Ok(obj) = Arc::try_unwrap(lock) {
            let (gm, inner) = match obj {
                LockObj::M(mut m) => (m.get_mut().0, m.into_inner().0),
                LockObj::R(mut r) => (r.get_mut().0, r.into_inner().0),
            };
            fin = format!("{{\"ev\":\"final\",\"try_ok\":{try_ok},\"get_mut\":{gm},\"into_inner\":{inner}}}");
        }
    }
    let mut s = lock_shared();
    let mut log = std::mem::take(&mut s.log);
    if !fin.is_empty() {
        log.push(fin);
    }
    let r = RunResult { sched: std::mem::take(&mut s.sched), blocked, cut: s.cut, diverged: s.diverged.take(), log };
    let ch = s.chooser.take().expect("chooser");
    (r, ch)
}

fn emit_run(out: &mut impl Write, run: usize, spec: &RunSpec, plan: &str, mode: &str, r: &RunResult) {
    let progs = serde_json::to_string(&spec.progs).unwrap();
    writeln!(
        out,
        "{{\"ev\":\"reset\",\"run\":{run},\"kind\":\"{}\",\"mode\":\"{mode}\",\"n\":{},\"progs\":{progs},\"plan\":{plan}}}",
        if spec.rw { "rwlock" } else { "mutex" },
        spec.progs.len()
    )
    .unwrap();
    for l in &r.log {
        out.write_all(l.as_bytes()).unwrap();
        out.write_all(b"\n").unwrap();
    }
    let done: Vec<usize> = (1..=spec.progs.len()).filter(|t| !r.blocked.contains(t)).collect();
    let div = match &r.diverged {
        Some((k, why)) => format!("{{\"k\":{k},\"why\":\"{}\"}}", why.replace('"', "'")),
        None => "null".to_string(),
    };
    writeln!(
        out,
        "{{\"ev\":\"end\",\"run\":{run},\"blocked\":{:?},\"done\":{done:?},\"cut\":{},\"diverged\":{div},\"sched\":[{}]}}",
        r.blocked,
        r.cut,
        r.sched.iter().map(Choice::json).collect::<Vec<_>>().join(",")
    )
    .unwrap();
}

fn progs_of(v: &Value) -> Vec<Vec<String>> {
    v.as_array()
        .map(|a| {
            a.iter()
                .map(|p| p.as_array().map(|x| x.iter().filter_map(|s| s.as_str().map(str::to_string)).collect()).unwrap_or_default())
                .collect()
        })
        .unwrap_or_default()
}
fn budgets_of(v: &Value) -> Budgets {
    let g = |k: &str| v.get(k).and_then(Value::as_u64).unwrap_or(0) as u32;
    Budgets { spur: g("spur"), eintr: g("eintr"), weak: g("weak"), timeouts: v.get("timeouts").and_then(Value::as_u64).unwrap_or(12) as u32 }
}
fn spec_of(v: &Value) -> RunSpec {
    RunSpec {
        rw: v.get("kind").and_then(Value::as_str) == Some("rwlock"),
        progs: progs_of(&v["progs"]),
        budgets: budgets_of(v),
        max_steps: v.get("max_steps").and_then(Value::as_u64).unwrap_or(600) as usize,
        snapshots: v.get("snap").and_then(Value::as_bool).unwrap_or(false),
    }
}

fn mode_replay(path: &str) {
    let f = std::io::BufReader::new(std::fs::File::open(path).expect("plans"));
    let stdout = std::io::stdout();
    let mut out = std::io::BufWriter::with_capacity(1 << 20, stdout.lock());
    for (k, line) in f.lines().enumerate() {
        let line = line.unwrap();
        if line.trim().is_empty() {
            continue;
        }
        let v: Value = serde_json::from_str(&line).expect("plan json");
        let mut spec = spec_of(&v);
        // when following a plan the environment budgets are whatever the plan asks for
        spec.budgets = Budgets { spur: 1000, eintr: 1000, weak: 1000, timeouts: 1000 };
        spec.snapshots = v.get("snap").and_then(Value::as_bool).unwrap_or(true);
        let sched: Vec<Choice> = v["sched"].as_array().map(|a| a.iter().filter_map(Choice::from_json).collect()).unwrap_or_default();
        let n = sched.len();
        let (r, _) = run_once(&spec, Chooser::Follow(Follow { sched }), n);
        let run = v.get("run").and_then(Value::as_u64).map_or(k, |x| x as usize);
        emit_run(&mut out, run, &spec, &v["sched"].to_string(), "replay", &r);
    }
    out.flush().unwrap();
}

/// Stateless depth-first exploration with a preemption bound.
struct Dfs {
    /// (chosen index among the allowed choices, number of allowed choices) per depth
    stack: Vec<(usize, usize)>,
    depth_seen: usize,
    preempt_bound: u32,
    preempts: u32,
}
impl Dfs {
    /// Is choosing `c` a preemption?  Switching away from a thread that can still run is one,
    /// unless that thread has just exhausted a spin loop (then the switch is a fair yield).
    fn is_preempt(c: &Choice, choices: &[Choice], last: Option<usize>, yielded: bool) -> bool {
        let last_enabled = last.is_some_and(|l| choices.iter().any(|c| !c.is_env() && c.thread() == l));
        last_enabled && !yielded && (c.is_env() || Some(c.thread()) != last)
    }
    fn allowed(&self, choices: &[Choice], last: Option<usize>, yielded: bool) -> Vec<usize> {
        let mut v: Vec<usize> = Vec::new();
        // free choices first; after a yield the other threads come before the spinner
        for (i, c) in choices.iter().enumerate() {
            if !Self::is_preempt(c, choices, last, yielded) && !(yielded && Some(c.thread()) == last) {
                v.push(i);
            }
        }
        for (i, c) in choices.iter().enumerate() {
            if !Self::is_preempt(c, choices, last, yielded) && yielded && Some(c.thread()) == last {
                v.push(i);
            }
        }
        if self.preempts < self.preempt_bound {
            for (i, c) in choices.iter().enumerate() {
                if Self::is_preempt(c, choices, last, yielded) {
                    v.push(i);
                }
            }
        }
        v
    }
}
impl Dfs {
    fn pick(&mut self, step: usize, choices: &[Choice], last: Option<usize>, yielded: bool) -> Result<usize, String> {
        let allowed = self.allowed(choices, last, yielded);
        if allowed.is_empty() {
            return Err("no allowed choice".into());
        }
        let k = if step < self.stack.len() {
            self.stack[step].1 = allowed.len();
            self.stack[step].0.min(allowed.len() - 1)
        } else {
            self.stack.push((0, allowed.len()));
            0
        };
        self.depth_seen = step + 1;
        let idx = allowed[k];
        if Self::is_preempt(&choices[idx], choices, last, yielded) {
            self.preempts += 1;
        }
        Ok(idx)
    }
}

fn mode_explore(path: &str) {
    let v: Value = serde_json::from_str(&std::fs::read_to_string(path).expect("spec")).expect("spec json");
    let spec = spec_of(&v);
    let bound = v.get("preempt").and_then(Value::as_u64).unwrap_or(2) as u32;
    let max_runs = v.get("max_runs").and_then(Value::as_u64).unwrap_or(1000) as usize;
    let max_secs = v.get("max_secs").and_then(Value::as_f64).unwrap_or(120.0);
    let t0 = std::time::Instant::now();
    let stdout = std::io::stdout();
    let mut out = std::io::BufWriter::with_capacity(1 << 20, stdout.lock());
    // iterative deepening on the preemption bound: all schedules with 0 preemptions, then all with
    // exactly 1, ... so that a time/run cap cuts off the highest level only (a plain depth-first
    // search under a cap would never vary the beginning of the schedules)
    let mut run = 0usize;
    let mut complete = false;
    let mut completed_bound: i64 = -1;
    'levels: for level in 0..=bound {
        let mut dfs = Dfs { stack: Vec::new(), depth_seen: 0, preempt_bound: level, preempts: 0 };
        loop {
            dfs.preempts = 0;
            dfs.depth_seen = 0;
            let (r, ch) = run_once(&spec, Chooser::Dfs(dfs), usize::MAX);
            let Chooser::Dfs(d) = ch else { unreachable!() };
            dfs = d;
            // schedules with fewer preemptions were emitted at the lower levels
            if dfs.preempts == level {
                emit_run(&mut out, run, &spec, "null", "dfs", &r);
                run += 1;
            }
            // backtrack
            dfs.stack.truncate(dfs.depth_seen);
            while let Some((k, n)) = dfs.stack.last().copied() {
                if k + 1 < n {
                    let l = dfs.stack.len();
                    dfs.stack[l - 1].0 = k + 1;
                    break;
                }
                dfs.stack.pop();
            }
            if dfs.stack.is_empty() {
                completed_bound = i64::from(level);
                break;
            }
            if run >= max_runs || t0.elapsed().as_secs_f64() > max_secs {
                break 'levels;
            }
        }
        if level == bound {
            complete = true;
        }
    }
    writeln!(out, "{{\"ev\":\"explored\",\"runs\":{run},\"complete\":{complete},\"preempt\":{bound},\"complete_up_to\":{completed_bound}}}").unwrap();
    out.flush().unwrap();
}

struct Random {
    rng: Rng,
    env_pct: u64,
}
impl Random {
    fn pick(&mut self, choices: &[Choice], last: Option<usize>) -> Result<usize, String> {
        let envs: Vec<usize> = (0..choices.len()).filter(|i| choices[*i].is_env() || matches!(choices[*i], Choice::GrantFail(_))).collect();
        let norm: Vec<usize> = (0..choices.len()).filter(|i| !envs.contains(i)).collect();
        if !envs.is_empty() && (norm.is_empty() || self.rng.below(100) < self.env_pct) {
            return Ok(*self.rng.pick(&envs));
        }
        // mild bias towards continuing the running thread (longer uninterrupted stretches)
        if let Some(l) = last {
            if self.rng.below(100) < 40 {
                if let Some(i) = norm.iter().find(|i| choices[**i].thread() == l) {
                    return Ok(*i);
                }
            }
        }
        Ok(*self.rng.pick(&norm))
    }
}

/// Abstract state of the real execution as far as the scheduler can see it: the lock words, the
/// futex queues and, per thread, where it is (pending operation with operands and call site,
/// parked, finished), what it holds and how far its program has got.
fn abs_hash(s: &Shared) -> u64 {
    use std::hash::{Hash, Hasher};
    let mut h = std::collections::hash_map::DefaultHasher::new();
    for (i, a) in s.locs.iter().enumerate() {
        // SAFETY: address of a live shim atomic
        unsafe { (*(*a as *const CoreAtomicU32)).load(Ordering::SeqCst) }.hash(&mut h);
        let mut q = s.queues[i].clone();
        q.sort_unstable();
        q.hash(&mut h);
    }
    for t in 1..s.th.len() {
        let th = &s.th[t];
        (th.holding, th.unlocking, th.calls, th.spur_used, th.eintr_used, th.weak_used, th.timeout_used).hash(&mut h);
        match &th.state {
            TState::Announced(Pending::Atomic(op)) => {
                (1u8, op.kind as u8, s.locs.iter().position(|a| *a == op.addr), op.expect, op.arg, op.site.line(), op.site.column()).hash(&mut h);
            }
            TState::Announced(Pending::Wait { addr, expect }) => (2u8, s.locs.iter().position(|a| a == addr), *expect).hash(&mut h),
            TState::Announced(Pending::Wake { addr, n }) => (3u8, s.locs.iter().position(|a| a == addr), *n).hash(&mut h),
            TState::Announced(Pending::Data) => 4u8.hash(&mut h),
            TState::Parked(_) => 5u8.hash(&mut h),
            TState::Woken => 6u8.hash(&mut h),
            TState::Finished => 7u8.hash(&mut h),
            TState::Running => 8u8.hash(&mut h),
        }
    }
    h.finish()
}

/// Coverage-guided exploration: prefers a (abstract state, choice) pair that has never been taken
/// (a model-free transition tour of the real code); falls back to a seeded random choice.
struct Cover {
    seen: std::collections::HashSet<(u64, String)>,
    rng: Rng,
    new_pairs: usize,
}
impl Cover {
    fn pick(&mut self, h: u64, choices: &[Choice], last: Option<usize>) -> Result<usize, String> {
        let n = choices.len();
        let rot = self.rng.below(n as u64) as usize;
        for env_pass in [false, true] {
            for k in 0..n {
                let i = (k + rot) % n;
                let c = &choices[i];
                let envish = c.is_env() || matches!(c, Choice::GrantFail(_));
                if envish != env_pass {
                    continue;
                }
                let key = (h, c.json());
                if !self.seen.contains(&key) {
                    self.seen.insert(key);
                    self.new_pairs += 1;
                    return Ok(i);
                }
            }
        }
        let mut r = Random { rng: Rng::new(self.rng.next()), env_pct: 5 };
        r.pick(choices, last)
    }
}

/// The long-hold scheduler: a thread that holds a guard is not scheduled as long as anything else
/// can happen (other threads' steps first, then time-outs of timed futex waits); legal, since the
/// property quantifies over every schedule in which holders eventually release.  Waiters must park
/// and must still be there (not panic, not spin for ever) when the holder finally runs.
fn hold_pick(choices: &[Choice], last: Option<usize>, holders: u64) -> usize {
    let free = |c: &Choice| !c.is_env() && !matches!(c, Choice::GrantFail(_)) && holders & (1 << c.thread()) == 0;
    if let Some(l) = last {
        if let Some(i) = choices.iter().position(|c| free(c) && c.thread() == l) {
            return i;
        }
    }
    if let Some(i) = choices.iter().position(free) {
        return i;
    }
    if let Some(i) = choices.iter().position(|c| matches!(c, Choice::Timeout(_))) {
        return i;
    }
    choices.iter().position(|c| !c.is_env() && !matches!(c, Choice::GrantFail(_))).unwrap_or(0)
}

fn mode_hold(path: &str) {
    let v: Value = serde_json::from_str(&std::fs::read_to_string(path).expect("spec")).expect("spec json");
    let spec = spec_of(&v);
    let stdout = std::io::stdout();
    let mut out = std::io::BufWriter::with_capacity(1 << 20, stdout.lock());
    let (r, _) = run_once(&spec, Chooser::Hold, usize::MAX);
    emit_run(&mut out, 0, &spec, "null", "hold", &r);
    writeln!(out, "{{\"ev\":\"explored\",\"runs\":1,\"complete\":true}}").unwrap();
    out.flush().unwrap();
}

fn mode_cover(path: &str) {
    let v: Value = serde_json::from_str(&std::fs::read_to_string(path).expect("spec")).expect("spec json");
    let spec = spec_of(&v);
    let runs = v.get("runs").and_then(Value::as_u64).unwrap_or(100) as usize;
    let seed = v.get("seed").and_then(Value::as_u64).unwrap_or_else(vharness::seed);
    let max_secs = v.get("max_secs").and_then(Value::as_f64).unwrap_or(120.0);
    let stdout = std::io::stdout();
    let mut out = std::io::BufWriter::with_capacity(1 << 20, stdout.lock());
    let t0 = std::time::Instant::now();
    let mut cover = Cover { seen: std::collections::HashSet::new(), rng: Rng::new(seed), new_pairs: 0 };
    let mut stale = 0;
    let mut done = 0;
    let mut saturated = false;
    for run in 0..runs {
        if t0.elapsed().as_secs_f64() > max_secs {
            break;
        }
        let before = cover.new_pairs;
        let (r, ch) = run_once(&spec, Chooser::Cover(cover), usize::MAX);
        let Chooser::Cover(c) = ch else { unreachable!() };
        cover = c;
        emit_run(&mut out, run, &spec, "null", "cover", &r);
        done += 1;
        stale = if cover.new_pairs == before { stale + 1 } else { 0 };
        if stale >= 40 {
            saturated = true;
            break;
        }
    }
    writeln!(
        out,
        "{{\"ev\":\"explored\",\"runs\":{done},\"complete\":{saturated},\"pairs\":{},\"saturated\":{saturated}}}",
        cover.new_pairs
    )
    .unwrap();
    out.flush().unwrap();
}

fn mode_random(path: &str) {
    let v: Value = serde_json::from_str(&std::fs::read_to_string(path).expect("spec")).expect("spec json");
    let spec = spec_of(&v);
    let runs = v.get("runs").and_then(Value::as_u64).unwrap_or(100) as usize;
    let seed = v.get("seed").and_then(Value::as_u64).unwrap_or_else(vharness::seed);
    let stdout = std::io::stdout();
    let mut out = std::io::BufWriter::with_capacity(1 << 20, stdout.lock());
    let max_secs = v.get("max_secs").and_then(Value::as_f64).unwrap_or(120.0);
    let t0 = std::time::Instant::now();
    for run in 0..runs {
        if t0.elapsed().as_secs_f64() > max_secs {
            break;
        }
        let ch = Random { rng: Rng::new(seed.wrapping_mul(1_000_003).wrapping_add(run as u64)), env_pct: 8 };
        let (r, _) = run_once(&spec, Chooser::Random(ch), usize::MAX);
        emit_run(&mut out, run, &spec, "null", "random", &r);
    }
    out.flush().unwrap();
}

// ------------------------------------------------------------------------------------------
// hook-free part: the real kernel futex
// ------------------------------------------------------------------------------------------
fn thread_state(tid: i32) -> Option<(char, i64)> {
    // (scheduler state, system call number the task is blocked in or -1)
    let stat = std::fs::read_to_string(format!("/proc/self/task/{tid}/stat")).ok()?;
    let st = stat.rsplit(')').next()?.trim().chars().next()?;
    let sc = std::fs::read_to_string(format!("/proc/self/task/{tid}/syscall"))
        .ok()
        .and_then(|x| x.split_whitespace().next().and_then(|n| n.parse::<i64>().ok()))
        .unwrap_or(-1);
    Some((st, sc))
}
fn wait_until_parked(tid: &std::sync::atomic::AtomicI32, scale: u64) -> bool {
    // the waiter publishes its tid, then calls FUTEX_WAIT; parked = sleeping inside futex(2) (nr 202)
    for _ in 0..20000 * scale {
        let t = tid.load(Ordering::SeqCst);
        if t != 0 {
            if let Some(('S', 202)) = thread_state(t) {
                return true;
            }
        }
        std::thread::sleep(std::time::Duration::from_micros(200));
    }
    false
}
fn errno_of(r: &Result<(), rusl::Error>) -> i64 {
    match r {
        Ok(()) => 0,
        Err(e) => -i64::from(e.code.map_or(9999, rusl::error::Errno::raw)),
    }
}

/// FutexSys scenarios: rusl::futex::{futex_wait, futex_wake} against the kernel, reported as
/// machine-level facts (word, expected value, number parked, result) for the judge.
/// `scale` multiplies every wall-clock allowance (re-confirmation runs on a loaded machine).
fn futex_scenarios(out: &mut impl Write, scale: u64) {
    use rusl::futex::{futex_wait, futex_wake};
    use rusl::platform::{FutexFlags, TimeSpec};
    use std::sync::atomic::AtomicI32;
    // 1. value mismatch: EAGAIN at once
    let w = CoreAtomicU32::new(5);
    let r = futex_wait(&w, 6, FutexFlags::PRIVATE, None);
    writeln!(out, "{{\"ev\":\"fwait\",\"sc\":\"mismatch\",\"word\":5,\"exp\":6,\"timeout\":false,\"res\":{}}}", errno_of(&r)).unwrap();
    // 2. wake with nobody parked
    let r = futex_wake(&w, 1).map_or(-1, |n| n as i64);
    writeln!(out, "{{\"ev\":\"fwake\",\"sc\":\"nobody\",\"n\":1,\"parked\":0,\"res\":{r}}}").unwrap();
    // 3. timeout on a matching value
    let r = futex_wait(&w, 5, FutexFlags::PRIVATE, Some(TimeSpec::new(0, 2_000_000)));
    writeln!(out, "{{\"ev\":\"fwait\",\"sc\":\"timeout\",\"word\":5,\"exp\":5,\"timeout\":true,\"res\":{}}}", errno_of(&r)).unwrap();
    // 4. k waiters parked, wake(n): returns min(n, k), exactly that many return
    for (k, n) in [(1usize, 1i32), (2, 1), (3, 2), (2, i32::MAX)] {
        let word = Arc::new(CoreAtomicU32::new(7));
        let tids: Arc<Vec<AtomicI32>> = Arc::new((0..k).map(|_| AtomicI32::new(0)).collect());
        let returned = Arc::new(CoreAtomicU32::new(0));
        let mut hs = Vec::new();
        for i in 0..k {
            let (word, tids, returned) = (word.clone(), tids.clone(), returned.clone());
            hs.push(std::thread::spawn(move || {
                tids[i].store(unsafe { libc::syscall(libc::SYS_gettid) } as i32, Ordering::SeqCst);
                // every wait of the scenarios carries a long timeout so that a broken wake cannot hang the driver
                let mut res;
                loop {
                    res = errno_of(&futex_wait(&word, 7, FutexFlags::PRIVATE, Some(TimeSpec::new(60 * scale as i64, 0))));
                    if res != -i64::from(EINTR) {
                        break;
                    }
                }
                returned.fetch_add(1, Ordering::SeqCst);
                res
            }));
        }
        let mut all = true;
        for t in tids.iter() {
            all &= wait_until_parked(t, scale);
        }
        let r = futex_wake(&word, n).map_or(-1, |x| x as i64);
        // the woken threads need time to come back (up to 15 s on a loaded machine), then a
        // grace period during which nobody else may return
        for _ in 0..15000 * scale {
            if i64::from(returned.load(Ordering::SeqCst)) >= r {
                break;
            }
            std::thread::sleep(std::time::Duration::from_millis(1));
        }
        std::thread::sleep(std::time::Duration::from_millis(25));
        let back = returned.load(Ordering::SeqCst);
        writeln!(
            out,
            "{{\"ev\":\"fwake\",\"sc\":\"parked\",\"n\":{n},\"parked\":{k},\"all_parked\":{all},\"res\":{r},\"returned\":{back}}}"
        )
        .unwrap();
        // let the rest go: change the word, wake everybody
        word.store(8, Ordering::SeqCst);
        let _ = futex_wake(&word, i32::MAX);
        for h in hs {
            let res = h.join().unwrap_or(-9999);
            writeln!(out, "{{\"ev\":\"fwait\",\"sc\":\"woken\",\"word\":7,\"exp\":7,\"timeout\":true,\"res\":{res}}}").unwrap();
        }
    }
    // 5. wake before sleep: the word has moved on, the late waiter must not sleep
    let w = CoreAtomicU32::new(1);
    w.store(2, Ordering::SeqCst);
    let _ = futex_wake(&w, 1);
    let r = futex_wait(&w, 1, FutexFlags::PRIVATE, Some(TimeSpec::new(3, 0)));
    writeln!(out, "{{\"ev\":\"fwait\",\"sc\":\"late\",\"word\":2,\"exp\":1,\"timeout\":true,\"res\":{}}}", errno_of(&r)).unwrap();
}

/// Free-running stress of the real lock on the real futex: every critical section takes two
/// tickets from a global counter while it is inside (after acquiring, before releasing) and
/// reads (write sections: increments) the protected counter.
fn mode_real(path: &str) {
    let v: Value = serde_json::from_str(&std::fs::read_to_string(path).expect("spec")).expect("spec json");
    let rw = v.get("kind").and_then(Value::as_str) == Some("rwlock");
    let threads = v.get("threads").and_then(Value::as_u64).unwrap_or(4) as usize;
    let sections = v.get("sections").and_then(Value::as_u64).unwrap_or(1000) as usize;
    let read_pct = v.get("read_pct").and_then(Value::as_u64).unwrap_or(60);
    let try_pct = v.get("try_pct").and_then(Value::as_u64).unwrap_or(10);
    let seed = v.get("seed").and_then(Value::as_u64).unwrap_or_else(vharness::seed);
    let stdout = std::io::stdout();
    let mut out = std::io::BufWriter::with_capacity(1 << 20, stdout.lock());
    if v.get("scenarios").and_then(Value::as_bool).unwrap_or(true) {
        futex_scenarios(&mut out, v.get("wait_scale").and_then(Value::as_u64).unwrap_or(1).max(1));
    }
    let lock = Arc::new(if rw { LockObj::R(RwLock::new(Data(0))) } else { LockObj::M(Mutex::default()) });
    let ticket = Arc::new(std::sync::atomic::AtomicU64::new(0));
    let progress = Arc::new(std::sync::atomic::AtomicU64::new(0));
    let finished = Arc::new(CoreAtomicU32::new(0));
    let results: Arc<StdMutex<Vec<String>>> = Arc::new(StdMutex::new(Vec::new()));
    let panics = Arc::new(CoreAtomicU32::new(0));
    let mut hs = Vec::new();
    for t in 1..=threads {
        let (lock, ticket, progress, finished, results) = (lock.clone(), ticket.clone(), progress.clone(), finished.clone(), results.clone());
        let panics = panics.clone();
        hs.push(std::thread::spawn(move || {
          let fin2 = finished.clone();
          let r = std::panic::catch_unwind(std::panic::AssertUnwindSafe(move || {
            let mut rng = Rng::new(seed.wrapping_mul(7919).wrapping_add(t as u64));
            let mut mine = Vec::with_capacity(sections);
            for _ in 0..sections {
                let read = rw && rng.below(100) < read_pct;
                let tr = rng.below(100) < try_pct;
                let (e, x, val);
                match &*lock {
                    LockObj::M(m) => {
                        let mut g = if tr {
                            loop {
                                if let Some(g) = m.try_lock() {
                                    break g;
                                }
                                std::thread::yield_now();
                            }
                        } else {
                            m.lock()
                        };
                        e = ticket.fetch_add(1, Ordering::SeqCst);
                        val = g.0;
                        g.0 = val + 1;
                        if rng.below(8) == 0 {
                            std::thread::yield_now();
                        }
                        x = ticket.fetch_add(1, Ordering::SeqCst);
                        drop(g);
                    }
                    LockObj::R(r) => {
                        if read {
                            let g = if tr {
                                loop {
                                    if let Some(g) = r.try_read() {
                                        break g;
                                    }
                                    std::thread::yield_now();
                                }
                            } else {
                                r.read()
                            };
                            e = ticket.fetch_add(1, Ordering::SeqCst);
                            val = g.0;
                            if rng.below(4) == 0 {
                                std::thread::yield_now();
                            }
                            x = ticket.fetch_add(1, Ordering::SeqCst);
                            drop(g);
                        } else {
                            let mut g = if tr {
                                loop {
                                    if let Some(g) = r.try_write() {
                                        break g;
                                    }
                                    std::thread::yield_now();
                                }
                            } else {
                                r.write()
                            };
                            e = ticket.fetch_add(1, Ordering::SeqCst);
                            val = g.0;
                            g.0 = val + 1;
                            if rng.below(8) == 0 {
                                std::thread::yield_now();
                            }
                            x = ticket.fetch_add(1, Ordering::SeqCst);
                            drop(g);
                        }
                    }
                }
                progress.fetch_add(1, Ordering::Relaxed);
                mine.push(format!(
                    "{{\"ev\":\"sec\",\"t\":{t},\"k\":\"{}\",\"e\":{e},\"x\":{x},\"v\":{val}}}",
                    if read { "r" } else { "w" }
                ));
            }
            results.lock().unwrap().extend(mine);
            finished.fetch_add(1, Ordering::SeqCst);
          }));
          if r.is_err() {
              // a panic of the code under test is data: the thread counts as finished, the end event says so
              panics.fetch_add(1, Ordering::SeqCst);
              fin2.fetch_add(1, Ordering::SeqCst);
          }
        }));
    }
    // watchdog: no section completed for `watchdog_s` (default 20 s) while threads are still inside = hang
    let idle_limit = (v.get("watchdog_s").and_then(Value::as_f64).unwrap_or(20.0) * 10.0) as u64;
    let mut last = 0;
    let mut idle = 0;
    let mut hang = false;
    while (finished.load(Ordering::SeqCst) as usize) < threads {
        std::thread::sleep(std::time::Duration::from_millis(100));
        let p = progress.load(Ordering::Relaxed);
        if p == last {
            idle += 1;
            if idle > idle_limit {
                hang = true;
                break;
            }
        } else {
            idle = 0;
            last = p;
        }
    }
    if hang {
        let done = progress.load(Ordering::Relaxed);
        for l in results.lock().unwrap().iter() {
            writeln!(out, "{l}").unwrap();
        }
        writeln!(
            out,
            "{{\"ev\":\"stress_end\",\"hang\":true,\"panics\":{},\"threads\":{threads},\"sections\":{sections},\"completed\":{done},\"finished_threads\":{}}}",
            panics.load(Ordering::SeqCst),
            finished.load(Ordering::SeqCst)
        )
        .unwrap();
        out.flush().unwrap();
        std::process::exit(0); // the stuck threads cannot be joined
    }
    for h in hs {
        let _ = h.join();
    }
    for l in results.lock().unwrap().iter() {
        writeln!(out, "{l}").unwrap();
    }
    let np = panics.load(Ordering::SeqCst);
    let fin = if np > 0 {
        0 // a panicked holder may have left the lock taken: do not touch it again
    } else {
        match &*lock {
            LockObj::M(m) => m.lock().0,
            LockObj::R(r) => r.read().0,
        }
    };
    writeln!(
        out,
        "{{\"ev\":\"stress_end\",\"hang\":false,\"panics\":{np},\"threads\":{threads},\"sections\":{sections},\"completed\":{},\"final\":{fin}}}",
        progress.load(Ordering::Relaxed)
    )
    .unwrap();
    out.flush().unwrap();
}

fn main() {
    let args: Vec<String> = std::env::args().collect();
    if args.len() < 3 {
        eprintln!("usage: sched replay|explore|random|real <file>");
        std::process::exit(2);
    }
    std::panic::set_hook(Box::new(|_| {}));
    let _ = CTL.set(Ctl {
        m: StdMutex::new(Shared {
            th: Vec::new(),
            log: Vec::new(),
            abort: false,
            range: (0, 0),
            locs: Vec::new(),
            queues: Vec::new(),
            to_release: Vec::new(),
            rw: false,
            step: -1,
            snapshots: false,
            chooser: None,
            budgets: Budgets { spur: 0, eintr: 0, weak: 0, timeouts: 0 },
            max_steps: 0,
            follow_len: 0,
            sched: Vec::new(),
            last: None,
            stepno: 0,
            diverged: None,
            cut: false,
            started: 0,
            nthreads: 0,
            run_over: true,
            timed_seen: 0,
        }),
        flags: std::array::from_fn(|_| CoreAtomicU32::new(0)),
    });
    match args[1].as_str() {
        "replay" => {
            verif::install(&HOOKS);
            mode_replay(&args[2]);
        }
        "explore" => {
            verif::install(&HOOKS);
            mode_explore(&args[2]);
        }
        "random" => {
            verif::install(&HOOKS);
            mode_random(&args[2]);
        }
        "cover" => {
            verif::install(&HOOKS);
            mode_cover(&args[2]);
        }
        "hold" => {
            verif::install(&HOOKS);
            mode_hold(&args[2]);
        }
        "real" => mode_real(&args[2]),
        _ => {
            eprintln!("unknown mode");
            std::process::exit(2);
        }
    }
}
