//! C15 driver: runs the real tiny_std::io helpers (read_to_end, read_to_string, read_exact,
//! write_all, write_fmt) against SCRIPTED readers / writers and records, per case, the call log
//! (requested/offered length, response kind, count) and the outcome (error class, returned
//! count, final buffer / sink, bytes taken from the reader, final capacity).
//!
//! usage: iohelp run <cases.ndjson>      one JSON line per case on stdout
//!        iohelp pipe <seed> <rounds>    the helpers on a tiny_std File over a kernel pipe, real EINTR / short transfers
//!        iohelp print <seed> <rounds>   the print macros' writer path (unix/print.rs), see print_path
//!
//! case: {"op":..,"script":[{"t":..,"k":..}],"data":[..],"init":[..],"cap0":N,"n":N,"pieces":[..],
//!        "ff":1 (optional, write_fmt: the Display impl fails after its last fragment)}
//! Scripted reader: "c" k = a chunk of k bytes becomes available (a call gets min(k, requested),
//! the rest is served by the following calls), "eof" = Ok(0), "eintr" (k > 1: k EINTRs in a row; the log
//! holds one entry (len, "eintr", count) per item), "err" k = errno k; an
//! exhausted script is end of file.  After end of file / an error has been returned the reader
//! serves POISON (3 x up to 7 bytes 0xEE, then Ok(0)): a helper that keeps reading shows it in its
//! result.  Scripted writer: "a" k accepts min(k, offered), "zero" = Ok(0), "eintr", "err" k;
//! exhausted script accepts everything; after an error everything is accepted (and is
//! visible in the sink as surplus).
use std::io::BufRead;
use tiny_std::io::{Read, Write};
use vharness::{guarded, json, quiet_panics, Out, Value};

type TResult<T> = core::result::Result<T, tiny_std::Error>;

#[derive(Clone)]
struct Item {
    t: String,
    k: usize,
}

fn os_err(code: i32) -> tiny_std::Error {
    tiny_std::Error::Os {
        msg: "scripted",
        code: rusl::error::Errno::new(code),
    }
}
const EINTR: i32 = 4;

struct Scripted {
    script: Vec<Item>,
    data: Vec<u8>,
    ri: usize,
    left: usize,
    pos: usize,
    term: bool,
    after: usize,
    ncalls: usize,
    eintr_left: usize,
    eintr_item: usize,
    calls: Vec<(usize, &'static str, i64)>,
    sink: Vec<u8>,
}
impl Scripted {
    fn new(script: Vec<Item>, data: Vec<u8>) -> Self {
        Scripted { script, data, ri: 0, left: 0, pos: 0, term: false, after: 0, ncalls: 0, eintr_left: 0, eintr_item: usize::MAX, calls: vec![], sink: vec![] }
    }
    fn tick(&mut self) {
        self.ncalls += 1;
        assert!(self.ncalls <= 60_000, "runaway: more than 60000 calls");
    }
    /// one EINTR of the run of item `item`; the log holds ONE entry per item: (len, "eintr", how many)
    fn log_eintr(&mut self, item: usize, len: usize) {
        if self.eintr_item == item {
            if let Some(last) = self.calls.last_mut() {
                if last.1 == "eintr" && last.0 == len {
                    last.2 += 1;
                    return;
                }
            }
        }
        self.eintr_item = item;
        self.calls.push((len, "eintr", 1));
    }
    fn deliver(&mut self, buf: &mut [u8], n: usize) {
        buf[..n].copy_from_slice(&self.data[self.pos..self.pos + n]);
        self.pos += n;
    }
}
impl Read for Scripted {
    fn read(&mut self, buf: &mut [u8]) -> TResult<usize> {
        self.tick();
        let req = buf.len();
        // A reader may look at the buffer it is handed (it is a &mut [u8], so it must be
        // initialised).  Branching on every byte makes memcheck (thorough tier: the driver is run
        // under valgrind) report a buffer that was never initialised.
        if buf.iter().fold(0u32, |a, b| a.wrapping_mul(31).wrapping_add(u32::from(*b))) == 0xDEAD_BEEF {
            self.after += 0;
        }
        if req == 0 {
            self.calls.push((0, "zreq", 0));
            return Ok(0);
        }
        if self.term {
            self.after += 1;
            let n = if self.after <= 3 { req.min(7) } else { 0 };
            for b in &mut buf[..n] {
                *b = 0xEE;
            }
            self.calls.push((req, "after", n as i64));
            return Ok(n);
        }
        if self.eintr_left > 0 {
            self.eintr_left -= 1;
            self.log_eintr(self.ri - 1, req);
            return Err(os_err(EINTR));
        }
        if self.left > 0 {
            let n = self.left.min(req);
            self.deliver(buf, n);
            self.left -= n;
            self.calls.push((req, "data", n as i64));
            return Ok(n);
        }
        if self.ri >= self.script.len() {
            self.term = true;
            self.calls.push((req, "eof", 0));
            return Ok(0);
        }
        let it = self.script[self.ri].clone();
        self.ri += 1;
        match it.t.as_str() {
            "c" => {
                let n = it.k.min(req);
                self.deliver(buf, n);
                self.left = it.k - n;
                self.calls.push((req, "data", n as i64));
                Ok(n)
            }
            "eof" => {
                self.term = true;
                self.calls.push((req, "eof", 0));
                Ok(0)
            }
            "eintr" => {
                // k > 1: a run of k consecutive EINTRs
                self.eintr_left = it.k.max(1) - 1;
                self.log_eintr(self.ri - 1, req);
                Err(os_err(EINTR))
            }
            "err" => {
                self.term = true;
                self.calls.push((req, "err", it.k as i64));
                Err(os_err(it.k as i32))
            }
            other => panic!("harness: unknown reader item {other}"),
        }
    }
}
impl Write for Scripted {
    fn write(&mut self, buf: &[u8]) -> TResult<usize> {
        self.tick();
        let m = buf.len();
        if m == 0 {
            self.calls.push((0, "zreq", 0));
            return Ok(0);
        }
        if self.term {
            self.sink.extend_from_slice(buf);
            self.calls.push((m, "after", m as i64));
            return Ok(m);
        }
        if self.eintr_left > 0 {
            self.eintr_left -= 1;
            self.log_eintr(self.ri - 1, m);
            return Err(os_err(EINTR));
        }
        if self.ri >= self.script.len() {
            self.sink.extend_from_slice(buf);
            self.pos += m;
            self.calls.push((m, "acc", m as i64));
            return Ok(m);
        }
        let it = self.script[self.ri].clone();
        self.ri += 1;
        match it.t.as_str() {
            "a" => {
                let n = it.k.min(m);
                self.sink.extend_from_slice(&buf[..n]);
                self.pos += n;
                self.calls.push((m, "acc", n as i64));
                Ok(n)
            }
            "zero" => {
                // not terminal for the writer: an implementation that tries again is served the
                // rest of the script
                self.calls.push((m, "zero", 0));
                Ok(0)
            }
            "eintr" => {
                self.eintr_left = it.k.max(1) - 1;
                self.log_eintr(self.ri - 1, m);
                Err(os_err(EINTR))
            }
            "err" => {
                self.term = true;
                self.calls.push((m, "err", it.k as i64));
                Err(os_err(it.k as i32))
            }
            other => panic!("harness: unknown writer item {other}"),
        }
    }
    fn flush(&mut self) -> TResult<()> {
        Ok(())
    }
}

fn err_class<T>(r: &TResult<T>) -> i64 {
    match r {
        Ok(_) => 0,
        Err(tiny_std::Error::Os { code, .. }) => i64::from(code.raw()),
        Err(_) => -1,
    }
}

fn bytes_of(v: &Value) -> Vec<u8> {
    v.as_array().map(|a| a.iter().map(|x| x.as_u64().unwrap() as u8).collect()).unwrap_or_default()
}
fn items_of(v: &Value) -> Vec<Item> {
    v.as_array()
        .unwrap()
        .iter()
        .map(|x| Item { t: x["t"].as_str().unwrap().to_string(), k: x["k"].as_u64().unwrap() as usize })
        .collect()
}

/// Display impl that hands its fragments to the formatter one by one (each becomes one
/// Adapter::write_str -> write_all); optionally fails before fragment `fail_at`.
struct Pieces<'a> {
    frags: Vec<&'a str>,
    fail_at: Option<usize>,
}
impl core::fmt::Display for Pieces<'_> {
    fn fmt(&self, f: &mut core::fmt::Formatter<'_>) -> core::fmt::Result {
        for (i, p) in self.frags.iter().enumerate() {
            if self.fail_at == Some(i) {
                return Err(core::fmt::Error);
            }
            f.write_str(p)?;
        }
        if self.fail_at == Some(self.frags.len()) {
            return Err(core::fmt::Error);
        }
        Ok(())
    }
}

/// A Display impl that itself formats (nested write!): the adapter's write_fmt entry point.
struct Nested(char, u32);
impl core::fmt::Display for Nested {
    fn fmt(&self, f: &mut core::fmt::Formatter<'_>) -> core::fmt::Result {
        write!(f, "[{}-{:é>3}]", self.0, self.1)?;
        f.write_fmt(format_args!("<{:?}>", self.0))
    }
}

/// The format_args! universes of op "write_fmt" with a "fmtid": together they reach every
/// core::fmt::Write entry point of write_fmt's adapter - write_str (literal pieces, str/int
/// arguments), write_char (char arguments with {} and {:?}, fill characters of padded formats,
/// escape paths of {:?}) and nested write_fmt - with characters of every UTF-8 length class
/// ('a', U+00E9, U+00FF, U+0100, CJK, emoji); 18.. are literal-only format strings.
const NFMT: usize = 23;
fn with_args(id: usize, f: &mut dyn FnMut(core::fmt::Arguments<'_>)) {
    match id {
        0 => f(format_args!("{}", 'a')),
        1 => f(format_args!("{}", 'é')),
        2 => f(format_args!("{}", 'ÿ')),
        3 => f(format_args!("{}", 'Ā')),
        4 => f(format_args!("{}", '日')),
        5 => f(format_args!("{}", '😀')),
        6 => f(format_args!("{:?}", 'é')),
        7 => f(format_args!("{:?}", "aé\n\u{ff}\u{80}")),
        8 => f(format_args!("{:é<5}", 7)),
        9 => f(format_args!("{:→^7}", "ab")),
        10 => f(format_args!("{:ÿ>4}|{:😀<3}", 'x', 1)),
        11 => f(format_args!("{}{}{}", 'ÿ', "ÿ", 'ÿ')),
        12 => f(format_args!("{}", Nested('ÿ', 5))),
        13 => f(format_args!("{:>6}", 'é')),
        14 => f(format_args!("{:#?}", ('é', "ÿ"))),
        15 => f(format_args!("{:5}|{:<5}|{:^5}", 'ÿ', 'Ā', '😀')),
        16 => f(format_args!("x{}y{:\u{80}>3}z{}", '\u{80}', 1, Nested('é', 12345))),
        17 => f(format_args!("{:?}|{:?}|{:08.3}|{:+}", '\u{ff}', Some('Ā'), 3.14159f64, 7)),
        // literal-only format strings (Arguments::as_str() is Some: an implementation may bypass the
        // formatting machinery for them)
        18 => f(format_args!("a literal without arguments")),
        19 => f(format_args!("{{braces}} and é ÿ 日 😀")),
        20 => f(format_args!("{}", "lit")),
        21 => f(format_args!("x")),
        _ => f(format_args!("")),
    }
}
/// Independent oracle: core's own formatting machinery into a recording sink (default write_char =
/// encode_utf8 + write_str): the bytes write_fmt must deliver and the fragments it hands to write_all.
#[derive(Default)]
struct Recorder {
    data: Vec<u8>,
    frags: Vec<usize>,
}
impl core::fmt::Write for Recorder {
    fn write_str(&mut self, s: &str) -> core::fmt::Result {
        self.data.extend_from_slice(s.as_bytes());
        self.frags.push(s.len());
        Ok(())
    }
}

fn run_case(c: &Value) -> Value {
    let op = c["op"].as_str().unwrap().to_string();
    let script = items_of(&c["script"]);
    let data = bytes_of(&c["data"]);
    let init = bytes_of(&c["init"]);
    let cap0 = c["cap0"].as_u64().unwrap_or(0) as usize;
    let n = c["n"].as_u64().unwrap_or(0) as usize;
    let fmtid = c.get("fmtid").and_then(Value::as_u64).map(|x| x as usize);
    let mut fmt_pieces: Vec<usize> = vec![];
    let data = if let Some(id) = fmtid {
        let mut rec = Recorder::default();
        with_args(id, &mut |a| core::fmt::write(&mut rec, a).expect("harness: recorder"));
        let mut expect = String::new();
        with_args(id, &mut |a| expect = std::fmt::format(a));
        assert!(expect.as_bytes() == rec.data.as_slice(), "harness: recorder and format! disagree");
        fmt_pieces = rec.frags;
        rec.data
    } else {
        data
    };
    let mut s = Scripted::new(script, data.clone());
    // outcome: (err class, returned count, final buffer, final capacity, start capacity as allocated)
    let out = guarded(|| -> (i64, i64, Vec<u8>, usize, usize) {
        match op.as_str() {
            "read_to_end" => {
                let mut v: Vec<u8> = Vec::with_capacity(cap0);
                v.extend_from_slice(&init);
                let c0 = v.capacity();
                let r = s.read_to_end(&mut v);
                let cap = v.capacity();
                (err_class(&r), r.map(|x| x as i64).unwrap_or(0), v, cap, c0)
            }
            "read_to_string" => {
                let mut st = String::with_capacity(cap0);
                st.push_str(core::str::from_utf8(&init).expect("harness: init must be UTF-8"));
                let c0 = st.capacity();
                let r = s.read_to_string(&mut st);
                let cap = st.capacity();
                // the bytes as they are (a String that is not UTF-8 is exactly what must not happen)
                (err_class(&r), r.map(|x| x as i64).unwrap_or(0), st.as_bytes().to_vec(), cap, c0)
            }
            "read_exact" => {
                let mut b = vec![0xAAu8; n];
                let r = s.read_exact(&mut b);
                (err_class(&r), 0, b, n, n)
            }
            "write_all" => {
                let r = s.write_all(&data);
                (err_class(&r), 0, vec![], 0, 0)
            }
            "write_fmt" if fmtid.is_some() => {
                let mut r = Ok(());
                with_args(fmtid.unwrap(), &mut |a| r = s.write_fmt(a));
                (err_class(&r), 0, vec![], 0, 0)
            }
            "write_fmt" => {
                let mut frags = vec![];
                let mut o = 0usize;
                for p in c["pieces"].as_array().unwrap() {
                    let l = p.as_u64().unwrap() as usize;
                    frags.push(core::str::from_utf8(&data[o..o + l]).expect("harness: write_fmt data must be UTF-8"));
                    o += l;
                }
                // ff = 1: the Display impl reports an error after its last fragment
                let fail_at = if c.get("ff").and_then(Value::as_u64) == Some(1) { Some(frags.len()) } else { None };
                let p = Pieces { frags, fail_at };
                let r = s.write_fmt(format_args!("{p}"));
                (err_class(&r), 0, vec![], 0, 0)
            }
            other => panic!("harness: unknown op {other}"),
        }
    });
    let calls: Vec<Value> = s.calls.iter().map(|(a, k, m)| json!([a, k, m])).collect();
    let is_write = op.starts_with("write");
    let mut res = match out {
        Ok((err, rn, buf, cap, c0)) => json!({
            "calls": calls, "err": err, "rn": rn,
            "buf": if is_write { s.sink.clone() } else { buf },
            "pos": s.pos, "cap": cap, "cap_start": c0, "panic": Value::Null,
        }),
        Err(msg) => json!({
            "calls": calls, "err": -2, "rn": 0, "buf": if is_write { s.sink.clone() } else { vec![] },
            "pos": s.pos, "cap": 0, "cap_start": 0, "panic": msg,
        }),
    };
    if fmtid.is_some() {
        // what core's formatting produces for these arguments: the check puts it into the case
        res["data"] = json!(data);
        res["pieces"] = json!(fmt_pieces);
    }
    res
}

// ------------------------------------------------------------------------------------------
// unix/print.rs: print!/println! and the writer behind them (__UnixWriter -> try_print ->
// write(2) on fd 1).  fd 1 is pointed at a small pipe that a slow thread drains; a signal
// (handler without SA_RESTART) arriving while the write blocks makes write(2) return SHORT
// (some bytes already in the pipe) or fail with EINTR (none).  Observed: what the pipe received
// and, for the direct call, whether fmt::Write::write_fmt reported an error.
extern "C" fn on_sig(_s: i32) {}

fn pattern(len: usize, salt: usize) -> String {
    (0..len).map(|i| (b'!' + ((i * 7 + i / 89 + salt) % 90) as u8) as char).collect()
}

fn print_path(seed: u64, rounds: usize) {
    use std::sync::atomic::{AtomicBool, Ordering};
    use std::sync::Arc;
    let mut rng = vharness::Rng::new(seed);
    unsafe {
        let mut sa: libc::sigaction = core::mem::zeroed();
        sa.sa_sigaction = on_sig as usize;
        sa.sa_flags = 0;
        libc::sigaction(libc::SIGUSR1, &sa, core::ptr::null_mut());
    }
    let saved = unsafe { libc::dup(1) };
    let saved2 = unsafe { libc::dup(2) };
    assert!(saved >= 0 && saved2 >= 0);
    unsafe { libc::signal(libc::SIGPIPE, libc::SIG_IGN) };
    let me = unsafe { libc::pthread_self() } as usize;
    let mut results: Vec<Value> = vec![];
    // stdout: the writer directly, print!, println!, println!(); stderr: the writer, eprint!,
    // eprintln!, eprintln!(), dbg!(value)
    let kinds = ["direct", "print", "println", "println0", "edirect", "eprint", "eprintln", "eprintln0", "dbg", "dbg0", "dbg2",
        "printc", "eprintc", "printlit", "eprintlit"];
    let lens = [0usize, 1, 5, 4095, 4096, 4097, 9000, 20000, 70000];
    let mut idx = 0usize;
    for round in 0..rounds {
        for &len in &lens {
            for kind in kinds {
                if ((kind.ends_with("ln0") || kind == "dbg0" || kind == "dbg2" || kind.ends_with("printc") || kind.ends_with("printlit")) && len != 0) || (kind == "dbg" && len > 9000) {
                    continue;
                }
                let fd = if kind.starts_with('e') || kind.starts_with("dbg") { 2 } else { 1 };
                idx += 1;
                let msg = pattern(len, idx);
                // signals: none / one after a random delay / a burst
                let sigmode = if len < 4096 { 0 } else { (round + idx) % 3 };
                let mut fds = [0i32; 2];
                unsafe {
                    assert_eq!(0, libc::pipe(fds.as_mut_ptr()));
                    libc::fcntl(fds[1], libc::F_SETPIPE_SZ, 4096);
                    assert!(libc::dup2(fds[1], fd) == fd);
                    libc::close(fds[1]);
                }
                // the OTHER standard descriptor goes to a second pipe: whatever the macro writes there
                // went to the wrong place ("stray")
                let other = 3 - fd;
                let mut sfds = [0i32; 2];
                unsafe {
                    assert_eq!(0, libc::pipe(sfds.as_mut_ptr()));
                    assert!(libc::dup2(sfds[1], other) == other);
                    libc::close(sfds[1]);
                }
                let srfd = sfds[0];
                let stray_reader = std::thread::spawn(move || {
                    let mut n = 0usize;
                    let mut buf = [0u8; 4096];
                    loop {
                        let r = unsafe { libc::read(srfd, buf.as_mut_ptr().cast(), buf.len()) };
                        if r <= 0 {
                            break;
                        }
                        n += r as usize;
                    }
                    unsafe { libc::close(srfd) };
                    n
                });
                let rfd = fds[0];
                let cap = 3 * len + 65536;
                let reader = std::thread::spawn(move || {
                    let mut got: Vec<u8> = vec![];
                    let mut buf = [0u8; 1500];
                    loop {
                        let n = unsafe { libc::read(rfd, buf.as_mut_ptr().cast(), buf.len()) };
                        if n <= 0 {
                            break;
                        }
                        got.extend_from_slice(&buf[..n as usize]);
                        if got.len() > cap {
                            break; // a writer that never stops: closing the pipe ends it with EPIPE
                        }
                        std::thread::sleep(std::time::Duration::from_micros(40));
                    }
                    unsafe { libc::close(rfd) };
                    got
                });
                let done = Arc::new(AtomicBool::new(false));
                let delay = 30 + rng.below(600);
                let sig = if sigmode > 0 {
                    let done = done.clone();
                    Some(std::thread::spawn(move || {
                        let mut fired = 0u32;
                        std::thread::sleep(std::time::Duration::from_micros(delay));
                        loop {
                            if done.load(Ordering::SeqCst) {
                                break;
                            }
                            unsafe { libc::pthread_kill(me as libc::pthread_t, libc::SIGUSR1) };
                            fired += 1;
                            if sigmode == 1 {
                                break;
                            }
                            std::thread::sleep(std::time::Duration::from_micros(120));
                        }
                        fired
                    }))
                } else {
                    None
                };
                let h = len / 3;
                let (expect, ok): (String, Option<bool>) = match kind {
                    "direct" => {
                        let mut w = tiny_std::unix::print::__STDOUT_WRITER;
                        let r = core::fmt::Write::write_fmt(&mut w, format_args!("{}{}", &msg[..h], &msg[h..]));
                        (msg.clone(), Some(r.is_ok()))
                    }
                    "print" => {
                        tiny_std::print!("{}{}", &msg[..h], &msg[h..]);
                        (msg.clone(), None)
                    }
                    "println" => {
                        tiny_std::println!("{}", msg);
                        (format!("{msg}\n"), None)
                    }
                    "println0" => {
                        tiny_std::println!();
                        ("\n".to_string(), None)
                    }
                    "edirect" => {
                        let mut w = tiny_std::unix::print::__STDERR_WRITER;
                        let r = core::fmt::Write::write_fmt(&mut w, format_args!("{}{}", &msg[..h], &msg[h..]));
                        (msg.clone(), Some(r.is_ok()))
                    }
                    "eprint" => {
                        tiny_std::eprint!("{}{}", &msg[..h], &msg[h..]);
                        (msg.clone(), None)
                    }
                    "eprintln" => {
                        tiny_std::eprintln!("{}", msg);
                        (format!("{msg}\n"), None)
                    }
                    "eprintln0" => {
                        tiny_std::eprintln!();
                        ("\n".to_string(), None)
                    }
                    "printlit" => {
                        // argument-free format strings through the macros
                        tiny_std::print!("a literal without arguments, {{braces}} é 日");
                        ("a literal without arguments, {braces} é 日".to_string(), None)
                    }
                    "eprintlit" => {
                        tiny_std::eprintln!("a literal without arguments, {{braces}} é 日");
                        ("a literal without arguments, {braces} é 日\n".to_string(), None)
                    }
                    "printc" => {
                        // char arguments, fill characters, {:?} escapes, nested formatting: __UnixWriter's
                        // write_char / write_fmt entry points; expected = what format! produces
                        tiny_std::println!("{}{:é<5}{:?}{:ÿ^4}{}", 'ÿ', 7, 'é', '\u{80}', Nested('Ā', 3));
                        (format!("{}{:é<5}{:?}{:ÿ^4}{}\n", 'ÿ', 7, 'é', '\u{80}', Nested('Ā', 3)), None)
                    }
                    "eprintc" => {
                        tiny_std::eprint!("{}{:é<5}{:?}{:ÿ^4}{}", 'ÿ', 7, 'é', '\u{80}', Nested('Ā', 3));
                        (format!("{}{:é<5}{:?}{:ÿ^4}{}", 'ÿ', 7, 'é', '\u{80}', Nested('Ā', 3)), None)
                    }
                    "dbg0" => {
                        // dbg!() prints "[file:line]\n"
                        #[rustfmt::skip]
                        let l = { tiny_std::dbg!(); line!() };
                        (format!("[{}:{}]\n", file!(), l), None)
                    }
                    "dbg2" => {
                        // dbg!(a, b) prints one line per value and returns the tuple
                        #[rustfmt::skip]
                        let (l, back) = (line!(), tiny_std::dbg!(len, idx));
                        let good = back == (len, idx);
                        (format!("[{f}:{l}] len = {len:#?}\n[{f}:{l}] idx = {idx:#?}\n{}", if good { "" } else { "\u{0}WRONG-RETURN" }, f = file!()), None)
                    }
                    _ => {
                        // dbg!(expr) prints "[file:line] expr = {:#?}\n" to stderr and returns the value
                        #[rustfmt::skip]
                        let (l, back) = (line!(), tiny_std::dbg!(msg.as_str()));
                        let good = back == msg.as_str();
                        (format!("[{}:{}] {} = {:#?}\n{}", file!(), l, "msg.as_str()", msg.as_str(), if good { "" } else { "\u{0}WRONG-RETURN" }), None)
                    }
                };
                done.store(true, Ordering::SeqCst);
                unsafe {
                    // drops the last write end of the pipe
                    assert!(libc::dup2(if fd == 1 { saved } else { saved2 }, fd) == fd);
                    assert!(libc::dup2(if other == 1 { saved } else { saved2 }, other) == other);
                }
                let stray = stray_reader.join().unwrap();
                let fired = sig.map(|h| h.join().unwrap()).unwrap_or(0);
                let got = reader.join().unwrap();
                // println!: the text and the newline are two writes; if the first is cut short by
                // an error (discarded by the macro) the newline may still follow the prefix
                let is_ln = kind.contains("println") || kind.starts_with("dbg") || kind == "printc" || kind == "eprintlit";
                let mut body: &[u8] = &got;
                let mut nl = false;
                if is_ln && body.last() == Some(&b'\n') {
                    nl = true;
                    body = &body[..body.len() - 1];
                }
                let e = if is_ln { &expect.as_bytes()[..expect.len() - 1] } else { expect.as_bytes() };
                let common = body.iter().zip(e.iter()).take_while(|(a, b)| a == b).count();
                let mismatch: i64 = if common == body.len().min(e.len()) && body.len() <= e.len() { -1 } else { common as i64 };
                results.push(json!({"op":"print","kind":kind,"len":e.len(),"rlen":body.len(),"mismatch":mismatch,"nl":nl,"ln":is_ln,"stray":stray,
                    "ok": match ok { Some(true) => 1, Some(false) => 0, None => 2 }, "signals": fired,
                    "head": &got[..got.len().min(24)]}));
            }
        }
    }
    let mut out = Out::new();
    for r in &results {
        out.ev(r);
    }
    out.flush();
}

// ------------------------------------------------------------------------------------------
// The helpers over a REAL descriptor: tiny_std::fs::File on a kernel pipe.  A peer thread feeds /
// drains the pipe in random small pieces with pauses while signals (handler without SA_RESTART)
// hit the calling thread, so read(2)/write(2) really return short counts and EINTR, and the
// errno travels through rusl::Error -> tiny_std::Error -> matches_errno(EINTR).  No other error
// can occur, so the helpers must succeed and move every byte.
fn pipe_path(seed: u64, rounds: usize) {
    use std::sync::atomic::{AtomicBool, Ordering};
    use std::sync::Arc;
    let mut rng = vharness::Rng::new(seed ^ 0x5eed);
    unsafe {
        let mut sa: libc::sigaction = core::mem::zeroed();
        sa.sa_sigaction = on_sig as usize;
        sa.sa_flags = 0;
        libc::sigaction(libc::SIGUSR1, &sa, core::ptr::null_mut());
    }
    unsafe { libc::signal(libc::SIGPIPE, libc::SIG_IGN) };
    let me = unsafe { libc::pthread_self() } as usize;
    let mut out = Out::new();
    let kinds = ["read_to_end", "read_to_string", "read_exact", "write_all", "write_fmt"];
    let lens = [0usize, 1, 31, 32, 33, 64, 1000, 5000, 40000];
    let mut idx = 0usize;
    for _round in 0..rounds {
        for &len in &lens {
            for kind in kinds {
                idx += 1;
                let text = pattern(len, idx);
                let stream: Vec<u8> = text.as_bytes().to_vec();
                let mut fds = [0i32; 2];
                unsafe {
                    assert_eq!(0, libc::pipe(fds.as_mut_ptr()));
                    libc::fcntl(fds[1], libc::F_SETPIPE_SZ, 4096);
                }
                let done = Arc::new(AtomicBool::new(false));
                let sig = {
                    let done = done.clone();
                    let period = 60 + rng.below(200);
                    std::thread::spawn(move || {
                        let mut fired = 0u32;
                        while !done.load(Ordering::SeqCst) {
                            std::thread::sleep(std::time::Duration::from_micros(period));
                            unsafe { libc::pthread_kill(me as libc::pthread_t, libc::SIGUSR1) };
                            fired += 1;
                        }
                        fired
                    })
                };
                let chunk_seed = rng.next();
                let is_read = kind.starts_with("read");
                let (ok, count, got): (bool, i64, Vec<u8>) = if is_read {
                    let wfd = fds[1];
                    let src = stream.clone();
                    let feeder = std::thread::spawn(move || {
                        let mut r = vharness::Rng::new(chunk_seed);
                        let mut o = 0usize;
                        while o < src.len() {
                            let m = *r.pick(&[1u64, 3, 33, 700, 5000]);
                            let n = (1 + r.below(m)) as usize;
                            let n = n.min(src.len() - o);
                            let w = unsafe { libc::write(wfd, src[o..].as_ptr().cast(), n) };
                            if w <= 0 {
                                break; // the reader under test gave up and closed its end
                            }
                            o += w as usize;
                            if r.below(3) == 0 {
                                std::thread::sleep(std::time::Duration::from_micros(30 + r.below(300)));
                            }
                        }
                        std::thread::sleep(std::time::Duration::from_micros(200));
                        unsafe { libc::close(wfd) };
                    });
                    let mut f = unsafe { tiny_std::fs::File::from_raw_fd(rusl::platform::Fd::try_new(fds[0]).unwrap()) };
                    let init = "init-é-";
                    let res = guarded(|| match kind {
                        "read_to_end" => {
                            let mut v = Vec::with_capacity(if len % 2 == 0 { init.len() } else { init.len() + len });
                            v.extend_from_slice(init.as_bytes());
                            let r = f.read_to_end(&mut v);
                            (r.is_ok(), r.map(|x| x as i64).unwrap_or(-1), v[init.len().min(v.len())..].to_vec())
                        }
                        "read_to_string" => {
                            let mut st = String::from(init);
                            let r = f.read_to_string(&mut st);
                            (r.is_ok(), r.map(|x| x as i64).unwrap_or(-1), st.as_bytes()[init.len().min(st.len())..].to_vec())
                        }
                        _ => {
                            let mut b = vec![0u8; len];
                            let r = f.read_exact(&mut b);
                            (r.is_ok(), len as i64, b)
                        }
                    });
                    drop(f); // closes the read end
                    feeder.join().unwrap();
                    res.unwrap_or((false, -2, vec![]))
                } else {
                    let rfd = fds[0];
                    let cap = 3 * len + 65536;
                    let drain = std::thread::spawn(move || {
                        let mut r = vharness::Rng::new(chunk_seed);
                        let mut got: Vec<u8> = vec![];
                        let mut buf = [0u8; 3000];
                        loop {
                            if got.len() > cap {
                                break; // runaway writer: closing the pipe ends it with EPIPE
                            }
                            let m = *r.pick(&[1u64, 40, 900, 3000]);
                            let want = (1 + r.below(m)) as usize;
                            let n = unsafe { libc::read(rfd, buf.as_mut_ptr().cast(), want.min(buf.len())) };
                            if n <= 0 {
                                break;
                            }
                            got.extend_from_slice(&buf[..n as usize]);
                            if r.below(3) == 0 {
                                std::thread::sleep(std::time::Duration::from_micros(30 + r.below(200)));
                            }
                        }
                        unsafe { libc::close(rfd) };
                        got
                    });
                    let mut f = unsafe { tiny_std::fs::File::from_raw_fd(rusl::platform::Fd::try_new(fds[1]).unwrap()) };
                    let res = guarded(|| match kind {
                        "write_all" => f.write_all(&stream).is_ok(),
                        _ => {
                            let h = len / 2;
                            f.write_fmt(format_args!("{}{}", &text[..h], &text[h..])).is_ok()
                        }
                    });
                    drop(f); // closes the write end -> the drain sees end of file
                    let got = drain.join().unwrap();
                    (res.unwrap_or(false), len as i64, got)
                };
                done.store(true, Ordering::SeqCst);
                let fired = sig.join().unwrap();
                let common = got.iter().zip(stream.iter()).take_while(|(a, b)| a == b).count();
                let mismatch: i64 = if got == stream { -1 } else { common as i64 };
                out.ev(&json!({"op":"pipe","kind":kind,"len":len,"rlen":got.len(),"mismatch":mismatch,
                    "ok": i32::from(ok), "count": count, "signals": fired}));
                out.flush(); // a later crash of the code under test must not lose this record
            }
        }
    }
    out.flush();
}

static CUR: std::sync::atomic::AtomicUsize = std::sync::atomic::AtomicUsize::new(0);
extern "C" fn on_crash(sig: i32) {
    let i = CUR.load(std::sync::atomic::Ordering::SeqCst);
    let msg = format!("\n{{\"crash\":{i},\"signal\":{sig}}}\n");
    unsafe {
        libc::write(1, msg.as_ptr().cast(), msg.len());
        libc::_exit(42);
    }
}

fn main() {
    quiet_panics();
    let args: Vec<String> = std::env::args().collect();
    let mut out = Out::new();
    match args.get(1).map(String::as_str) {
        Some("run") => {
            // run <cases> [skip]: a crash of the code under test (SIGSEGV & co.) is data: the handler
            // reports the index of the running case and exits 42; with IOHELP_FLUSH=1 every result is
            // flushed before the next case starts, so nothing before the crash is lost
            let skip: usize = args.get(3).and_then(|x| x.parse().ok()).unwrap_or(0);
            let flush = std::env::var("IOHELP_FLUSH").is_ok();
            unsafe {
                for sig in [libc::SIGSEGV, libc::SIGBUS, libc::SIGILL, libc::SIGABRT, libc::SIGFPE] {
                    libc::signal(sig, on_crash as usize);
                }
            }
            let f = std::io::BufReader::new(std::fs::File::open(&args[2]).expect("open cases"));
            for (i, line) in f.lines().enumerate() {
                let line = line.unwrap();
                if i < skip || line.trim().is_empty() {
                    continue;
                }
                CUR.store(i, std::sync::atomic::Ordering::SeqCst);
                let c: Value = serde_json::from_str(&line).expect("case json");
                let mut r = run_case(&c);
                r["i"] = json!(i);
                out.ev(&r);
                if flush {
                    out.flush();
                }
            }
        }
        Some("pipe") => {
            // a helper that spins forever on a real descriptor must not hang the check: SIGALRM kills
            // the driver (reported as a crash of the code under test)
            unsafe { libc::alarm((300 + 40 * args[3].parse::<u32>().unwrap_or(1)) * std::env::var("IOHELP_ALARM_SCALE").ok().and_then(|x| x.parse::<u32>().ok()).unwrap_or(1)) };
            pipe_path(args[2].parse().unwrap(), args[3].parse().unwrap());
            return;
        }
        Some("print") => {
            unsafe { libc::alarm((300 + 40 * args[3].parse::<u32>().unwrap_or(1)) * std::env::var("IOHELP_ALARM_SCALE").ok().and_then(|x| x.parse::<u32>().ok()).unwrap_or(1)) };
            print_path(args[2].parse().unwrap(), args[3].parse().unwrap());
            return;
        }
        _ => {
            eprintln!("usage: iohelp run <cases.ndjson> | print <seed> <rounds>");
            std::process::exit(2);
        }
    }
    out.flush();
}
