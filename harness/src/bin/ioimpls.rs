//! C15 driver: the Read/Write helpers on every CONCRETE implementor of tiny_std::io::{Read, Write}
//! (File, UnixStream, TcpStream, AnonPipe) - real objects, so that an implementor's own override
//! of read_to_end / read_to_string / read_exact / write_all / write_fmt is what runs.
//!
//! usage: ioimpls <scratch dir>       one JSON record per run on stdout (flushed per record)
//!
//! record: {"op":"impl","imp":..,"kind":..,"case":..,"len": expected bytes,"rlen": bytes that
//!          arrived,"mismatch": first difference (-1 none),"ok":0/1,"count": returned count (or len),
//!          "plan": 0 = must succeed with exactly these bytes, 1 = must fail (planned error),
//!                  2 = either (the peer went away while the payload still fitted its buffers),
//!          "hang":0/1 (no answer within LIMIT seconds), "panic": message or ""}
//! Files: positions 0 / middle / == len / > len, a file shortened by a second handle after a partial
//! read, /proc/self/status in two steps, /dev/null, an empty file; write_all / write_fmt into a file.
//! Streams (UnixStream and TcpStream pairs made by the library's own bind/connect/accept):
//! payloads 0, 1, sndbuf-1, sndbuf, 8 MiB x peer reads at once / starts 300 ms late / reads in
//! small chunks / closes early; and the reading direction with the peer writing likewise.
//! AnonPipe: the pipes of a spawned /bin/cat.
use std::sync::mpsc;
use std::sync::Arc;
use std::time::Duration;
use tiny_std::fs::{File, OpenOptions};
use tiny_std::io::{Read, Write};
use tiny_std::net::{Ip, SocketAddress, TcpListener, TcpStream, UnixListener, UnixStream};
use tiny_std::process::{Command, Stdio};
use tiny_std::unix::fd::AsRawFd;
use tiny_std::UnixString;
use vharness::{guarded, json, quiet_panics, Out, Value};

/// seconds a run may take before it is reported as a hang (IOIMPLS_LIMIT overrides; the check
/// re-runs a reported hang alone with a multiple of it before it believes it)
fn limit() -> u64 {
    std::env::var("IOIMPLS_LIMIT").ok().and_then(|x| x.parse().ok()).unwrap_or(10)
}
/// every run has an index (the order of the `timed` calls); with IOIMPLS_ONLY=<idx> only that one runs
static RUN_IDX: std::sync::atomic::AtomicUsize = std::sync::atomic::AtomicUsize::new(0);
static LAST_IDX: std::sync::atomic::AtomicUsize = std::sync::atomic::AtomicUsize::new(0);
fn only() -> Option<usize> {
    std::env::var("IOIMPLS_ONLY").ok().and_then(|x| x.parse().ok())
}

fn us(p: &str) -> UnixString {
    UnixString::try_from_str(p).expect("path")
}
fn pattern(len: usize, salt: usize) -> Vec<u8> {
    (0..len).map(|i| b'!' + ((i * 7 + i / 89 + salt) % 90) as u8).collect()
}

/// what one run of a helper observed
struct Obs {
    ok: bool,
    count: i64,
    got: Vec<u8>,
}
enum Run {
    Done(Obs),
    Panic(String),
    Hang,
    Skipped,
}
/// runs `f` on its own thread; no answer within LIMIT seconds is a hang (the thread is abandoned)
fn timed(f: impl FnOnce() -> Obs + Send + 'static) -> Run {
    let idx = RUN_IDX.fetch_add(1, std::sync::atomic::Ordering::SeqCst);
    LAST_IDX.store(idx, std::sync::atomic::Ordering::SeqCst);
    if only().is_some_and(|o| o != idx) {
        return Run::Skipped;
    }
    let (tx, rx) = mpsc::channel();
    std::thread::spawn(move || {
        let r = guarded(f);
        let _ = tx.send(r);
    });
    match rx.recv_timeout(Duration::from_secs(limit())) {
        Ok(Ok(o)) => Run::Done(o),
        Ok(Err(m)) => Run::Panic(m),
        Err(_) => Run::Hang,
    }
}

struct Sink {
    out: Out,
    hangs: std::collections::HashMap<(String, String), u32>,
}
impl Sink {
    /// after a hang of a helper on an implementor its remaining cells are skipped (their indices are
    /// still counted, so that an index means the same run in every invocation)
    fn gives_up(&self, imp: &str, kind: &str) -> bool {
        let g = self.hangs.get(&(imp.to_string(), kind.to_string())).copied().unwrap_or(0) >= 1;
        if g {
            RUN_IDX.fetch_add(1, std::sync::atomic::Ordering::SeqCst);
        }
        g
    }
    fn rec(&mut self, imp: &str, kind: &str, case: &str, expect: &[u8], plan: u8, run: Run, got_override: Option<Vec<u8>>) {
        if matches!(run, Run::Skipped) {
            return;
        }
        let (ok, count, got, hang, panic) = match run {
            Run::Done(o) => (o.ok, o.count, got_override.unwrap_or(o.got), 0, String::new()),
            Run::Panic(m) => (false, -2, vec![], 0, m),
            Run::Hang => {
                *self.hangs.entry((imp.to_string(), kind.to_string())).or_insert(0) += 1;
                (false, -3, vec![], 1, String::new())
            }
            Run::Skipped => unreachable!(),
        };
        let common = got.iter().zip(expect.iter()).take_while(|(a, b)| a == b).count();
        let mismatch: i64 = if got.as_slice() == expect { -1 } else { common as i64 };
        self.out.ev(&json!({"op":"impl","imp":imp,"kind":kind,"case":case,"len":expect.len(),"rlen":got.len(),
            "mismatch":mismatch,"ok":i32::from(ok),"count":count,"plan":plan,"hang":hang,"panic":panic,
            "idx":LAST_IDX.load(std::sync::atomic::Ordering::SeqCst),"limit_s":limit()}));
        self.out.flush();
    }
}

// ------------------------------------------------------------------------------------------ files
fn read_kind<R: Read>(r: &mut R, kind: &str, n: usize) -> Obs {
    match kind {
        "read_to_end" => {
            let mut v = Vec::new();
            let res = r.read_to_end(&mut v);
            Obs { ok: res.is_ok(), count: res.map(|x| x as i64).unwrap_or(-1), got: v }
        }
        "read_to_string" => {
            let mut s = String::new();
            let res = r.read_to_string(&mut s);
            Obs { ok: res.is_ok(), count: res.map(|x| x as i64).unwrap_or(-1), got: s.into_bytes() }
        }
        _ => {
            let mut b = vec![0u8; n];
            let res = r.read_exact(&mut b);
            Obs { ok: res.is_ok(), count: n as i64, got: if res.is_ok() { b } else { vec![] } }
        }
    }
}

fn file_cases(sink: &mut Sink, dir: &str) {
    let content = pattern(10_000, 3);
    let path = format!("{dir}/f1");
    std::fs::write(&path, &content).unwrap();
    for (case, pos) in [("pos=0", 0usize), ("pos=middle", 5_000), ("pos=len", 10_000), ("pos>len", 15_000)] {
        let expect: Vec<u8> = content[pos.min(content.len())..].to_vec();
        for kind in ["read_to_end", "read_to_string", "read_exact", "read_exact+1"] {
            let p = path.clone();
            let n = if kind == "read_exact+1" { expect.len() + 1 } else { expect.len() };
            let k = kind.trim_end_matches("+1").to_string();
            let run = timed(move || {
                let mut f = File::open(&us(&p)).expect("open");
                unsafe { libc::lseek(f.as_raw_fd().value(), pos as i64, libc::SEEK_SET) };
                read_kind(&mut f, &k, n)
            });
            if kind == "read_exact+1" {
                sink.rec("File", "read_exact", &format!("{case}, one byte more than is left"), &[], 1, run, Some(vec![]));
            } else {
                sink.rec("File", kind, case, &expect, 0, run, None);
            }
        }
    }
    // shortened by a second handle after a partial read: the position is behind the new length
    for kind in ["read_to_end", "read_to_string"] {
        let p = format!("{dir}/shrink_{kind}");
        std::fs::write(&p, &content).unwrap();
        let k = kind.to_string();
        let run = timed(move || {
            let mut f = File::open(&us(&p)).expect("open");
            let mut head = vec![0u8; 6_000];
            f.read_exact(&mut head).expect("first part");
            std::fs::OpenOptions::new().write(true).open(&p).unwrap().set_len(3_000).unwrap();
            read_kind(&mut f, &k, 0)
        });
        sink.rec("File", kind, "6000 bytes read, then shortened to 3000 by another handle", &[], 0, run, None);
    }
    // grown by a second handle after the reader reached the end
    {
        let p = format!("{dir}/grow");
        std::fs::write(&p, &content[..100]).unwrap();
        let extra = pattern(5_000, 9);
        let e2 = extra.clone();
        let run = timed(move || {
            let mut f = File::open(&us(&p)).expect("open");
            let mut v = Vec::new();
            f.read_to_end(&mut v).expect("first");
            use std::io::Write as _;
            std::fs::OpenOptions::new().append(true).open(&p).unwrap().write_all(&e2).unwrap();
            read_kind(&mut f, "read_to_end", 0)
        });
        sink.rec("File", "read_to_end", "read to the end, then 5000 bytes appended by another handle", &extra, 0, run, None);
    }
    // a /proc file (st_size == 0) read in two steps and in one
    for two_steps in [true, false] {
        let run = timed(move || {
            let mut f = File::open(&us("/proc/self/status")).expect("open");
            let mut head = vec![];
            if two_steps {
                head = vec![0u8; 8];
                f.read_exact(&mut head).expect("head");
            }
            let mut o = read_kind(&mut f, if two_steps { "read_to_end" } else { "read_to_string" }, 0);
            let mut all = head;
            all.extend_from_slice(&o.got);
            o.count += if two_steps { 8 } else { 0 };
            o.got = all;
            o
        });
        // the contents are the kernel's: expected = what arrived if it looks like the status file
        let (run, expect) = match run {
            Run::Done(o) => {
                let e = if o.got.starts_with(b"Name:") && o.got.len() > 100 && o.got.ends_with(b"\n") { o.got.clone() } else { b"Name:...".to_vec() };
                (Run::Done(o), e)
            }
            other => (other, vec![]),
        };
        sink.rec("File", if two_steps { "read_to_end" } else { "read_to_string" },
                 if two_steps { "/proc/self/status after read_exact(8)" } else { "/proc/self/status" }, &expect, 0, run, None);
    }
    for (case, p) in [("/dev/null", "/dev/null".to_string()), ("empty file", format!("{dir}/empty"))] {
        if case == "empty file" {
            std::fs::write(&p, b"").unwrap();
        }
        for kind in ["read_to_end", "read_to_string", "read_exact"] {
            let p = p.clone();
            let k = kind.to_string();
            let run = timed(move || {
                let mut f = File::open(&us(&p)).expect("open");
                read_kind(&mut f, &k, 0)
            });
            sink.rec("File", kind, case, &[], 0, run, None);
        }
    }
    // writing
    for (kind, len) in [("write_all", 0usize), ("write_all", 1), ("write_all", 100_000), ("write_fmt", 0), ("write_fmt", 70_000)] {
        let p = format!("{dir}/w_{kind}_{len}");
        let payload = pattern(len, 5);
        let pl = payload.clone();
        let p2 = p.clone();
        let k = kind.to_string();
        let run = timed(move || {
            let mut f = OpenOptions::new().create(true).write(true).truncate(true).open(&us(&p2)).expect("create");
            let text = String::from_utf8(pl.clone()).unwrap();
            let h = text.len() / 3;
            let ok = if k == "write_all" { f.write_all(&pl).is_ok() } else { f.write_fmt(format_args!("{}{}", &text[..h], &text[h..])).is_ok() };
            Obs { ok, count: pl.len() as i64, got: vec![] }
        });
        let got = std::fs::read(&p).unwrap_or_default();
        sink.rec("File", kind, &format!("{len} bytes into a new file"), &payload, 0, run, Some(got));
    }
}

// ---------------------------------------------------------------------------------------- streams
fn wait_fd(fd: i32, events: i16) {
    let mut p = libc::pollfd { fd, events, revents: 0 };
    unsafe { libc::poll(&mut p, 1, 1000) };
}
/// the peer drains `fd` (non-blocking socket) until end of file; behaviour: late start, chunk size, early close
fn peer_drain(fd: i32, late: bool, chunk: usize, close_after: Option<usize>) -> Vec<u8> {
    if late {
        std::thread::sleep(Duration::from_millis(300));
    }
    let mut got = vec![];
    let mut buf = vec![0u8; chunk];
    loop {
        if let Some(n) = close_after {
            if got.len() >= n {
                break;
            }
        }
        let r = unsafe { libc::read(fd, buf.as_mut_ptr().cast(), buf.len()) };
        if r > 0 {
            got.extend_from_slice(&buf[..r as usize]);
        } else if r == 0 {
            break;
        } else {
            let e = std::io::Error::last_os_error().raw_os_error().unwrap_or(0);
            if e == libc::EAGAIN || e == libc::EINTR {
                wait_fd(fd, libc::POLLIN);
            } else {
                break;
            }
        }
    }
    got
}
/// the peer writes `data` to `fd` (non-blocking socket)
fn peer_feed(fd: i32, data: &[u8], late: bool, chunk: usize) {
    if late {
        std::thread::sleep(Duration::from_millis(300));
    }
    let mut o = 0usize;
    while o < data.len() {
        let n = chunk.min(data.len() - o);
        let r = unsafe { libc::write(fd, data[o..].as_ptr().cast(), n) };
        if r > 0 {
            o += r as usize;
        } else {
            let e = std::io::Error::last_os_error().raw_os_error().unwrap_or(0);
            if e == libc::EAGAIN || e == libc::EINTR {
                wait_fd(fd, libc::POLLOUT);
            } else {
                break;
            }
        }
    }
}

fn sndbuf(fd: i32) -> usize {
    let mut v: libc::c_int = 0;
    let mut l = core::mem::size_of::<libc::c_int>() as libc::socklen_t;
    unsafe { libc::getsockopt(fd, libc::SOL_SOCKET, libc::SO_SNDBUF, core::ptr::addr_of_mut!(v).cast(), &mut l) };
    (v.max(4096)) as usize
}

fn stream_cases<S>(sink: &mut Sink, imp: &str, mk: &dyn Fn() -> (S, S))
where
    S: Read + Write + AsRawFd + Send + 'static,
{
    let sb = {
        let (a, _b) = mk();
        sndbuf(a.as_raw_fd().value())
    };
    let big = 8 << 20;
    let sizes = [0usize, 1, sb - 1, sb, big];
    let payloads: Vec<Arc<Vec<u8>>> = sizes.iter().enumerate().map(|(i, &n)| Arc::new(pattern(n, i))).collect();
    // ---- writing direction: the helper writes, the peer behaves
    for (pi, payload) in payloads.iter().enumerate() {
        let n = payload.len();
        for behaviour in ["reads at once", "starts 300 ms late", "reads in small chunks", "closes early"] {
            for kind in ["write_all", "write_fmt"] {
                // keep the quick tier short: the late start only for 1 byte and 8 MiB, write_fmt not for every cell
                if behaviour == "starts 300 ms late" && !(n == 1 || n == big) {
                    continue;
                }
                if kind == "write_fmt" && !(behaviour == "reads at once" || (n == big && behaviour == "reads in small chunks")) {
                    continue;
                }
                if sink.gives_up(imp, kind) {
                    continue;
                }
                let (mut s, peer) = mk();
                let pfd = peer.as_raw_fd().value();
                let late = behaviour == "starts 300 ms late";
                let chunk = if behaviour == "reads in small chunks" { if n == big { 8192 } else { 1000 } } else { 1 << 16 };
                let close_after = if behaviour == "closes early" { Some(100.min(n)) } else { None };
                let (ptx, prx) = mpsc::channel();
                std::thread::spawn(move || {
                    let got = peer_drain(pfd, late, chunk, close_after);
                    drop(peer);
                    let _ = ptx.send(got);
                });
                let pl = payload.clone();
                let k = kind.to_string();
                let run = timed(move || {
                    let ok = if k == "write_all" {
                        s.write_all(&pl).is_ok()
                    } else {
                        let text = core::str::from_utf8(&pl).unwrap();
                        let h = text.len() / 2;
                        s.write_fmt(format_args!("{}{}", &text[..h], &text[h..])).is_ok()
                    };
                    drop(s);
                    Obs { ok, count: pl.len() as i64, got: vec![] }
                });
                let hung = matches!(run, Run::Hang);
                let got = if hung { vec![] } else { prx.recv_timeout(Duration::from_secs(limit())).unwrap_or_default() };
                let case = format!("{} bytes (payload #{pi}, sndbuf {sb}), peer {behaviour}", n);
                if behaviour == "closes early" {
                    // the peer is gone: an error is certain only when the payload cannot fit the buffers
                    let plan = if n == big { 1 } else { 2 };
                    sink.rec(imp, kind, &case, &[], plan, run, Some(vec![]));
                } else {
                    sink.rec(imp, kind, &case, payload, 0, run, Some(got));
                }
            }
        }
    }
    // ---- reading direction: the peer writes (and closes), the helper reads
    for (pi, payload) in payloads.iter().enumerate() {
        let n = payload.len();
        if n == sb - 1 {
            continue;
        }
        for behaviour in ["writes at once", "starts 300 ms late", "writes in small chunks", "closes after half"] {
            for kind in ["read_to_end", "read_to_string", "read_exact"] {
                if behaviour == "starts 300 ms late" && !(n == 1 || n == big) {
                    continue;
                }
                if kind == "read_to_string" && behaviour != "writes at once" {
                    continue;
                }
                if behaviour == "closes after half" && (n < 2 || kind == "read_to_string") {
                    continue;
                }
                if sink.gives_up(imp, kind) {
                    continue;
                }
                let (mut s, peer) = mk();
                let pfd = peer.as_raw_fd().value();
                let late = behaviour == "starts 300 ms late";
                let chunk = if behaviour == "writes in small chunks" { if n == big { 8192 } else { 1000 } } else { 1 << 16 };
                let sent: Arc<Vec<u8>> = if behaviour == "closes after half" { Arc::new(payload[..n / 2].to_vec()) } else { payload.clone() };
                let s2 = sent.clone();
                std::thread::spawn(move || {
                    peer_feed(pfd, &s2, late, chunk);
                    drop(peer);
                });
                let k = kind.to_string();
                let run = timed(move || read_kind(&mut s, &k, n));
                let case = format!("{} bytes (payload #{pi}), peer {behaviour}", n);
                if behaviour == "closes after half" && kind == "read_exact" {
                    sink.rec(imp, kind, &case, &[], 1, run, Some(vec![]));
                } else {
                    sink.rec(imp, kind, &case, &sent, 0, run, None);
                }
            }
        }
    }
}

// --------------------------------------------------------------------------------------- AnonPipe
fn anon_pipe_cases(sink: &mut Sink) {
    for (kind, len) in [("write_all+read_to_end", 0usize), ("write_all+read_to_end", 1), ("write_all+read_to_end", 300_000),
                        ("write_fmt+read_to_string", 200_000), ("write_all+read_exact", 70_000)] {
        let payload = Arc::new(pattern(len, 11));
        let pl = payload.clone();
        let k = kind.to_string();
        let run = timed(move || {
            let cat = us("/bin/cat");
            let mut c = Command::new(&cat).expect("command");
            c.stdin(Stdio::MakePipe).stdout(Stdio::MakePipe);
            let mut child = c.spawn().expect("spawn /bin/cat");
            let mut stdin = child.stdin.take().expect("stdin pipe");
            let mut stdout = child.stdout.take().expect("stdout pipe");
            let pw = pl.clone();
            let kw = k.clone();
            let w = std::thread::spawn(move || {
                let ok = if kw.starts_with("write_all") {
                    stdin.write_all(&pw).is_ok()
                } else {
                    let text = core::str::from_utf8(&pw).unwrap();
                    let h = text.len() / 2;
                    stdin.write_fmt(format_args!("{}{}", &text[..h], &text[h..])).is_ok()
                };
                drop(stdin); // end of file for cat
                ok
            });
            let rk = if k.ends_with("read_to_end") { "read_to_end" } else if k.ends_with("read_to_string") { "read_to_string" } else { "read_exact" };
            let mut o = read_kind(&mut stdout, rk, pl.len());
            let wok = w.join().unwrap_or(false);
            o.ok = o.ok && wok;
            drop(stdout);
            let _ = child.wait();
            o
        });
        sink.rec("AnonPipe", kind, &format!("{len} bytes through a spawned /bin/cat"), &payload, 0, run, None);
    }
}

fn main() {
    quiet_panics();
    let dir = std::env::args().nth(1).expect("usage: ioimpls <scratch dir>");
    std::fs::create_dir_all(&dir).unwrap();
    unsafe {
        libc::signal(libc::SIGPIPE, libc::SIG_IGN);
        libc::alarm(900);
    }
    let mut sink = Sink { out: Out::new(), hangs: std::collections::HashMap::new() };
    file_cases(&mut sink, &dir);
    let d = dir.clone();
    let counter = std::sync::atomic::AtomicUsize::new(0);
    stream_cases::<UnixStream>(&mut sink, "UnixStream", &|| {
        let k = counter.fetch_add(1, std::sync::atomic::Ordering::SeqCst);
        let p = us(&format!("{d}/s{k}.sock"));
        let mut l = UnixListener::bind(&p).expect("bind");
        let c = UnixStream::connect(&p).expect("connect");
        let s = l.accept().expect("accept");
        (c, s)
    });
    stream_cases::<TcpStream>(&mut sink, "TcpStream", &|| {
        let mut l = TcpListener::bind(&SocketAddress::new(Ip::V4([127, 0, 0, 1]), 0)).expect("bind");
        let addr = l.local_addr().expect("local_addr");
        let c = TcpStream::connect(&addr).expect("connect");
        let s = l.accept().expect("accept");
        (c, s)
    });
    anon_pipe_cases(&mut sink);
    sink.out.flush();
    // threads abandoned after a hang must not keep the process alive
    std::process::exit(0);
}
