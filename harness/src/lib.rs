//! Shared helpers for the std-linked conformance drivers (instrument I3/I1/I2 of DESIGN.md).
use std::io::Write;

pub use serde_json::{json, Value};

/// Deterministic xorshift64* generator; every random choice of a driver comes from VERIF_SEED.
pub struct Rng(pub u64);
impl Rng {
    pub fn new(seed: u64) -> Self {
        Rng(seed.wrapping_mul(0x9E37_79B9_7F4A_7C15) | 1)
    }
    pub fn next(&mut self) -> u64 {
        let mut x = self.0;
        x ^= x >> 12;
        x ^= x << 25;
        x ^= x >> 27;
        self.0 = x;
        x.wrapping_mul(0x2545_F491_4F6C_DD1D)
    }
    pub fn below(&mut self, n: u64) -> u64 {
        if n == 0 {
            0
        } else {
            self.next() % n
        }
    }
    pub fn pick<'a, T>(&mut self, xs: &'a [T]) -> &'a T {
        &xs[self.below(xs.len() as u64) as usize]
    }
}

pub fn seed() -> u64 {
    std::env::var("VERIF_SEED").ok().and_then(|s| s.parse().ok()).unwrap_or(1)
}

/// Line-buffered ndjson writer on stdout.
pub struct Out(std::io::BufWriter<std::io::Stdout>);
impl Out {
    pub fn new() -> Self {
        Out(std::io::BufWriter::with_capacity(1 << 20, std::io::stdout()))
    }
    pub fn ev(&mut self, v: &Value) {
        serde_json::to_writer(&mut self.0, v).unwrap();
        self.0.write_all(b"\n").unwrap();
    }
    pub fn flush(&mut self) {
        self.0.flush().unwrap();
    }
}
impl Default for Out {
    fn default() -> Self {
        Self::new()
    }
}

/// Run `f`, turning a panic of the code under test into data.
pub fn guarded<T>(f: impl FnOnce() -> T) -> Result<T, String> {
    let r = std::panic::catch_unwind(std::panic::AssertUnwindSafe(f));
    r.map_err(|e| {
        if let Some(s) = e.downcast_ref::<&str>() {
            (*s).to_string()
        } else if let Some(s) = e.downcast_ref::<String>() {
            s.clone()
        } else {
            "panic".to_string()
        }
    })
}

pub fn quiet_panics() {
    std::panic::set_hook(Box::new(|_| {}));
}
