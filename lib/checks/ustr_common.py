"""Shared machinery of C10 and C11: TLC-generated vectors -> real UnixStr operations -> compare;
random long operands -> real operations -> TLC judge (UnixStrJudge.tla)."""
import json
import os
import random

from vlib import core

STRING_OPS = {"path_join", "path_join_fmt", "parent_path", "path_file_name", "file_unix_name",
              "str_try_from_bytes", "str_try_from_str", "string_try_from_bytes", "string_try_from_vec",
              "string_try_from_str", "string_try_from_string", "string_from_str", "from_format",
              "from_str_checked"}
PAIR_OPS = ["find", "find_buf", "match_up_to", "match_up_to_str", "ends_with", "path_join",
            "path_join_fmt", "parent_path", "path_file_name"]
# the same operation reached another way (text handed to the formatting machinery in pieces):
# judged by the definition of the operation it is an alias of
ALIAS = {"path_join_fmt_split": "path_join_fmt", "from_format_split": "from_format",
         "path_join_fmt_chars": "path_join_fmt", "from_format_chars": "from_format"}
PAIR_OPS_RUN = PAIR_OPS + ["path_join_fmt_split", "path_join_fmt_chars"]
CTOR_OPS = ["str_try_from_bytes", "str_try_from_str", "string_try_from_bytes", "string_try_from_vec",
            "string_try_from_str", "string_try_from_string", "string_from_str", "from_format",
            "from_str_checked"]


CTOR_OPS_RUN = CTOR_OPS + ["from_format_split", "from_format_chars"]


def rec(op, a, b, out, view):
    """judge record; `via` keeps the name of the entry point for messages and signatures"""
    return {"op": ALIAS.get(op, op), "via": op, "a": a, "b": b, "out": out, "view": view}


def shape(r):
    return {0: "none", 1: "some", 2: "err", 3: "panic"}.get(r[0], "?") if r else "?"


def view(r):
    """What the API user sees of a stored string value: all but its last stored byte."""
    return [1] + r[1:-1] if len(r) >= 2 and r[0] == 1 else r


def gen_vectors(chk, mode, alpha, maxlen, workers=8):
    cfg = os.path.join(chk.work, "UnixStrGen_%s_%d.cfg" % (mode, maxlen))
    with open(cfg, "w") as f:
        f.write("CONSTANTS\n  Alpha = {%s}\n  MaxLen = %d\n  Mode = \"%s\"\n" % (
            ", ".join(map(str, alpha)), maxlen, mode))
        f.write("INIT Init\nNEXT Next\nINVARIANTS Emit C10FollowsFromC11 C10Ctors\nCHECK_DEADLOCK FALSE\n")
    res = core.run_tlc("UnixStrGen.tla", cfg, workers=workers, timeout=3000, xmx="6g")
    core.tlc_must_pass(res, "UnixStrGen " + mode)
    chk.add_tlc(res)
    vecs = res.printed("V")
    n = sum(len(alpha) ** k for k in range(maxlen + 1))
    expect = n * n if mode == "pair" else n
    if len(vecs) != expect or res.distinct != expect:
        raise core.ToolError("generator produced %d vectors / %d states, expected %d" % (len(vecs), res.distinct, expect))
    return vecs


def run_driver(chk, bindir, mode, vecs, tag):
    path = os.path.join(chk.work, "vec_%s_%s.ndjson" % (mode, tag))
    with open(path, "w") as f:
        for v in vecs:
            f.write(json.dumps({"a": v.get("a", []), "b": v["b"]}) + "\n")
    results = {}
    crashes = []
    skip = 0
    skipops = []
    dead = []       # operations that crashed / did not return 8 times: left out from then on
    per_op = {}
    while True:
        p = core.run_cmd([os.path.join(bindir, "ustr"), mode, path, str(skip), ",".join(skipops), ",".join(dead)], check=False, timeout=1800)
        last = None
        for line in p.stdout.splitlines():
            r = json.loads(line)
            if "crash" in r:
                crashes.append(r)
                last = r["crash"]
                per_op[r["op"]] = per_op.get(r["op"], 0) + 1
                if per_op[r["op"]] >= 4 and r["op"] not in dead:
                    dead.append(r["op"])
            else:
                results[r["i"]] = r
        if p.returncode == 0:
            break
        if p.returncode == 42 and last is not None:
            if mode in ("findbuf", "mstr"):   # one operation per vector: resume behind it
                if dead:
                    break           # the only operation of this family failed 4 times: enough
                skip = last + 1
                continue
            # resume at the crashing vector, leaving out the operations that faulted on it
            skipops = (skipops if last == skip else []) + [crashes[-1]["op"]]
            skip = last
            continue
        raise core.ToolError("ustr driver died rc=%s: %s" % (p.returncode, p.stderr[-2000:]))
    return results, crashes


def crash_shape(c):
    """signature shape and wording of a crash record of the driver"""
    if c.get("hang"):
        return "does_not_return", "did not return within 1 s of CPU time"
    return "read_outside_argument", "faulted on the guard page behind its argument (or aborted)"


def judge_with_tlc(chk, records, tag):
    """records: list of dicts {op,a,b,out,view}. Returns list of indices (0-based) TLC rejects."""
    if not records:
        return []
    bad = []
    B = 20000
    for k in range(0, len(records), B):
        part = records[k:k + B]
        path = os.path.join(chk.work, "judge_%s_%d.ndjson" % (tag, k))
        core.write_ndjson(path, part)
        res = core.run_tlc("UnixStrJudge.tla", "UnixStrJudge.cfg", workers=1, env={"TRACE": path},
                           timeout=3000, xmx="4g", xss="512m")
        core.tlc_must_pass(res, "UnixStrJudge")
        j = res.printed("JUDGED")
        if len(j) != 1 or j[0]["n"] != len(part):
            raise core.ToolError("judge did not report on all %d records: %s" % (len(part), res.out[-1500:]))
        chk.add_tlc(res)
        chk.traces += len(part)
        bad += [k + i - 1 for i in j[0]["bad"]]
    return bad


def rand_content(rng, alpha, n):
    return [rng.choice(alpha) for _ in range(n)]


def random_pairs(rng, alpha, count, maxlen):
    """Random long operands; needles are mostly planted so that matches at start / middle /
    very end occur, and near misses (last byte changed) too."""
    out = []
    for _ in range(count):
        n = rng.randint(0, maxlen)
        a = rand_content(rng, alpha, n)
        mode = rng.randint(0, 6)
        if mode == 0 or n == 0:
            b = rand_content(rng, alpha, rng.randint(0, min(6, maxlen)))
        else:
            ln = rng.randint(1, min(n, 12))
            st = rng.choice([0, n - ln, rng.randint(0, n - ln)])
            b = a[st:st + ln]
            if mode == 1:
                b = b[:-1] + [rng.choice(alpha)]
            elif mode == 2:
                b = b + [rng.choice(alpha)]
        out.append({"a": a, "b": b})
    return out


def random_paths(rng, count, maxlen, alpha=(47, 97, 98, 46)):
    out = []
    for _ in range(count):
        comps = rng.randint(0, 6)
        s = []
        if rng.random() < 0.4:
            s.append(47)
        for c in range(comps):
            s += [rng.choice([97, 98, 46]) for _ in range(rng.randint(1, max(1, maxlen // 6)))]
            s.append(47)
            if rng.random() < 0.1:
                s.append(47)
        if s and rng.random() < 0.6:
            s.pop()
        a = [rng.choice(alpha) for _ in range(rng.randint(0, 8))]
        out.append({"a": a, "b": s[:maxlen]})
    return out
