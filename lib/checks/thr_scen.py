"""Free-running, fault-injected and stray-wake scenarios of the thread probe (C05 / C06),
judged at property level by TLC (ThreadLifeTrace.tla)."""
import os
import re

from vlib import core
from checks import thr_common as T

TYPES = ["z", "u8", "u128", "arr", "a64", "vec", "dv", "zd", "a64d", "arrd"]
DROP_COUNTED = ("dv", "zd", "a64d", "arrd")     # result types whose destructor reports itself


class Finding:
    def __init__(self, rule, run, thread, at, extra=None):
        self.rule = rule
        self.run = run
        self.thread = thread
        self.at = at
        self.extra = extra or {}

    def props(self):
        """the properties whose statement the broken rule belongs to"""
        if self.rule == "crash":
            return {"C05", "C06"}
        if self.rule == "handle_operation_never_returned":
            return {"C05"} if (self.thread is not None and self.thread.op == "join") else {"C06"}
        if self.rule == "hang_in_drop" or self.rule == "hang_in_keep":
            return {"C06"}
        if self.rule.startswith("hang_in_"):
            return {"C05"}
        return {T.rule_property(self.rule)}

    def signature(self):
        t = self.thread
        sig = {"rule": self.rule, "fault": fault_kind(self.run), "wake": bool(t.wake) if t else False}
        if t is not None:
            sig["op"] = t.op or "none"
            sig["fin"] = t.fin_plan
            if t.fin_plan == "panic" and t.pk in LOCK_HOLDING:
                sig["panic_holds"] = "print lock"
            if self.rule in ("result_not_dropped", "result_dropped_twice", "join_wrong_value"):
                sig["ty"] = t.ty
        sig["mode"] = self.run.mode
        return sig

    def what(self):
        t = self.thread
        if t is None:
            return "%s in run %s (process level: %s)" % (self.rule, self.run.name, self.extra)
        return "%s: thread k=%d (result type %s, closure %s, handle %s%s%s) in run %s, rejected at abstract event %d" % (
            self.rule, t.k, t.ty, "panics" if t.fin_plan == "panic" else "returns", t.op or "kept",
            (", panic " + PANIC_KINDS.get(t.pk, "?") if t.fin_plan == "panic" and t.pk else "") + (", stray FUTEX_WAKE delivered" if t.wake else ""),
            ", injected " + str(self.run.inject) if self.run.inject else "", self.run.name, self.at)

    def replay(self):
        t = self.thread
        d = {"kind": "probe-run", "scenario": self.run.name, "script": self.run.script, "inject": self.run.inject,
             "strace": self.run.strace is not None, "release": self.run.release, "rule": self.rule}
        if t is not None:
            d["thread"] = {"k": t.k, "ty": t.ty, "fin": t.fin_plan, "op": t.op, "wake": t.wake, "sys": t.sys}
            d["abstract_trace"] = t.ev
            d["first_rejected_event"] = self.at
            d["raw_events"] = t.raw[:300]
        else:
            d["batch"] = self.extra
        return d


def fault_kind(run):
    if not run.inject:
        return "none"
    return run.inject.split(":")[0]


def timing_class(t):
    """when did the closure finish relative to the handle operation"""
    pos = {}
    for i, e in enumerate(t.ev):
        if e["e"] in ("fin", "call", "ret") and e["e"] not in pos:
            pos[e["e"]] = i
    if "fin" not in pos or "call" not in pos:
        return "none"
    if pos["fin"] < pos["call"]:
        return "finished-before-op"
    if "ret" in pos and pos["fin"] > pos["ret"]:
        return "finished-after-op"
    return "finished-during-op"


def tsm_freer(t):
    for e in t.ev:
        if e["e"] == "rel" and e.get("r") == "tsm":
            return e["by"]
    return "-"


class Collector:
    """Collects runs, judges them in one TLC call per flush, turns verdicts into findings."""

    def __init__(self, chk):
        self.chk = chk
        self.items = []
        self.findings = []
        self.classes = set()
        self.njudge = 0
        self.threads = 0
        self.accepted = 0
        self.runs = 0
        self.stray_delivered = 0
        self.injected = 0
        self.summaries = []
        self.alg = []          # (run, thread) of free-running runs with protocol points logged

    def add(self, run, mode):
        run.mode = mode
        order, batches, info = T.normalise(run)
        run.info = info
        self.runs += 1
        self.stray_delivered += info["stray"]
        self.injected += len(info.get("injected", []))
        for t in order:
            if mode in ("free", "fault", "stray-wake") and t.arr_h:
                self.alg.append((run, t))
            self.items.append((run, t, t.ev))
            self.classes.add((t.ty, t.fin_plan, t.op, timing_class(t), tsm_freer(t), bool(t.wake), fault_kind(run), mode))
        for b in batches:
            bb = {k: v for k, v in b.items() if k != "raw"}
            self.items.append((run, None, [bb]))
        un = info.get("unattributed") or []
        if un:
            lst = self.chk.extra.setdefault("strace_records_unattributed", [])
            if len(lst) < 20:
                lst.append({"run": run.name, "count": len(un), "first": un[0]})
        self.summaries.append({"run": run.name, "threads": len(order), "events": len(run.events), "unattributed": len(un),
                               "wall_s": round(run.wall, 2), "inject": run.inject,
                               "strace": run.strace is not None, "stray_wakes": info["stray"],
                               "batches": [{k: b[k] for k in ("n", "left", "left_n", "panicked", "growth", "threads", "stacks")} for b in batches]})
        return order, batches, info

    def flush(self, name):
        if not self.items:
            return
        self.njudge += 1
        verdicts, nlines = T.judge(self.chk, "%s-%d" % (name, self.njudge), [("x", evs) for (_, _, evs) in self.items])
        self.chk.evaluations += nlines
        for i, (run, t, evs) in enumerate(self.items):
            if t is not None:
                self.threads += 1
            if i in verdicts:
                for rule, at in verdicts[i]:
                    self.findings.append(Finding(rule, run, t, at, None if t is not None else evs[0]))
            else:
                self.accepted += 1
        self.items = []


def singles_script():
    lines = ["baseline"]
    for ty in TYPES:
        for fin in ("ret", "panic"):
            for op in ("join", "drop"):
                for (pre, hd) in ((0, 0), (3000, 0), (0, 3000)):
                    lines.append("one ty=%s fin=%s op=%s pre=%d hdelay=%d" % (ty, fin, op, pre, hd))
    lines.append("quiesce")
    return lines


def free_running(chk, col, bindir, tier, release=False, tag=""):
    seed = chk.seed
    # 1. every result layout x {returns, panics} x {join, drop} x {default, thread slow, owner slow}, traced
    r = T.run_probe(chk, bindir, "singles" + tag, singles_script(), strace=True, timeout=120)
    r.release = release
    col.add(r, "free")
    # 2. mixed batches, traced, full allocator log
    n = 150 if tier == "quick" else 1500
    script = ["baseline",
              "batch n=%d seed=%d conc=8 panic=25 drop=40" % (n, seed * 7 + 1), "quiesce",
              "batch n=%d seed=%d conc=1 panic=20 drop=50" % (n, seed * 7 + 2), "quiesce",
              "batch n=%d seed=%d conc=48 panic=30 drop=30" % (n, seed * 7 + 3), "quiesce"]
    r = T.run_probe(chk, bindir, "batch-traced" + tag, script, strace=True, timeout=300)
    r.release = release
    col.add(r, "free")
    col.flush("free" + tag)


def perturbed(chk, col, bindir, tier, release=False, tag=""):
    """free-running batches with shaken timing: random short sleeps at the protocol points (seeded), and
    the process confined to one / two CPUs (preemption-driven interleavings); traced, full logs, so the
    runs are judged at property level AND searched for in the algorithm-level model"""
    seed = chk.seed
    n = 100 if tier == "quick" else 600
    plans = [("jit300", "set jitter=300 jseed=%d" % (seed * 13 + 5), None)]
    if tier != "quick":
        plans += [("jit900", "set jitter=900 jseed=%d" % (seed * 13 + 6), None),
                  ("cpu1", "set jitter=0", "0"), ("cpu2-jit200", "set jitter=200 jseed=%d" % (seed * 13 + 7), "0,1")]
    for (name, setline, cpus) in plans:
        script = [setline, "baseline",
                  "batch n=%d seed=%d conc=6 panic=25 drop=45" % (n, seed * 17 + 1), "quiesce",
                  "batch n=%d seed=%d conc=1 panic=25 drop=45" % (n, seed * 17 + 2), "quiesce"]
        r = T.run_probe(chk, bindir, "perturbed-%s%s" % (name, tag), script, strace=True, timeout=600, cpus=cpus)
        r.release = release
        col.add(r, "free")
    col.flush("perturbed" + tag)


def big_batches(chk, col, bindir, tier, release=False, tag=""):
    """histories of thousands of threads, free running, no tracer: heap multiset / thread count /
    VmSize back at baseline after each batch"""
    seed = chk.seed
    n = 1000 if tier == "quick" else 12000
    reps = 2 if tier == "quick" else 4
    script = ["set logalloc=0 logpt=0", "baseline"]
    for i in range(reps):
        script += ["batch n=%d seed=%d conc=%d panic=25 drop=40" % (n, seed * 31 + i, (4, 24, 64, 1)[i % 4]), "quiesce"]
    r = T.run_probe(chk, bindir, "batch-big" + tag, script, strace=False, timeout=900)
    r.release = release
    col.add(r, "free-big")
    col.flush("big" + tag)


def stray_wake(chk, col, bindir, tier, release=False, tag=""):
    """A real stray FUTEX_WAKE on the exit futex while the owner is parked in join (futex(2) allows
    spurious wake-ups); the closure is held at a gate meanwhile."""
    combos = [("u8", "ret"), ("vec", "ret"), ("u128", "panic")]
    if tier != "quick":
        combos += [("dv", "ret"), ("a64", "ret"), ("z", "panic")]
    for ty, fin in combos:
        script = ["set watchdog=3000", "baseline", "one ty=%s fin=%s op=join gate=1 wake=1" % (ty, fin), "quiesce"]
        r = T.run_probe(chk, bindir, "wake-%s-%s%s" % (ty, fin, tag), script, strace=False, timeout=60)
        r.release = release
        col.add(r, "stray-wake")
    col.flush("wake" + tag)


def directed_stray(chk, col, bindir, tier, release=False, tag=""):
    """Directed schedules for every futex wait site (join, and drop after the thread won the flag
    CAS), independent of the shape of the wait loop: the thread is held at a chosen point before its
    exit, the owner is driven turn by turn until it is parked in the kernel on the exit futex, a
    real stray FUTEX_WAKE is delivered, the owner is driven on until it parks again (or finishes),
    then everybody runs free.  {thread returns, panics} x {held where} x {join, drop}."""
    cases = []
    # drop: the thread must have won the flag (past its CAS) and still be alive
    for ty, hold in (("dv", "15"), ("vec", "16"), ("zd", "15")):
        cases.append(("s1:%s:r;d1" % ty, "h>60,t1>%s,h>p,w,h>p" % hold))
    cases.append(("s1:u128:p;d1", "h>60,t1>25,h>p,w,h>p"))
    # join: the thread is anywhere before its exit
    for ty, fin, hold in (("u8", "r", None), ("vec", "r", "10"), ("dv", "r", "15"), ("arr", "p", "21")):
        steps = "h>60," + ("t1>%s," % hold if hold else "") + "h>p,w,h>p"
        cases.append(("s1:%s:%s;j1" % (ty, fin), steps))
    if tier != "quick":
        cases += [("s1:a64:r;d1", "h>60,t1>16,h>p,w,h>p,w,h>p"), ("s1:z:p;j1", "h>60,t1>25,h>p,w,h>p"),
                  ("s1:dv:r;s2:vec:r;d1;j2", "h>60,h>60,t1>15,t2>11,h>p,w,h>p")]
    script = ["set watchdog=4000"]
    for ops, steps in cases:
        script += ["baseline", "sched ops=%s steps=%s" % (ops, steps), "quiesce"]
    r = T.run_probe(chk, bindir, "directed-stray" + tag, script, strace=False, timeout=300)
    r.release = release
    o, b, info = col.add(r, "directed")
    col.flush("directed" + tag)
    return info


PANIC_KINDS = {0: "bare panic!", 1: "inside eprintln! arguments (stderr lock held)", 2: "inside println! formatting (stdout lock held)",
               3: "holding a tiny_std Mutex guard", 4: "inside Drop of a local", 5: "unwrap on None", 6: "slice index out of bounds",
               7: "arithmetic overflow", 8: "long formatted message", 9: "after the result was partially built",
               10: "inside dbg! formatting (stderr lock held)"}
LOCK_HOLDING = (1, 2, 10)


def panic_kinds(chk, col, bindir, tier, release=False, tag=""):
    """Closures that panic in different ways and while holding different things: the thread must
    leave all the same and join must return None.  A panicking thread never releases what it holds
    (no unwinding): the kinds that hold one of tiny-std's process-wide print locks get a process each."""
    script = ["set watchdog=2500", "baseline"]
    for pk in sorted(PANIC_KINDS):
        if pk in LOCK_HOLDING:
            continue
        script.append("one ty=u128 fin=panic op=join pk=%d" % pk)
        script.append("one ty=vec fin=panic op=drop pk=%d hdelay=%d" % (pk, 0 if pk % 2 else 2000))
    script.append("quiesce")
    r = T.run_probe(chk, bindir, "panic-kinds" + tag, script, strace=False, timeout=120)
    r.release = release
    col.add(r, "free")
    for pk in LOCK_HOLDING:
        for op in (("join",) if tier == "quick" else ("join", "drop")):
            script = ["set watchdog=2500", "baseline", "one ty=u8 fin=ret op=join",
                      "one ty=arr fin=panic op=%s pk=%d" % (op, pk),
                      "one ty=dv fin=ret op=join", "quiesce"]
            r = T.run_probe(chk, bindir, "panic-kind-%d-%s%s" % (pk, op, tag), script, strace=False, timeout=60)
            r.release = release
            col.add(r, "free")
    col.flush("panic" + tag)


def spawner_releases(chk, col, bindir, tier, release=False, tag=""):
    """The closure waits for a signal its spawner gives right after spawn has returned (a closure may
    wait for the spawner or a sibling): spawn must return while the closure runs on its new thread."""
    script = ["set watchdog=2500", "baseline"]
    for ty, fin, op in (("u8", "ret", "join"), ("vec", "ret", "drop"), ("u128", "panic", "join")):
        script.append("one ty=%s fin=%s op=%s gate=2" % (ty, fin, op))
    script.append("quiesce")
    r = T.run_probe(chk, bindir, "spawner-releases" + tag, script, strace=False, timeout=60)
    r.release = release
    col.add(r, "free")
    col.flush("release" + tag)


def captures_and_drop_panics(chk, col, bindir, tier, release=False, tag=""):
    """(1) Closures that OWN over-aligned data (captured by value, alignment 16 / 32 / 64 / 4096): the
    closure itself reports whether the value sits at an address its type allows and still holds what
    was put in.  (2) A return value whose destructor panics while the runtime drops it: the handle is
    dropped first (the closure is held until the drop has returned), so the thread itself has to drop
    the value and goes through the panic handler from inside its epilogue - every block must still be
    released exactly once."""
    script = ["set watchdog=2500", "baseline"]
    for ck in (16, 32, 64, 4096):
        script.append("one ty=u8 fin=ret op=join ck=%d" % ck)
        script.append("one ty=a64d fin=ret op=drop ck=%d" % ck)
        script.append("one ty=vec fin=panic op=join ck=%d pk=5" % ck)
    script += ["one ty=pd fin=ret op=drop gate=3", "one ty=pd fin=ret op=drop gate=3 ck=32", "one ty=pd fin=ret op=join",
               "one ty=u8 fin=ret op=join", "quiesce"]
    r = T.run_probe(chk, bindir, "captures" + tag, script, strace=False, timeout=90)
    r.release = release
    o, b, info = col.add(r, "free")
    chk.extra["owned_capture_checks" + tag] = sum(getattr(t, "caps", 0) for t in o)
    col.flush("captures" + tag)


def process_state(chk, col, bindir, tier, release=False, tag=""):
    """Process-wide state as a scenario dimension: (1) soft RLIMIT_STACK unlimited / 8 MiB / 512 KiB /
    128 KiB with closures that use 512 KiB of stack (a thread's stack is what spawn maps, whatever the
    main thread's limit is; the mapped length is recorded as a structural lead); (2) SCHED_FIFO with the
    whole process confined to ONE CPU: a spawner that busy-waits for its child never lets it run."""
    script = ["set watchdog=3000", "baseline", "one ty=u8 fin=ret op=join wk=3", "one ty=arr fin=ret op=drop wk=3 hdelay=2000",
              "one ty=u128 fin=panic op=join wk=3 pk=5", "one ty=vec fin=ret op=join wk=4", "quiesce"]
    import resource
    sizes = {}
    for label, lim in (("unlimited", resource.RLIM_INFINITY), ("8M", 8 << 20), ("512K", 512 << 10), ("128K", 128 << 10)):
        r = T.run_probe(chk, bindir, "rlimit-stack-%s%s" % (label, tag), script, strace=True, timeout=60,
                        rlimits={"RLIMIT_STACK": lim})
        r.release = release
        o, b, info = col.add(r, "free")
        sizes[label] = info.get("stack_sz")
    chk.extra["stack_mapping_size_by_rlimit_stack" + tag] = {"observed": sizes, "independent_of_rlimit": len(set(sizes.values())) == 1,
                                                            "lead": "not judged; the deep-stack closures judge the behaviour"}
    # --- SCHED_FIFO on one CPU
    ncpu = os.cpu_count() or 1
    script = ["set watchdog=3000", "baseline"] + ["one ty=u8 fin=ret op=join"] * 3 + ["one ty=vec fin=ret op=drop",
              "one ty=u128 fin=panic op=join pk=6", "quiesce"]
    try:
        r = T.run_probe(chk, bindir, "fifo-one-cpu" + tag, script, strace=False, timeout=12,
                        launcher=["chrt", "-f", "10"], cpus=str(ncpu - 1))
    except core.ToolError as e:
        chk.extra["sched_fifo_one_cpu" + tag] = "not exercised: %s" % str(e)[:200]
    else:
        r.release = release
        if not r.events:
            chk.extra["sched_fifo_one_cpu" + tag] = "not exercised: the launcher could not start the probe (rc=%s)" % r.rc
        else:
            col.add(r, "free")
            chk.extra["sched_fifo_one_cpu" + tag] = "exercised"
    col.flush("procstate" + tag)


WORK_KINDS = {1: "fork + wait, the child scribbles over its copy of the locals", 2: "spawns and joins a thread of its own",
              3: "512 KiB of stack frames", 4: "allocation heavy"}


def closure_work(chk, col, bindir, tier, release=False, tag=""):
    """Closures that do what real programs do on a thread before they return or panic; the result is
    derived from what they computed in their own stack and heap.  Traced: the flags of the stack
    mapping are recorded as a structural lead (not a verdict)."""
    script = ["set watchdog=4000", "baseline"]
    for wk in sorted(WORK_KINDS):
        script.append("one ty=u8 fin=ret op=join wk=%d" % wk)
        script.append("one ty=arr fin=ret op=join wk=%d hdelay=3000" % wk)
        script.append("one ty=vec fin=ret op=drop wk=%d" % wk)
        script.append("one ty=u128 fin=panic op=join wk=%d pk=%d" % (wk, 5 + wk))
    script.append("quiesce")
    r = T.run_probe(chk, bindir, "closure-work" + tag, script, strace=True, timeout=180)
    r.release = release
    o, b, info = col.add(r, "free")
    flags = sorted({re.sub(r"^.*?,.*?,.*?,\s*([A-Z_|0-9x]+),.*$", r"\1", t.mmap_rec["args"]) for t in o if getattr(t, "mmap_rec", None)})
    chk.extra["stack_mapping_flags" + tag] = {"observed": flags,
                                              "lead": "a thread's stack is memory private to the process image: MAP_PRIVATE|MAP_ANONYMOUS expected (not judged; the fork scenario judges the behaviour)",
                                              "private_anonymous": all("MAP_PRIVATE" in f and "MAP_ANONYMOUS" in f for f in flags) if flags else None}
    col.flush("work" + tag)


def explore_handshake(chk, col, bindir, tier, release=False, tag=""):
    """Systematic exploration of the REAL code: depth-first search over every interleaving of owner and
    thread(s) at {closure start, owner operation start, every access of the hand-shake flag} (the flag
    goes through the AtomicBool shim of tiny_std::verif_thread: one yield point per access, whatever
    operations an implementation uses).  Every schedule is one execution between its own baseline and
    quiesce, judged at property level."""
    scen = ["s1:dv:r;d1", "s1:zd:r;d1", "s1:vec:r;d1", "s1:u8:p;d1", "s1:a64d:r;j1"]
    if tier != "quick":
        scen += ["s1:a64:p;j1", "s1:dv:r;s2:vec:r;d1;d2", "s1:vec:r;s2:u8:p;d2;j1"]
    script = ["set watchdog=4000"] + ["explore ops=%s max=%d" % (o, 48 if tier == "quick" else 160) for o in scen]
    r = T.run_probe(chk, bindir, "explore" + tag, script, strace=False, timeout=600)
    r.release = release
    o, b, info = col.add(r, "explore")
    ends = [e for e in r.events if e["ev"] == "explore_end"]
    chk.extra["handshake_exploration" + tag] = {"scenarios": len(scen), "executions": sum(e["executions"] for e in ends),
                                               "complete": [bool(e["complete"]) for e in ends]}
    col.flush("explore" + tag)


def drop_race(chk, col, bindir, tier, release=False, tag=""):
    """Free-running stress of the drop / finish race on all CPUs: per thread the owner waits until the
    closure has started, spins a random few iterations and drops (or joins) the handle, so that the
    handle operation falls around the thread's own hand-shake; nothing is logged per thread (the race
    window must stay narrow), judged by the process-level rules at quiescence (live-block multiset back
    at baseline, no bad free, no thread left)."""
    n = 1600 if tier == "quick" else 20000
    script = ["set logalloc=0 logpt=0 watchdog=6000", "baseline"]
    for i, spin in enumerate((0, 40, 200, 1000)):
        script += ["race n=%d seed=%d spin=%d drop=85" % (n // 4, chk.seed * 53 + i, spin), "quiesce"]
    r = T.run_probe(chk, bindir, "drop-race" + tag, script, strace=False, timeout=600)
    r.release = release
    col.add(r, "free-big")
    col.flush("race" + tag)


WARM = 5


def completed(run, info):
    return not (run.killed or info.get("crash") or info.get("timeout") or info.get("abort"))


def fault_script(ty, op):
    lines = ["set watchdog=2500", "baseline"]
    for i in range(WARM):
        lines.append("one ty=u8 fin=ret op=join")
    lines.append("one ty=%s fin=ret op=%s ck=1" % (ty, op))   # the spawn that meets the failing system call; its closure owns a token
    lines.append("one ty=u128 fin=ret op=join")             # the runtime must still work afterwards
    lines.append("quiesce")
    return lines


# system calls that are the probe's own noise inside the windows, or that cannot fail by their contract
FAULT_SKIP = {"write", "gettid", "getpid", "sched_yield", "exit", "exit_group", "set_tid_address", "rt_sigreturn",
              "openat", "read", "close", "nanosleep", "clock_gettime", "clock_nanosleep", "tgkill", "alarm"}
FAULT_ERRNO = {"mmap": "ENOMEM", "munmap": "ENOMEM", "mprotect": "ENOMEM", "mremap": "ENOMEM", "brk": "ENOMEM", "madvise": "ENOMEM",
               "clone": "EAGAIN", "clone3": "EAGAIN", "futex": "EAGAIN"}


def _marker(rec, ev, k):
    return rec["call"] == "write" and ('\\"ev\\":\\"%s\\",\\"k\\":%d' % (ev, k)) in rec["args"]


def discovered_faults(chk, col, bindir, tier, release=False, tag=""):
    """Self-discovering fault enumeration.  A fault-free run of spawn / thread exit / join (or drop) is
    recorded with EVERY system call traced; whatever system call the code under test issues inside the
    windows [spawn called .. spawn returned] (owner), [join/drop called .. returned] (owner) and
    [closure finished .. task gone] (thread) - whatever its name - is then made to fail, one occurrence
    per run.  Expected: a spawn that returns Err leaves nothing behind, a spawn that returns Ok goes on
    as usual; the thread terminates and join/drop behave as without the fault (a stack whose own munmap
    was made to fail stays mapped by plan of the fault, not as a verdict)."""
    combos = [("vec", "join", "ret"), ("u128", "join", "panic"), ("dv", "drop", "ret")]
    if tier != "quick":
        combos += [("a64d", "drop", "panic"), ("u8", "join", "ret")]
    found = []
    for ty, op, fin in combos:
        script = ["set watchdog=2500", "baseline"] + ["one ty=u8 fin=ret op=join"] * WARM
        script += ["one ty=%s fin=%s op=%s hdelay=%d ck=1" % (ty, fin, op, 3000 if op == "drop" else 0),
                   "one ty=u128 fin=ret op=join", "quiesce"]
        cal = T.run_probe(chk, bindir, "fault-discover-%s-%s-%s%s" % (ty, op, fin, tag), script, strace=True, trace="all", timeout=90)
        o, b, info = T.normalise(cal)
        if not completed(cal, info) or len(o) < WARM + 1:
            col.add(cal, "fault")        # the code under test does not survive the fault-free script: data
            continue
        t = o[WARM]
        k, h = t.k, info["h"]
        recs = cal.strace
        pos = {}
        for r in recs:
            for ev in ("spawn_call", "spawn_ret", "join_call", "join_ret", "drop_call", "drop_ret", "cend", "cpanic"):
                if _marker(r, ev, k):
                    pos[ev] = r["pos"]
        if "spawn_call" not in pos or "spawn_ret" not in pos:
            raise core.ToolError("fault discovery: the probe's event writes are not visible in the strace log (%s)" % sorted(pos))
        windows = [("spawn", h, pos["spawn_call"], pos["spawn_ret"])]
        if op + "_call" in pos and op + "_ret" in pos:
            windows.append((op, h, pos[op + "_call"], pos[op + "_ret"]))
        fin_ev = "cend" if "cend" in pos else "cpanic"
        if t.tid is not None and fin_ev in pos:
            windows.append(("exit", t.tid, pos[fin_ev], 10**12))
        cands = []
        for wname, pid, lo, hi in windows:
            count = {}
            for r in recs:
                if r["pid"] != pid or r["call"].startswith("+"):
                    continue
                if wname == "exit" and r["pos"] < next((x["pos"] for x in recs if x["pid"] == pid), 0):
                    continue
                count[r["call"]] = count.get(r["call"], 0) + 1
                if lo < r["pos"] < hi and r["call"] not in FAULT_SKIP and not T._restarted(r):
                    cands.append((wname, r["call"], count[r["call"]], r["args"][:60]))
        # one run per (window, call, ordinal); a futex wait may be issued a varying number of times: first only
        seen = set()
        for wname, call, ordn, args in cands:
            key = (wname, call) if call == "futex" else (wname, call, ordn)
            if key in seen:
                continue
            seen.add(key)
            err = FAULT_ERRNO.get(call, "ENOMEM")
            # (the owner also waits on futexes of the probe's own mailbox, a varying number of times: for
            # futex every call of the run fails - all waits, the join's included, degrade to polling)
            inject = "%s:error=%s" % (call, err) if call == "futex" else "%s:error=%s:when=%d" % (call, err, ordn)
            r = T.run_probe(chk, bindir, "fault-x-%s-%s-%s-%s%d%s" % (ty, op, wname, call, ordn, tag), script, strace=True,
                            inject=inject, timeout=60,
                            trace=None if call in T.STRACE_SYSCALLS.split(",") else T.STRACE_SYSCALLS + "," + call)
            r.release = release
            o2, b2, info2 = col.add(r, "fault")
            inj = info2.get("injected", [])
            found.append({"scenario": "%s/%s/%s" % (ty, fin, op), "window": wname, "call": call, "occurrence": ordn, "error": err,
                          "args": args, "injected_records": len(inj),
                          "outcome": "crash" if info2.get("crash") else "timeout" if info2.get("timeout") else "completed",
                          "planned_stack_leaks": info2.get("planned_stack_leaks", 0)})
            if completed(r, info2) and not inj:
                raise core.ToolError("discovered fault %s was not injected anywhere" % inject)
    chk.extra["discovered_faults" + tag] = found
    col.flush("faultx" + tag)


def faults(chk, col, bindir, tier, release=False, tag=""):
    """Failure of each system call spawn performs: the (WARM+1)-th clone / stack mmap of the owner
    thread fails (strace fault injection; its counters are per task)."""
    combos = [("vec", "join"), ("u8", "drop")]
    if tier != "quick":
        combos += [("dv", "join"), ("arr", "drop"), ("u8", "keep")]
    for ty, op in combos:
        script = fault_script(ty, op)
        # --- clone: the owner's k-th clone is the k-th spawn
        r = T.run_probe(chk, bindir, "fault-clone-%s-%s%s" % (ty, op, tag), script, strace=True,
                        inject="clone:error=EAGAIN:when=%d" % (WARM + 1), timeout=60)
        r.release = release
        o, b, info = col.add(r, "fault")
        inj = info.get("injected", [])
        if completed(r, info) and (len(inj) != 1 or inj[0]["call"] != "clone" or inj[0]["pid"] != info["h"]):
            raise core.ToolError("clone fault injection did not hit exactly the owner's clone: %s" % inj)
        # --- mmap: find the ordinal of the target stack mmap among the owner's mmaps without injection
        cal = T.run_probe(chk, bindir, "fault-mmap-cal%s" % tag, script, strace=True, timeout=60)
        o2, b2, info2 = T.normalise(cal)
        hm = [x for x in cal.strace if x["pid"] == info2["h"] and x["call"] == "mmap"]
        ssz = info2.get("stack_sz", T.STACK_SZ)
        stackm = [x for x in hm if (", %d," % ssz) in x["args"]]
        if len(stackm) < WARM + 2:
            if not completed(cal, info2):
                # the code under test does not even survive the fault-free script: that run is data
                col.add(cal, "fault")
                continue
            raise core.ToolError("calibration run shows %d stack mmaps" % len(stackm))
        k = hm.index(stackm[WARM]) + 1
        mains = len([x for x in cal.strace if x["pid"] == info2["main"] and x["call"] == "mmap"])
        others = {}
        for x in cal.strace:
            if x["call"] == "mmap" and x["pid"] not in (info2["h"], info2["main"]):
                others[x["pid"]] = others.get(x["pid"], 0) + 1
        if k <= mains or any(v >= k for v in others.values()):
            raise core.ToolError("mmap ordinal %d is ambiguous (main %d, others %s)" % (k, mains, others))
        r = T.run_probe(chk, bindir, "fault-mmap-%s-%s%s" % (ty, op, tag), script, strace=True,
                        inject="mmap:error=ENOMEM:when=%d" % k, timeout=60)
        r.release = release
        o, b, info = col.add(r, "fault")
        inj = info.get("injected", [])
        if completed(r, info) and (len(inj) != 1 or inj[0]["call"] != "mmap" or inj[0]["pid"] != info["h"] or (", %d," % ssz) not in inj[0]["args"]):
            raise core.ToolError("mmap fault injection did not hit exactly the owner's stack mmap: %s" % inj)
    # --- persistent failure: every clone / every mmap of the owner from the (WARM+1)-th spawn on
    # fails (a limit that does not go away): spawn must still return Err - a spawn that retries for
    # ever is a hang inside spawn (watchdog -> timeout event)
    script = fault_script("u8", "join")
    r = T.run_probe(chk, bindir, "fault-clone-persistent%s" % tag, script, strace=True,
                    inject="clone:error=EAGAIN:when=%d+" % (WARM + 1), timeout=90)
    r.release = release
    o, b, info = col.add(r, "fault")
    inj = info.get("injected", [])
    if completed(r, info) and (not inj or any(x["call"] != "clone" or x["pid"] != info["h"] for x in inj)):
        raise core.ToolError("persistent clone fault injection hit something else: %s" % inj[:3])
    cal = T.run_probe(chk, bindir, "fault-mmap-cal2%s" % tag, script, strace=True, timeout=60)
    o2, b2, info2 = T.normalise(cal)
    if completed(cal, info2):
        ssz = info2.get("stack_sz", T.STACK_SZ)
        hm = [x for x in cal.strace if x["pid"] == info2["h"] and x["call"] == "mmap"]
        stackm = [x for x in hm if (", %d," % ssz) in x["args"]]
        mains = len([x for x in cal.strace if x["pid"] == info2["main"] and x["call"] == "mmap"])
        if len(stackm) >= WARM + 1 and hm.index(stackm[WARM]) + 1 > mains:
            k = hm.index(stackm[WARM]) + 1
            r = T.run_probe(chk, bindir, "fault-mmap-persistent%s" % tag, script, strace=True,
                            inject="mmap:error=ENOMEM:when=%d+" % k, timeout=90)
            r.release = release
            o, b, info = col.add(r, "fault")
            inj = info.get("injected", [])
            if completed(r, info) and (not inj or inj[0]["pid"] != info["h"] or (", %d," % ssz) not in inj[0]["args"]):
                raise core.ToolError("persistent mmap fault injection did not start at the owner's stack mmap: %s" % inj[:3])
    else:
        col.add(cal, "fault")
    col.flush("fault" + tag)
