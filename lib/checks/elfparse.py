"""Minimal ELF64 little-endian reader (python struct only) used by the C07 check: section and program
headers, dynamic section, REL/RELA tables, symbol tables, link-time contents of words.  Independent of the
code under test (and of binutils): it is the source of 'what the ELF says' for RelocJudge / VdsoJudge."""
import struct


class Elf:
    def __init__(self, data):
        self.d = data
        if data[:4] != b"\x7fELF" or data[4] != 2 or data[5] != 1:
            raise ValueError("not an ELF64 little-endian image")
        (self.e_type, self.e_machine, _v, self.e_entry, self.e_phoff, self.e_shoff, _fl, _eh, self.e_phentsize, self.e_phnum,
         self.e_shentsize, self.e_shnum, self.e_shstrndx) = struct.unpack_from("<HHIQQQIHHHHHH", data, 16)
        self.phdrs = []
        for i in range(self.e_phnum):
            p_type, p_flags, p_offset, p_vaddr, p_paddr, p_filesz, p_memsz, p_align = struct.unpack_from(
                "<IIQQQQQQ", data, self.e_phoff + i * self.e_phentsize)
            self.phdrs.append(dict(type=p_type, flags=p_flags, offset=p_offset, vaddr=p_vaddr, filesz=p_filesz, memsz=p_memsz, align=p_align))
        self.sections = []
        for i in range(self.e_shnum):
            off = self.e_shoff + i * self.e_shentsize
            if off + 64 > len(data):
                break
            sh_name, sh_type, sh_flags, sh_addr, sh_offset, sh_size, sh_link, sh_info, sh_addralign, sh_entsize = struct.unpack_from(
                "<IIQQQQIIQQ", data, off)
            self.sections.append(dict(name_off=sh_name, type=sh_type, flags=sh_flags, addr=sh_addr, offset=sh_offset, size=sh_size,
                                      link=sh_link, info=sh_info, addralign=sh_addralign, entsize=sh_entsize, index=i))
        if self.sections and self.e_shstrndx < len(self.sections):
            st = self.sections[self.e_shstrndx]
            for s in self.sections:
                s["name"] = self.cstr(st["offset"] + s["name_off"])
        else:
            for s in self.sections:
                s["name"] = b""

    def cstr(self, off):
        end = self.d.find(b"\0", off)
        return self.d[off:end if end >= 0 else len(self.d)]

    def section(self, name):
        if isinstance(name, str):
            name = name.encode()
        for s in self.sections:
            if s["name"] == name:
                return s
        return None

    def vaddr_to_off(self, vaddr):
        for p in self.phdrs:
            if p["type"] == 1 and p["vaddr"] <= vaddr < p["vaddr"] + p["filesz"]:
                return p["offset"] + vaddr - p["vaddr"]
        return None

    def word_at(self, vaddr):
        """link-time content of the 8-byte word at vaddr (0 for .bss / unbacked memory)"""
        off = self.vaddr_to_off(vaddr)
        if off is None or off + 8 > len(self.d):
            return 0
        return struct.unpack_from("<Q", self.d, off)[0]

    def dynamic(self):
        """[(tag, value)] up to and excluding DT_NULL, from the PT_DYNAMIC segment"""
        for p in self.phdrs:
            if p["type"] == 2:
                out = []
                off = p["offset"]
                while off + 16 <= len(self.d):
                    tag, val = struct.unpack_from("<QQ", self.d, off)
                    if tag == 0:
                        break
                    out.append((tag, val))
                    off += 16
                return out
        return []

    def rela_table(self):
        dyn = dict(self.dynamic())
        if 7 not in dyn:
            return []
        off = self.vaddr_to_off(dyn[7])
        n = dyn.get(8, 0) // 24
        return [struct.unpack_from("<QQq", self.d, off + 24 * i) for i in range(n)]     # (offset, info, addend)

    def rel_table(self):
        dyn = dict(self.dynamic())
        if 17 not in dyn:
            return []
        off = self.vaddr_to_off(dyn[17])
        n = dyn.get(18, 0) // 16
        return [struct.unpack_from("<QQ", self.d, off + 16 * i) for i in range(n)]      # (offset, info)

    def symbols(self, secname):
        """[(name, value, size, shndx, info, st_name)] of .symtab / .dynsym"""
        s = self.section(secname)
        if s is None:
            return []
        strs = self.sections[s["link"]]
        out = []
        for i in range(s["size"] // 24):
            st_name, st_info, st_other, st_shndx, st_value, st_size = struct.unpack_from("<IBBHQQ", self.d, s["offset"] + 24 * i)
            out.append((self.cstr(strs["offset"] + st_name), st_value, st_size, st_shndx, st_info, st_name))
        return out
