"""C09 - raw system-call wrappers of rusl: Err iff the kernel answered -4095..-1, errno exact and
positive, success value intact, one issue per invocation (dup2/dup3 may re-issue after -EBUSY).

Specification: specs/Syscall.tla (Decode, projections, issue discipline), SyscallProto.tla (the
protocol as a state machine + the decoding idioms of rusl, model-checked), SyscallGen.tla (TLC
enumerates the fault-plan space), SyscallJudge.tla (TLC judges the recorded invocations).
Instrument: tools/sysinj forces the planned kernel answers into the real wrappers called by
harness/src/bin/sysw.rs and counts the issues."""
import json
import os

from vlib import core
from checks import sysinj_common as SJ
from checks import sysw_table as T

BUDGET = 6
CONFORMING = ["bail_unit", "bail_val", "bail_val32", "bail_valu32", "raw32", "ignore", "dup_minus16", "execve_neg"]
NEGATIVE = ["dup_plus16", "execve_raw"]   # idioms TLC must reject (anti-vacuity; the pinned tree's leads)


def errnos(tier):
    if tier == "quick":
        return sorted(set(range(1, 134)) | set(range(512, 531)) | {4094, 4095})
    return list(range(1, 4096))


def successes(tier):
    """small non-error answers: every errno-sized value matters (dup3 compared with +16)"""
    if tier == "quick":
        return sorted(set(range(0, 134)) | set(range(512, 531)) | {4094, 4095, 4096, 65535, 2147483647})
    return list(range(0, 4097)) + [65535, 2147483647]




def to_int(raw):
    cls, n = raw
    return -n if cls == "neg" else n if cls == "pos" else int(n, 16)


def rep(x):
    """64-bit register value (python int, signed or unsigned) -> class representation of Syscall.tla"""
    x &= (1 << 64) - 1
    if x < (1 << 31):
        return ["pos", x]
    if x > (1 << 64) - (1 << 31):
        return ["neg", (1 << 64) - x]
    return ["big", "%x" % x]


def raw_class(raw, retry):
    cls, n = raw
    if cls == "neg":
        if 1 <= n <= 4095:
            return "errno_ebusy" if (n == 16 and retry == "ebusy") else "errno"
        return "below_errno_range"
    if cls == "pos":
        if n == 0:
            return "zero"
        if n == 16:
            return "success_16"
        return "success_errno_sized" if n <= 4095 else "success_large"
    return "big_unsigned"


def model_check(chk):
    """exhaustive runs of the protocol model; the as-written suspicious idioms must be rejected"""
    out = {}
    for idiom in CONFORMING + NEGATIVE + ["probe"]:
        res = core.run_tlc("SyscallProto_MC.tla", "SyscallProto_MC_%s.cfg" % idiom, workers=2, timeout=300, xmx="1g")
        viol = res.invariant_violated
        if idiom in CONFORMING:
            core.tlc_must_pass(res, "SyscallProto " + idiom)
            chk.add_tlc(res)
        elif not viol:
            raise core.ToolError("SyscallProto_MC_%s: TLC found no violation in a model that has one (vacuous invariant?)\n%s" % (idiom, res.out[-1500:]))
        out[idiom] = {"states": res.distinct, "violated": viol}
    return out


def gen_plans(chk, tier, combos):
    cfg = os.path.join(chk.work, "SyscallGen_%s.cfg" % tier)
    with open(cfg, "w") as f:
        f.write("CONSTANTS\n  Errnos = {%s}\n  Succ = {%s}\n  Combos = {%s}\n" % (
            ", ".join(map(str, errnos(tier))), ", ".join(map(str, successes(tier))), ", ".join('"%s"' % c for c in sorted(combos))))
        f.write("INIT Init\nNEXT Next\nINVARIANTS Emit SelfCheck\nCHECK_DEADLOCK FALSE\n")
    res = core.run_tlc("SyscallGen.tla", cfg, workers=4, timeout=1200, xmx="4g")
    core.tlc_must_pass(res, "SyscallGen")
    chk.add_tlc(res)
    plans = res.printed("P")
    if len(plans) != res.distinct or not plans:
        raise core.ToolError("SyscallGen printed %d plans for %d states" % (len(plans), res.distinct))
    return plans


def execute(chk, bindir, items, tag):
    """items: list of dicts {i, w, raws(list of decimal str), mode}.  Runs them through the real
    wrappers under sysinj, resuming after a re-issue limit / crash.  Returns {i: outcome}."""
    plan = os.path.join(chk.work, "plan_%s.ndjson" % tag)
    core.write_ndjson(plan, items)
    idx = [it["i"] for it in items]
    pos = {i: k for k, i in enumerate(idx)}
    out = {}
    start = idx[0] if idx else 0
    runs = 0
    while idx and start is not None:
        runs += 1
        log = os.path.join(chk.work, "sysinj_%s_%d.ndjson" % (tag, runs))
        rc, so, se, ev = SJ.run_traced([os.path.join(bindir, "sysw"), "run", plan, str(start)], log,
                                       budget=BUDGET, timeout=int(900 * SJ.load_factor()))
        results = {}
        for line in so.splitlines():
            try:
                r = json.loads(line)
                results[r["i"]] = r
            except ValueError:
                pass
        last = None
        for e in ev:
            if e["ev"] == "fwin":
                i = int(e["rest"])
                out[i] = {"ended": "returned", "issues": e["issues"], "forced": e["forced"], "others": e["others"],
                          "res": results.get(i)}
                last = i
            elif e["ev"] == "limit":
                i = idx[pos[last] + 1] if last is not None else start
                out[i] = {"ended": "limit", "issues": e["issues"], "forced": e["forced"], "others": e["others"], "res": None}
                last = i
            elif e["ev"] == "timeout":
                i = idx[pos[last] + 1] if last is not None else start
                out[i] = {"ended": "timeout", "issues": 0, "forced": [], "others": [], "res": None}
                last = i
        if rc == 0:
            break
        if rc not in (3, 4):
            # the driver died inside (or right after) a window: that invocation crashed
            i = idx[pos[last] + 1] if last is not None else start
            if i not in out or out[i].get("res") is None:
                out[i] = {"ended": "crashed", "issues": 0, "forced": [], "others": [], "res": None, "stderr": se[-400:]}
            last = i
        if last is None:
            raise core.ToolError("sysw made no progress (rc=%s): %s" % (rc, se[-1500:]))
        nxt = pos[last] + 1
        start = idx[nxt] if nxt < len(idx) else None
        if runs > 2000:
            raise core.ToolError("too many driver restarts")
    # wall-clock: the only time limit that can end an invocation is the tracer's -t; such an outcome
    # becomes a verdict only if the single invocation, re-run alone with a stretched limit, times out
    # again in 2 of 2 attempts
    if tag != "reconfirm":
        trips = []
        for it in items:
            o = out.get(it["i"])
            if o is None or o["ended"] != "timeout":
                continue
            again = [execute(chk, bindir, [it], "reconfirm").get(it["i"]) for _ in range(2)]
            good = [a for a in again if a is not None and a["ended"] != "timeout"]
            if good:
                out[it["i"]] = good[0]
                trips.append({"w": it["w"], "raws": it["raws"]})
        chk.extra.setdefault("wall_clock_trips_not_reproduced", [])
        chk.extra["wall_clock_trips_not_reproduced"] += trips
    chk.extra["driver_runs_" + tag] = runs
    return out


def result_rec(res):
    if res is None:
        return {"tag": "pending"}
    if res["tag"] == "val":
        return {"tag": "val", "v": rep(int(res["v"]))}
    if res["tag"] == "err":
        return {"tag": "err", "code": res["code"]}
    return {"tag": res["tag"]}


def judge(chk, recs, tag, explain=None):
    """TLC judges the records; with explain = {} it also collects, per wrapper, the set of
    modelled idioms (SyscallIdioms.tla) that explain every one of its records."""
    bad = []
    B = 40000
    for k in range(0, len(recs), B):
        part = recs[k:k + B]
        path = os.path.join(chk.work, "judge_%s_%d.ndjson" % (tag, k))
        core.write_ndjson(path, part)
        res = core.run_tlc("SyscallJudge.tla", "SyscallJudge.cfg", workers=1,
                           env={"TRACE": path, "EXPLAIN": "1" if explain is not None else "0"},
                           timeout=3000, xmx="6g", xss="512m")
        core.tlc_must_pass(res, "SyscallJudge")
        j = res.printed("JUDGED")
        if len(j) != 1 or j[0]["n"] != len(part):
            raise core.ToolError("SyscallJudge did not report on all %d records: %s" % (len(part), res.out[-1500:]))
        chk.add_tlc(res)
        chk.traces += len(part)
        bad += [k + i - 1 for i in j[0]["bad"]]
        if explain is not None:
            ex = res.printed("IDIOMS")
            if len(ex) != 1 or len(ex[0]["of"]) != len(part):
                raise core.ToolError("SyscallJudge did not explain all records")
            names = ex[0]["names"]
            for rec, ks in zip(part, ex[0]["of"]):
                if rec.get("canary"):
                    continue
                cur = {names[i - 1] for i in ks}
                explain[rec["w"]] = cur if rec["w"] not in explain else (explain[rec["w"]] & cur)
    return bad


def vector_ok(plan, rec):
    """python-side comparison with the TLC-generated vector (cross-check of the judge)"""
    if rec["ended"] == "limit":
        return plan["maylimit"] and all(r == ["neg", 16] for r in rec["raws"])
    if rec["ended"] != "returned":
        return False
    n = rec["issues"]
    # the delivered answers beyond the planned ones repeat the last one
    if n not in plan["stops"] and not (n > len(plan["raws"]) and plan["maylimit"]):
        return False
    exp = plan["expect"][min(n, len(plan["raws"])) - 1]
    res = rec["res"]
    if exp["tag"] == "any":
        return True
    if exp["tag"] == "err":
        return res == {"tag": "err", "code": exp["code"]}
    if exp["tag"] == "unit":
        return res == {"tag": "unit"}
    if exp["tag"] == "val":
        return res["tag"] == "val" and (not exp["exact"] or res["v"] == exp["v"])
    return False


def outcome(rec, retry):
    if rec["ended"] == "limit":
        return "reissue_limit"
    if rec["ended"] != "returned":
        return rec["ended"]
    last = rec["raws"][min(rec["issues"], len(rec["raws"])) - 1] if rec["issues"] >= 1 and rec["raws"] else None
    if rec["issues"] != 1 and retry == "none":
        return "reissued" if rec["issues"] > 1 else "not_issued"
    if last is None:
        return "not_issued"
    is_err = last[0] == "neg" and 1 <= last[1] <= 4095
    t = rec["res"]["tag"]
    if is_err:
        if t == "err":
            return "wrong_errno"
        return "error_reported_as_success" if t in ("unit", "val") else "error_without_errno"
    if t in ("err", "errnocode"):
        return "success_reported_as_error"
    if t == "val":
        return "wrong_value"
    return "reissued" if rec["issues"] > 1 else "wrong_result"


def _strace_run(argv, limit):
    """Run strace on the driver in its own process group; after `limit` seconds end it with
    SIGTERM (strace then flushes its log and kills the tracee), then SIGKILL the whole group.
    Returns (stdout, stderr, timed_out)."""
    import signal
    import subprocess
    p = subprocess.Popen(argv, stdout=subprocess.PIPE, stderr=subprocess.PIPE, text=True, start_new_session=True)
    try:
        out, err = p.communicate(timeout=limit)
        return out, err, False
    except subprocess.TimeoutExpired:
        try:
            p.send_signal(signal.SIGTERM)
            out, err = p.communicate(timeout=5)
        except subprocess.TimeoutExpired:
            out, err = "", ""
        try:
            os.killpg(p.pid, signal.SIGKILL)
        except OSError:
            pass
        try:
            o2, e2 = p.communicate(timeout=5)
            out, err = out or o2, err or e2
        except Exception:
            pass
        return out, err, True


def strace_crosscheck(chk, bindir, wrappers, sysinj_results, tier):
    """Independent instrument: the same (wrapper, forced answer) under strace's own injection
    (-e inject=NR:retval=V / error=E).  The decoded result and the number of issues must be the
    ones recorded under tools/sysinj; a disagreement is a fault of the machinery (exit 2)."""
    import shutil
    import subprocess
    if not shutil.which("strace"):
        chk.extra["strace_crosscheck"] = "strace not installed"
        return
    values = [-16, 16, -4096] if tier != "quick" else [-2]
    todo = [w for k, w in enumerate(wrappers) if tier != "quick" or k % 9 == 0]
    exe = os.path.join(bindir, "sysw")
    compared = 0
    uncomparable = []
    for w in todo:
        for val in values:
            if w["retry"] == "ebusy" and val == -16:
                val = -2
            is_err = -4095 <= val <= -1
            if (w["pass"] and not is_err) or (w["kind"] == "noreturn" and not is_err):
                continue
            ref = sysinj_results.get((w["w"], val))
            if ref is None:
                continue
            plan = os.path.join(chk.work, "strace_plan.ndjson")
            core.write_ndjson(plan, [{"i": 0, "w": w["w"], "raws": [str(val)], "mode": "s"}])
            log = os.path.join(chk.work, "strace.log")
            # 1. how many calls of that system call precede the window (libc start-up, plan reading)
            # (run for real, without injection: a wrapper whose real call blocks -- futex wait,
            # pause-like calls -- never returns; the prefix of the log up to the begin marker is
            # all this step needs, so the run is ended after a short limit and is not an error)
            _o, _e, blocked = _strace_run(["strace", "-s", "400", "-o", log, "-e", "trace=%s,write" % w["nr"], exe, "run", plan], 15)
            before, marked = 0, False
            for line in open(log, errors="replace"):
                if line.startswith("write(-1, \"MARK:"):
                    marked = True
                    break
                if line.startswith(w["nr"] + "("):
                    before += 1
            if not marked:
                uncomparable.append("%s %d: no begin marker in the uninjected run%s" % (w["w"], val, " (blocked)" if blocked else ""))
                continue
            if w["nr"] == "write":
                before += 1   # the begin marker is a write itself
            if w["nr"] == "execve":
                before -= 1   # the exec of the driver itself is logged but not counted by strace's `when`
            inj = ("error=%d" % -val) if is_err else ("retval=%d" % (val & ((1 << 64) - 1)))
            out, err, blocked2 = _strace_run(["strace", "-s", "400", "-o", log, "-e", "trace=%s,write" % w["nr"],
                                              "-e", "inject=%s:%s:when=%d" % (w["nr"], inj, before + 1), exe, "run", plan], 60)
            if blocked2:
                uncomparable.append("%s %d: the injected run did not end within 60 s" % (w["w"], val))
                continue
            got = None
            for line in out.splitlines():
                try:
                    got = json.loads(line)
                except ValueError:
                    pass
            issues, inwin = 0, False
            for line in open(log, errors="replace"):
                if line.startswith("write(-1, \"MARK:"):
                    inwin = ":begin:" in line
                elif inwin and line.startswith(w["nr"] + "("):
                    issues += 1
            if got is None:
                raise core.ToolError("strace cross-check: no result for %s %d: %s" % (w["w"], val, err[-500:]))
            a = result_rec(got)
            if a != ref["res"] or issues != ref["issues"]:
                raise core.ToolError("instruments disagree on %s with answer %d: strace %s (%d issues), sysinj %s (%d issues)" % (
                    w["w"], val, a, issues, ref["res"], ref["issues"]))
            compared += 1
    chk.extra["strace_crosscheck"] = {"compared": compared, "disagreements": 0, "uncomparable": uncomparable}


def prepare(chk):
    SJ.build_tracer()
    bindir = core.cargo_build(bins=["sysw"])
    p = core.run_cmd([os.path.join(bindir, "sysw"), "list"])
    wrappers = [json.loads(l) for l in p.stdout.splitlines() if l.strip()]
    return bindir, wrappers


def run(tier):
    chk = core.Check("C09", tier, "fault_enumeration")
    bindir, wrappers = prepare(chk)
    sites = T.scan()
    covered, uncovered, excluded, mismatch = T.coverage(sites, wrappers)
    enum_required, enum_uncovered = T.enum_coverage(wrappers)
    flag_required, flag_uncovered, flag_excluded = T.flag_coverage(wrappers)
    mc = model_check(chk)
    combos = {"%s:%s" % (w["kind"], w["retry"]) for w in wrappers}
    plans = gen_plans(chk, tier, combos)
    by_combo = {}
    for p in plans:
        by_combo.setdefault((p["kind"], p["retry"]), []).append(p)
    nontrivial = set()
    nr_drift = {}
    state = {"disagreements": 0}
    idioms = {}

    def campaign(bdir, by_combo, tag, build):
        items, meta = [], {}
        i = 0
        for w in wrappers:
            for p in by_combo[(w["kind"], w["retry"])]:
                ints = [to_int(r) for r in p["raws"]]
                if w.get("variant"):
                    # argument-variant entries (enum values, flag constants, aliased and degenerate
                    # arguments): every named errno, the basic successes and the boundary values;
                    # thorough: the whole quick answer set (the full range stays with the benign entries)
                    x = ints[-1]
                    if tag != "thorough":
                        keep = len(ints) == 1 and (-133 <= x <= -1 or x in (0, 1, 16, 4096) or abs(x) > 65535 or x in (-4095, -4096, -4097))
                    else:
                        keep = all(abs(y) <= 133 or 512 <= abs(y) <= 530 or 4094 <= abs(y) <= 4097 or abs(y) >= 65535 for y in ints)
                    if not keep:
                        continue
                # a non-error answer for a wrapper that checks what the kernel wrote: run the real call
                last_ok = not (-4095 <= ints[-1] <= -1)
                mode = "p" if (w["pass"] and last_ok and len(ints) == 1) else "s"
                if w["pass"] and last_ok and len(ints) > 1:
                    continue
                items.append({"i": i, "w": w["w"], "raws": [str(x) for x in ints], "mode": mode})
                meta[i] = (w, p)
                i += 1
        out = execute(chk, bdir, items, tag)
        recs, keys = [], []
        for it in items:
            o = out.get(it["i"])
            w, p = meta[it["i"]]
            if o is None:
                raise core.ToolError("no outcome recorded for plan item %s" % it)
            raws = [rep(int(x)) for x in o["forced"]] if o["forced"] else p["raws"]
            recs.append({"w": w["w"], "kind": w["kind"], "retry": w["retry"], "raws": raws, "issues": o["issues"],
                         "ended": o["ended"], "res": result_rec(o["res"])})
            keys.append(it["i"])
            if o["others"]:
                nr_drift.setdefault(w["w"], set()).update(o["others"])
        # anti-vacuity: corrupted copies of recorded invocations must be rejected by the judge
        canaries = []
        for rec in recs:
            if len(canaries) >= 40:
                break
            if rec["ended"] != "returned" or rec["kind"] in ("void", "nofail", "noreturn"):
                continue
            c = json.loads(json.dumps(rec))
            n = len(canaries) % 4
            if n == 0:
                c["issues"] += 1                      # one issue too many
                c["raws"] = c["raws"] + [c["raws"][-1]]
            elif n == 1 and c["res"]["tag"] == "err":
                c["res"]["code"] = -c["res"]["code"]  # errno not negated
            elif n == 2 and c["res"]["tag"] == "err":
                c["res"] = {"tag": "unit"}            # error reported as success
            elif n == 3 and c["res"]["tag"] in ("unit", "val"):
                c["res"] = {"tag": "err", "code": 1}  # success reported as error
            else:
                continue
            c["canary"] = True
            canaries.append(c)
        verdict = judge(chk, recs + canaries, tag, idioms if build == "debug" else None)
        caught = {k - len(recs) for k in verdict if k >= len(recs)}
        if len(caught) != len(canaries) or not canaries:
            raise core.ToolError("SyscallJudge accepted %d of %d corrupted records (vacuous judge)" % (len(canaries) - len(caught), len(canaries)))
        chk.traces -= len(canaries)
        chk.extra["corrupted_records_rejected"] = chk.extra.get("corrupted_records_rejected", 0) + len(canaries)
        bad = {k for k in verdict if k < len(recs)}
        chk.evaluations += len(recs)
        for k, rec in enumerate(recs):
            w, p = meta[keys[k]]
            if any(r != ["pos", 0] for r in rec["raws"]):
                nontrivial.add((rec["w"], json.dumps(p["raws"]), build))
            vok = vector_ok(p, rec)
            if vok != (k not in bad):
                state["disagreements"] += 1
                if state["disagreements"] <= 3:
                    core.log("judge/vector disagreement on", rec, "vector says", vok)
            if k in bad:
                last = rec["raws"][min(max(rec["issues"], 1), len(rec["raws"])) - 1]
                sig = {"w": rec["w"], "class": raw_class(last, rec["retry"]), "outcome": outcome(rec, rec["retry"])}
                if build != "debug":
                    sig["build"] = build
                chk.violate(sig, "%s: kernel answers %s -> %s after %d issue(s), result %s" % (
                    rec["w"], [to_int(r) for r in rec["raws"]], rec["ended"], rec["issues"], json.dumps(rec["res"])),
                    {"item": items[k], "record": rec, "build": build})
            if k % 1499 == 0:
                chk.sample({"w": rec["w"], "forced": [to_int(r) for r in rec["raws"]], "issues": rec["issues"], "result": rec["res"]})
        return recs

    recs = campaign(bindir, by_combo, tier, "debug")
    disagreements = state["disagreements"]
    single = {}
    for rec in recs:
        if len(rec["raws"]) == 1 and rec["ended"] == "returned":
            single[(rec["w"], to_int(rec["raws"][0]))] = rec
    strace_crosscheck(chk, bindir, wrappers, single, tier)
    n_debug = len(recs)
    n_release = 0
    if tier != "quick":
        # the same wrappers compiled with optimisation and without overflow checks (quick answer set)
        rel = core.cargo_build(bins=["sysw"], release=True)
        qplans = gen_plans(chk, "quick", combos)
        qby = {}
        for p in qplans:
            qby.setdefault((p["kind"], p["retry"]), []).append(p)
        n_release = len(campaign(rel, qby, "release", "release"))
        disagreements = state["disagreements"]
    chk.extra["invocations_debug_build"] = n_debug
    chk.extra["invocations_release_build"] = n_release
    if disagreements:
        raise core.ToolError("%d records judged differently by SyscallJudge and by the SyscallGen vectors" % disagreements)
    chk.nontrivial = len(nontrivial)
    chk.exhaustive = True
    chk.rule = ("TLC (SyscallGen.tla) enumerates (result kind, retry discipline) x forced kernel answers: %d errnos, %d small "
                "successes, 10 boundary/large values, and for dup wrappers the same after one and two -EBUSY answers (%d plans); "
                "each plan is forced by tools/sysinj into every rusl wrapper of that kind (%d wrappers, %d invocations), the issue "
                "count and the decoded Result are judged by TLC (SyscallJudge.tla). non-trivial = distinct (wrapper, answers) with an "
                "answer other than plain 0; thorough repeats the quick answer set on a release build"
                % (len(errnos(tier)), len(successes(tier)), len(plans), len(wrappers), n_debug))
    chk.assumptions = [
        "results are forced at the system-call boundary by ptrace; the call itself is suppressed (executed for pipe/pipe2 successes)",
        "success values that the wrapper's result type cannot represent (e.g. 2^31 for an i32) may come back as any Ok value",
        "a dup wrapper may, but need not, re-issue after -EBUSY (the statement allows the retry, it does not demand it)",
        "not reached: exit (never returns), execve's success path, argument marshalling",
    ]
    chk.extra.update({
        "states": chk.states, "transitions": chk.transitions, "traces_validated_against_impl": chk.traces,
        "syscall_sites_x86_64": len(sites), "sites_covered": len(covered),
        "sites_excluded": [{"site": "%s:%s" % (e["file"], e["fn"]), "reason": e["reason"]} for e in excluded],
        "sites_uncovered": ["%s:%d %s" % (u["file"], u["line"], u["fn"]) for u in uncovered],
        "table_nr_mismatch": ["%s:%s" % (m["file"], m["fn"]) for m in mismatch],
        "other_syscalls_seen_in_windows": {k: sorted(v) for k, v in nr_drift.items()},
        "wrappers": len(wrappers), "plans": len(plans), "protocol_models": mc,
        "driver_entries_for_argument_variants": sum(1 for w in wrappers if w.get("variant")),
        "enum_variants_required": len(enum_required), "enum_variants_uncovered": enum_uncovered,
        "flag_constants_required": flag_required, "flag_constants_uncovered": flag_uncovered, "flag_parameters_excluded": flag_excluded,
        # algorithm level: which model-checked idiom of SyscallIdioms.tla explains all records of a wrapper
        "wrapper_idioms": {w: sorted(v) for w, v in sorted(idioms.items())},
        "model_conformance": all(idioms.get(w["w"]) for w in wrappers),
        "wrappers_following_no_modelled_idiom": sorted(w["w"] for w in wrappers if not idioms.get(w["w"])),
    })
    if uncovered:
        chk.assumptions.append("syscall! sites without a driver entry (not checked): " + ", ".join(chk.extra["sites_uncovered"]))
    return chk.finish()


def replay(path):
    rp = json.load(open(path))["replay"]
    chk = core.Check("C09", "quick", "fault_enumeration")
    bindir, wrappers = prepare(chk)
    it = dict(rp["item"], i=0)
    out = execute(chk, bindir, [it], "replay")
    print("replayed:", json.dumps(it), "->", json.dumps(out.get(0)))
    return 0


def selftest():
    return SJ.selftest_seeded("C09")
