"""C20 - parsers derived with ArgParse/Subcommand accept exactly their declared grammar, never panic.

specs/Cli.tla        definition (Render, Admissible = Parse as a set of admissible outcomes, policies for
                     what the derive leaves undocumented), transcription of the generated matcher (MStep),
                     cause-buffer definition
specs/CliShapes.tla  the shape family as data  } both GENERATED from lib/checks/cli_shapes.py; the check is
harness/src/bin/clishapes_gNN.rs ... as real types } a TOOL error if a file differs from a fresh emission
specs/CliGen.tla     TLC: runs the transcription on every argument list (<= MaxLen over the shape's token
                     alphabet) and every rendered assignment x order; prints {s, a, adm, tr, trok, rt}
specs/CliCause.tla   TLC: the 128-byte cause buffer machine = its definition; prints vectors
specs/CliJudge.tla   TLC: judges recorded (shape, args, outcome) lines (non-UTF-8, long, random, mutated)
"""
import json
import os
import random
import re
import time

from vlib import core
from checks import cli_shapes as SH

PID = "C20"
NS = len(SH.SHAPES)


# --------------------------------------------------------------------------------------------
# real outcomes -> the specification's vocabulary
# --------------------------------------------------------------------------------------------
def kind_of(cause, cause_len):
    if cause_len == 0:
        return "Help"
    if cause.startswith("Unrecognized argument"):
        return "Unrecognized"
    if cause.startswith("Expected argument following"):
        return "MissingValue"
    if cause.startswith("Required "):
        return "MissingRequired"
    if cause.startswith("Failed to parse argument") and "utf8" in cause:
        return "BadUtf8"
    if cause.startswith("Failed to convert argument"):
        return "BadValue"
    if cause.startswith("Cause unknown, too many characters"):
        return "Overflow"
    return "Other"


def normalise(r):
    """driver line -> out record {r, v | kind, lvl}"""
    if r["r"] == "ok":
        return {"r": "ok", "v": r["v"]}
    if r["r"] == "err":
        return {"r": "err", "kind": kind_of(r["cause"], r["cause_len"]),
                "lvl": r["lvl"] if r["lvl"] is not None else [0]}
    return {"r": "panic"}     # panic, crash (signal) and hang are all outside the property


def accepts(adm, out):
    """python twin of Cli!Accepts (used on TLC-printed admissible sets)."""
    if out["r"] == "ok":
        return any(a["ok"] and a["v"] == out["v"] for a in adm)
    if out["r"] == "err":
        return any((not a["ok"]) and a["lvl"] == out["lvl"] and
                   (a["kind"] == out["kind"] or a["kind"] == "Any" or out["kind"] in ("Overflow", "Other"))
                   for a in adm)
    return False


def show_tok(t):
    b = bytes(t)
    if len(b) > 24:
        return "<%d bytes %r..>" % (len(b), b[:10])
    return b.decode("utf-8", "backslashreplace")


def show_args(a):
    if len(a) > 14:
        return "[" + ", ".join(repr(show_tok(t)) for t in a[:12]) + ", .. %d tokens in all]" % len(a)
    return "[" + ", ".join(repr(show_tok(t)) for t in a) + "]"


def show_out(o):
    if o["r"] == "ok":
        return "Ok(%s)" % json.dumps(o["v"], separators=(",", ":"))[:160]
    if o["r"] == "err":
        return "Err(%s, help of level %s)" % (o["kind"], o["lvl"])
    return "PANIC"


def show_adm(adm):
    res = []
    for a in adm:
        res.append("Ok(%s)" % json.dumps(a["v"], separators=(",", ":"))[:120] if a["ok"]
                   else "Err(%s,%s)" % (a["kind"], a["lvl"]))
    return "{" + ", ".join(sorted(set(res))) + "}"


def adm_class(adm):
    ks = set()
    for a in adm:
        ks.add("Ok" if a["ok"] else a["kind"])
    return "|".join(sorted(ks))


def out_class(o):
    return "Ok" if o["r"] == "ok" else ("Panic" if o["r"] == "panic" else o["kind"])


def raw_class(raw):
    return {"panic": "Panic", "crash": "Crash", "hang": "Hang"}.get(raw["r"])


# --------------------------------------------------------------------------------------------
# TLC generator runs
# --------------------------------------------------------------------------------------------
def gen(chk, mode, shapes, maxlen, tier, tag, workers=8, timeout=3000):
    cfg = os.path.join(chk.work, "CliGen_%s.cfg" % tag)
    with open(cfg, "w") as f:
        f.write('CONSTANTS\n  Mode = "%s"\n  MaxLen = %d\n  ShapeSel = {%s}\n  Tier = "%s"\n  GridTier = "%s"\n  MaxPerm = %d\n' % (
            mode, maxlen, ", ".join(map(str, shapes)), tier, "mini" if tier == "quick" else "quick", 3 if tier == "quick" else 4))
        f.write("INIT Init\nNEXT Next\nINVARIANTS AtEnd Progress\n")
    res = core.run_tlc("CliGen.tla", cfg, workers=workers, timeout=timeout, xmx="8g")
    core.tlc_must_pass(res, "CliGen " + tag)
    chk.add_tlc(res)
    vecs = res.printed("V")
    if mode == "lists":
        expect = sum(sum(len(SH.alphabet(SH.SHAPES[s - 1])) ** k for k in range(maxlen + 1)) for s in shapes)
        if len(vecs) != expect:
            raise core.ToolError("CliGen %s printed %d vectors, expected %d" % (tag, len(vecs), expect))
    elif not vecs:
        raise core.ToolError("CliGen %s printed no vectors" % tag)
    return vecs


class Drivers:
    """The driver binaries, one per group of shapes, built from /repo's current tree.  A group whose derive
    expansion does not compile is an OUTCOME (`expansion_rejected`), not a tool error: the shapes of the
    family are valid declarations by construction, so there must be a parser."""

    def __init__(self, chk):
        self.chk = chk
        self.rejected = {}          # group -> first error line of the compiler
        ng = len(SH.groups())
        bins = [SH.bin_name(g) for g in range(ng)]
        try:
            self.bindir = core.cargo_build(bins=bins, extra=["--keep-going"])
        except core.ToolError:
            # some expansion does not compile: build group by group to find out which
            self.bindir = None
            for g in range(ng):
                try:
                    self.bindir = core.cargo_build(bins=[bins[g]])
                except core.ToolError as e:
                    msg = str(e)
                    errs = [l for l in msg.splitlines() if l.startswith("error") and "could not compile" not in l]
                    detail = errs[0] if errs else msg.splitlines()[-1]
                    more = [l.strip() for l in msg.splitlines() if "panicked" in l or "message:" in l or l.strip().startswith("= help: message")]
                    self.rejected[g] = (detail + (" / " + more[0] if more else ""))[:400]
            if self.bindir is None:
                raise core.ToolError("no clishapes driver builds: %s" % self.rejected)
        for g, detail in sorted(self.rejected.items()):
            names = [SH.SHAPES[i - 1]["name"] for i in SH.groups()[g]]
            chk.violate({"op": "derive", "got": "expansion_rejected"},
                        "the derive expansion of a valid declaration does not compile (driver %s, shapes %s): %s" % (
                            SH.bin_name(g), ", ".join(names), detail),
                        {"mode": "build", "group": g, "shapes": names, "detail": detail})
        if self.rejected:
            chk.extra["expansion_rejected"] = {SH.bin_name(g): d for g, d in self.rejected.items()}
        self.expansion_warnings()

    def expansion_warnings(self):
        """rustc warnings located INSIDE the expansion of derive(ArgParse) / derive(Subcommand) of a valid
        declaration (unreachable pattern, unused variable, dead code ..) are an outcome: the generated
        matcher has an arm that can never run / a value that is never used.  (The unchanged tree expands
        warning-free; the drivers' own code is outside the derive spans.)  cargo replays the diagnostics of
        fresh units, so this is a second, cheap cargo call with JSON messages."""
        import fcntl
        import subprocess
        inst = os.path.join(core.WORK, "harness-%s" % core.repo_tag())
        bins = [SH.bin_name(g) for g in range(len(SH.groups())) if g not in self.rejected]
        cmd = ["cargo", "build", "--offline", "--keep-going", "--message-format=json"]
        for b in bins:
            cmd += ["--bin", b]
        e = dict(os.environ)
        e["CARGO_NET_OFFLINE"] = "true"
        e.pop("RUSTFLAGS", None)
        lock = open(os.path.join(core.WORK, ".cargo-%s.lock" % core.repo_tag()), "w")
        fcntl.flock(lock, fcntl.LOCK_EX)
        try:
            p = subprocess.run(cmd, cwd=inst, env=e, stdout=subprocess.PIPE, stderr=subprocess.DEVNULL, text=True, timeout=1800)
        finally:
            fcntl.flock(lock, fcntl.LOCK_UN)
            lock.close()
        found = {}
        for l in p.stdout.splitlines():
            try:
                d = json.loads(l)
            except ValueError:
                continue
            if d.get("reason") != "compiler-message" or not d["target"]["name"].startswith("clishapes_g"):
                continue
            m = d["message"]
            if m["level"] != "warning":
                continue
            macros = set()
            for sp in m.get("spans", []):
                x = sp.get("expansion")
                while x:
                    macros.add(x.get("macro_decl_name", ""))
                    x = x["span"].get("expansion")
            if any("ArgParse" in k or "Subcommand" in k for k in macros):
                code = (m.get("code") or {}).get("code") or "warning"
                found.setdefault((d["target"]["name"], code), []).append(m["message"])
        for (b, code), msgs in sorted(found.items()):
            g = int(b[-2:]) - 1
            names = [SH.SHAPES[i - 1]["name"] for i in SH.groups()[g]]
            self.chk.violate({"op": "derive", "got": "expansion_warns", "lint": code},
                             "rustc warns inside the derive expansion of a valid declaration (driver %s, shapes %s): %s: %s (%d x)" % (
                                 b, ", ".join(names), code, msgs[0][:160], len(msgs)),
                             {"mode": "build", "group": g, "shapes": names, "lint": code, "messages": msgs[:5]})
        self.chk.extra["expansion_warnings"] = sum(len(v) for v in found.values())

    def ok(self, s):
        return SH.group_of(s) not in self.rejected

    def exe(self, g):
        return os.path.join(self.bindir, SH.bin_name(g))

    def any_exe(self):
        return self.exe(min(g for g in range(len(SH.groups())) if g not in self.rejected))


def run_driver(chk, drv, vecs, tag):
    """vecs: list of {s, a} -> raw driver lines in the same order; vectors of a shape whose driver does not
    build are answered {"r": "skipped"}."""
    lines = [None] * len(vecs)
    by = {}
    for k, v in enumerate(vecs):
        if drv.ok(v["s"]):
            by.setdefault(SH.group_of(v["s"]), []).append(k)
        else:
            lines[k] = {"i": k, "r": "skipped"}
    for g, ks in sorted(by.items()):
        part = run_driver_one(chk, drv.exe(g), [vecs[k] for k in ks], "%s_g%02d" % (tag, g + 1))
        for k, r in zip(ks, part):
            lines[k] = r
    return lines


def run_driver_one(chk, exe, vecs, tag):
    """vecs: list of {s, a}. -> list of raw driver lines (same order).  A vector on which the real
    parser kills the process (signal) or makes no progress for 10 s (status 43) is data:
    {"r": "crash"|"hang"}; it is pinned down by re-running from the last answered vector with a flush
    after every line, then the run resumes behind it."""
    path = os.path.join(chk.work, "vec_%s.ndjson" % tag)
    with open(path, "w") as f:
        for v in vecs:
            f.write(json.dumps({"s": v["s"], "a": v["a"]}, separators=(",", ":")) + "\n")
    lines = []
    flush = False
    deaths = 0
    while len(lines) < len(vecs):
        cmd = [exe, "parse", path, str(len(lines))] + (["flush"] if flush else [])
        p = core.run_cmd(cmd, timeout=3000, check=False)
        for l in p.stdout.splitlines():
            try:
                r = json.loads(l)
            except ValueError:
                break           # torn last line of a dying process
            if r.get("i") != len(lines):
                raise core.ToolError("clishapes driver answered vector %s where %d was due" % (r.get("i"), len(lines)))
            lines.append(r)
        if p.returncode == 0:
            if len(lines) != len(vecs):
                raise core.ToolError("clishapes driver answered %d of %d vectors" % (len(lines), len(vecs)))
            break
        if p.returncode not in (43,) and p.returncode >= 0:
            raise core.ToolError("clishapes driver failed rc=%s: %s" % (p.returncode, p.stderr[-2000:]))
        if flush:      # the vector after the last answered one is the culprit
            lines.append({"i": len(lines), "r": "hang" if p.returncode == 43 else "crash", "status": p.returncode})
            flush = False
            deaths += 1
            chk.extra["crashes_or_hangs"] = chk.extra.get("crashes_or_hangs", 0) + 1
            if deaths >= 3 or chk.extra["crashes_or_hangs"] > 3:     # enough evidence; every hang costs 10 s twice
                chk.extra["vectors_skipped_after_3_crashes_or_hangs"] = chk.extra.get("vectors_skipped_after_3_crashes_or_hangs", 0) + len(vecs) - len(lines)
                while len(lines) < len(vecs):
                    lines.append({"i": len(lines), "r": "skipped"})
        else:
            flush = True
    return lines


def judge_with_tlc(chk, records, tag):
    """records: [{s, a, out}] -> {index: admissible set} of the rejected ones.  Batches are judged by
    up to 4 TLC processes (1 worker each) side by side."""
    from concurrent.futures import ThreadPoolExecutor
    bad = {}
    B = 1500

    def one(k):
        part = records[k:k + B]
        path = os.path.join(chk.work, "judge_%s_%d.ndjson" % (tag, k))
        core.write_ndjson(path, part)
        res = core.run_tlc("CliJudge.tla", "CliJudge.cfg", workers=1, env={"TRACE": path},
                           timeout=3000, xmx="4g", xss="512m",
                           metadir=os.path.join(core.WORK, "tlc-meta", "CliJudge-%d-%s-%d" % (os.getpid(), tag, k)))
        core.tlc_must_pass(res, "CliJudge")
        j = res.printed("JUDGED")
        if len(j) != 1 or j[0]["n"] != len(part):
            raise core.ToolError("judge did not report on all %d records: %s" % (len(part), res.out[-1500:]))
        adm = {x["i"]: x["adm"] for x in res.printed("BAD")}
        return k, res, {k + i - 1: adm.get(i, []) for i in j[0]["bad"]}

    with ThreadPoolExecutor(max_workers=4) as ex:
        for k, res, b2 in ex.map(one, range(0, len(records), B)):
            chk.add_tlc(res)
            bad.update(b2)
    return bad


ARMS = ["ArmFlag", "ArmOptionNoValue", "ArmOptionValue", "ArmOptionBadValue", "ArmHelp", "TailNoMatch", "TailUnit",
        "TailEnter", "PosNone", "PosAssign", "PosBadValue", "FinishMissing", "FinishOk", "FinishReturn"]


def model_selfcheck(chk, tier):
    """Inside the specification, on every list of a small configuration: the fast computation of the
    admissible set (only the policies a line touches) equals the definition (all policies); a line the
    definition accepts is a rendering of the assignment read off it (accepted language = rendered
    language, the converse of the round trip)."""
    maxlen = 2 if tier == "quick" else 3
    cfg = os.path.join(chk.work, "CliGen_selfcheck.cfg")
    with open(cfg, "w") as f:
        f.write('CONSTANTS\n  Mode = "lists"\n  MaxLen = %d\n  ShapeSel = {%s}\n  Tier = "%s"\n  GridTier = "mini"\n  MaxPerm = 4\n' % (
            maxlen, ", ".join(map(str, range(1, NS + 1))), tier))
        f.write("INIT Init\nNEXT Next\nINVARIANTS FastIsFull InGrammar Progress\n")
    res = core.run_tlc("CliGen.tla", cfg, workers=8, timeout=1800, xmx="6g")
    core.tlc_must_pass(res, "CliGen self-check (FastIsFull, InGrammar)")
    chk.add_tlc(res)
    chk.extra["fast_admissible_equals_definition_on_lists"] = sum(
        sum(len(SH.alphabet(s)) ** k for k in range(maxlen + 1)) for s in SH.SHAPES)


def check_helps(chk, drv):
    """The help text of every struct level names every option literal, positional and command of that
    struct (that is what makes it the relevant help); levels have pairwise different texts."""
    got = {}
    for g in range(len(SH.groups())):
        if g in drv.rejected:
            continue
        p = core.run_cmd([drv.exe(g), "helps"], timeout=120)
        for l in p.stdout.splitlines():
            r = json.loads(l)
            got[(r["s"], tuple(r["lvl"]))] = r["help"]
    n = 0
    for k, shape in enumerate(SH.SHAPES):
        if not drv.ok(k + 1):
            continue
        texts = []
        for lvl, st in SH.walk(shape):
            h = got.get((k + 1, lvl))
            if h is None:
                raise core.ToolError("driver has no help text for shape %d level %s" % (k + 1, lvl))
            texts.append(h)
            want = []
            for f in st["fields"]:
                want += SH.lits(f) if f["kind"] != "positional" else ["[%s]" % f["name"].upper()]
            if st["sub"]:
                want += [SH.pascal_to_kebab(t) for t, _ in st["sub"]["tags"]]
            n += 1
            chk.evaluations += 1
            # help within grammar: every option spelling an option row advertises is a declared literal
            adv = []
            for line in h.splitlines():
                m = re.match(r"^ {2,6}(-{1,2}[^\s,]+(?:, -{1,2}[^\s,]+)*)\s*$", line)
                if m:
                    adv += m.group(1).split(", ")
            declared = set(l for f in st["fields"] if f["kind"] != "positional" for l in SH.lits(f))
            foreign = [a for a in adv if a not in declared]
            if foreign:
                chk.violate({"op": "help_printer", "got": "advertises-undeclared-spelling"},
                            "help text of %s (shape %s) advertises %s, the parser of that level accepts %s" % (
                                st["name"], shape["name"], foreign, sorted(declared)),
                            {"mode": "help", "s": k + 1, "lvl": list(lvl), "help": h, "advertised": adv})
            missing = [w for w in want if w not in h]
            if missing or not h:
                chk.violate({"op": "help_printer", "got": "missing-literal"},
                            "help text of %s (shape %s) does not mention %s" % (st["name"], shape["name"], missing),
                            {"mode": "help", "s": k + 1, "lvl": list(lvl), "help": h, "missing": missing})
            else:
                chk.traces += 1
        if len(set(texts)) != len(texts):
            raise core.ToolError("two levels of shape %s have the same help text: levels cannot be told apart" % shape["name"])
    if (11, ()) in got:
        chk.sample({"help_of": SH.SHAPES[10]["name"], "text": got[(11, ())]})
    return n


# --------------------------------------------------------------------------------------------
# judge inputs: what TLC does not enumerate
# --------------------------------------------------------------------------------------------
def b(s):
    return list(s.encode()) if isinstance(s, str) else list(s)


SPECIAL = [
    [0xFF], [0xC3], [0xE2, 0x82], [0xC0, 0x80], [0xED, 0xA0, 0x80], [0xF4, 0x90, 0x80, 0x80], b("é"), b("x\xffy".encode("latin1")),
    b("+5"), b("007"), b("-0"), b("+0"), b("-2147483648"), b("2147483648"), b("-2147483649"), b("99999999999999999999"),
    b("+"), b("-"), b("--"), b("1e3"), b(" 1"), b("1 "), b("１"), b("0x10"), b("255"), b("256"), b("-256"),
    b("-x"), b("---"), b("-hh"), b("--help=1"), b("-H"), b("help"),
]


def long_tokens(tier):
    t = [b("a" * 95), b("a" * 96), b("a" * 127), b("a" * 128), b("a" * 300), b("--" + "z" * 298), b("9" * 300),
         [0xFF] * 300, b("é" * 150), b("-" * 300)]
    if tier != "quick":
        t += [b("a" * 4096), b("1" * 20000), b("x" * 131071), [0xC3] + b("y" * 70000)]
    return t


def judge_inputs(rng, tier, renders):
    """-> list of {s, a, why}"""
    out = []
    longs = long_tokens(tier)
    n_rand = 40 if tier == "quick" else 600
    for s in range(1, NS + 1):
        shape = SH.SHAPES[s - 1]
        alpha = [b(t) for t in SH.alphabet(shape)]
        litl = [b(t) for t in SH.all_literals(shape)]
        # every special / long token alone, after every literal, and in front
        for n, t in enumerate(SPECIAL + longs):
            out.append({"s": s, "a": [t], "why": "single"})
            # quick: each special token after two of the literals (rotating), thorough: after every literal
            for l in (litl if tier != "quick" else [litl[(n + j) % len(litl)] for j in range(min(2, len(litl)))]):
                out.append({"s": s, "a": [l, t], "why": "after-literal"})
            out.append({"s": s, "a": [t, b("-h")], "why": "before-help"})
        # a field of the user's own type whose FromStr error displays the rejected text char by char:
        # texts ending in a 1..4-byte character, of every length around what is left of the cause buffer
        for lvl, stt in SH.walk(shape):
            if lvl:
                continue
            for f in stt["fields"]:
                if f["rust"] != "Wide":
                    continue
                for n in range(40, 101):
                    for tail in ("x", "\u00e9", "\u20ac", "\U0001f600"):
                        t = b("q" * n + tail)
                        if f["kind"] == "positional":
                            out.append({"s": s, "a": [b("--wide"), b("1"), t], "why": "wide-error"})
                        else:
                            for l in SH.lits(f):
                                out.append({"s": s, "a": [b(l), t], "why": "wide-error"})
        # every literal followed by a non-UTF-8, a long and a plain value; specials in second position
        for l in litl:
            for t in ([0xFF], b("a" * 300), b("x")):
                out.append({"s": s, "a": [l, t], "why": "after-literal"})
        for t in ([0xFF], b("a" * 300), b("-1"), b("256"), b("+5"), [0xC3]):
            out.append({"s": s, "a": [b("x"), t], "why": "second"})
            out.append({"s": s, "a": [b("x"), b("7"), t], "why": "third"})
        # long lines: every option literal of the top level 60 times with a value
        for f in shape["fields"]:
            for l in SH.lits(f):
                grp = [b(l)] if f["kind"] == "flag" else [b(l), b("7")]
                out.append({"s": s, "a": grp * 60, "why": "many"})
        # literal look-alikes
        for l in litl:
            ls = bytes(l).decode()
            for t in (ls + "=1", ls + "x", ls[:-1], ls.upper(), " " + ls, ls + " "):
                out.append({"s": s, "a": [b(t), b("1")], "why": "lookalike"})
        # random lists over alphabet + specials, longer than TLC's bound
        pool = alpha + SPECIAL + longs[:6]
        for _ in range(n_rand):
            k = rng.randint(0, 8)
            out.append({"s": s, "a": [rng.choice(pool if rng.random() < 0.35 else alpha) for _ in range(k)], "why": "random"})
    # valid rendered command lines with one token replaced / dropped / doubled
    rs = list(renders)
    rng.shuffle(rs)
    for v in rs[:(400 if tier == "quick" else 4000)]:
        a = [list(t) for t in v["a"]]
        if not a:
            continue
        i = rng.randrange(len(a))
        m = rng.randint(0, 3)
        if m == 0:
            a[i] = rng.choice(SPECIAL + longs[:6])
        elif m == 1:
            del a[i]
        elif m == 2:
            a.insert(i, list(a[i]))
        else:
            j = rng.randrange(len(a))
            a[i], a[j] = a[j], a[i]
        out.append({"s": v["s"], "a": a, "why": "mutated-render"})
    return out


# --------------------------------------------------------------------------------------------
# the cause buffer
# --------------------------------------------------------------------------------------------
def check_cause(chk, drv, tier):
    cfg = os.path.join(chk.work, "CliCause.cfg")
    with open(cfg, "w") as f:
        f.write("CONSTANTS\n  Mode = \"pieces\"\n  PreSet = {}\n  MaxChars = 0\n  Pieces = {0, 1, 27, 60, 67, 68, 100, 127, 128, 129, 300}\n  MaxPieces = %d\n" % (3 if tier == "quick" else 4))
        f.write("INIT Init\nNEXT Next\nINVARIANTS LenBounded TranscriptionIsDefinition Emit\n")
    res = core.run_tlc("CliCause.tla", cfg, workers=4, timeout=1200)
    core.tlc_must_pass(res, "CliCause")
    chk.add_tlc(res)
    vecs = res.printed("C")
    expect = sum(11 ** k for k in range((3 if tier == "quick" else 4) + 1))
    if len(vecs) != expect:
        raise core.ToolError("CliCause printed %d vectors, expected %d" % (len(vecs), expect))
    # text written character by character (write_char), ending at every offset around the capacity
    maxch = 2 if tier == "quick" else 3
    cfg2 = os.path.join(chk.work, "CliCause_chars.cfg")
    with open(cfg2, "w") as f:
        f.write("CONSTANTS\n  Mode = \"chars\"\n  Pieces = {}\n  MaxPieces = 0\n  PreSet = {%s}\n  MaxChars = %d\n" % (
            ", ".join(map(str, range(116, 134))), maxch))
        f.write("INIT Init\nNEXT Next\nINVARIANTS LenBounded TranscriptionIsDefinition Emit\n")
    res2 = core.run_tlc("CliCause.tla", cfg2, workers=4, timeout=1200)
    core.tlc_must_pass(res2, "CliCause (chars)")
    chk.add_tlc(res2)
    cvecs = res2.printed("C")
    if len(cvecs) != 18 * sum(4 ** k for k in range(1, maxch + 1)):
        raise core.ToolError("CliCause (chars) printed %d vectors" % len(cvecs))
    for v in cvecs:
        v["chars"] = True
    vecs = vecs + cvecs
    path = os.path.join(chk.work, "cause.ndjson")
    core.write_ndjson(path, [{"pieces": v["pieces"], "chars": v.get("chars", False)} for v in vecs])
    p = core.run_cmd([drv.any_exe(), "cause", path], timeout=1200)
    lines = [json.loads(l) for l in p.stdout.splitlines()]
    if len(lines) != len(vecs):
        raise core.ToolError("cause driver answered %d of %d" % (len(lines), len(vecs)))
    nontriv = 0
    drift = []
    for v, l in zip(vecs, lines):
        if v.get("chars"):
            text = "a" * v["pieces"][0] + "".join("x\u00e9\u20ac\U0001f600"[w - 1] for w in v["pieces"][1:])
        else:
            text = "".join(chr(ord("a") + k % 26) * n for k, n in enumerate(v["pieces"]))
        for api in ("str", "fmt"):
            r = l[api]
            chk.evaluations += 1
            chk.traces += 1
            what = None
            if r["via"] == "panic":
                what = "panicked: %s" % r["msg"][:80]
            elif r["len"] > 128 or len(r["text"].encode()) != r["len"]:
                what = "cause length %d / text of %d bytes: outside the 128-byte buffer" % (r["len"], len(r["text"].encode()))
            elif r["help"] != "HELP" or "HELP" not in r["whole"] or r["text"] not in r["whole"]:
                what = "Display of the error does not show help and cause"
            elif r["via"] != v["via"] or r["len"] != v["len"] or (v["via"] == "ok" and r["text"] != text):
                # the wording / exact capacity of the cause is not part of the property: model drift only
                drift.append({"pieces": v["pieces"], "api": api, "real": [r["via"], r["len"]], "model": [v["via"], v["len"]]})
            if what:
                chk.violate({"op": "cause_buffer", "api": "new_cause_" + api, "kind": "panic" if r["via"] == "panic" else "mismatch",
                             "fits": v["via"] == "ok", "by": "write_char" if v.get("chars") else "write_str"},
                            "ArgParseError::new_cause_%s with %s %s %s" % (
                                api, "a prefix + characters of byte lengths" if v.get("chars") else "pieces", v["pieces"], what),
                            {"mode": "cause", "pieces": v["pieces"], "chars": v.get("chars", False), "api": api, "actual": r, "expected": v})
        if sum(v["pieces"]) > 100:
            nontriv += 1
    chk.extra["cause_buffer_drift"] = len(drift)
    if drift:
        chk.extra["cause_buffer_first_drift"] = drift[0]
    return len(vecs), nontriv


# --------------------------------------------------------------------------------------------
def violate(chk, mode, s, a, out, adm, raw, extra=None):
    shape = SH.SHAPES[s - 1]["name"]
    sig = {"op": "arg_parse", "got": raw_class(raw) or out_class(out), "want": adm_class(adm)}
    if extra:
        sig.update(extra)
    chk.violate(sig, "%s::arg_parse(%s) gave %s, the grammar admits %s" % (
                    shape, show_args(a), (raw_class(raw) or "").upper() or show_out(out), show_adm(adm)),
                {"mode": mode, "s": s, "a": a, "actual": raw, "admissible": adm})


def side_checks(chk, s, a, raw):
    """what every error value must satisfy regardless of its kind."""
    if raw["r"] != "err":
        return
    shape = SH.SHAPES[s - 1]["name"]
    if raw["help_len"] == 0:
        chk.violate({"op": "arg_parse", "got": "empty-help"},
                    "%s::arg_parse(%s) returned an error without help text" % (shape, show_args(a)),
                    {"mode": "side", "s": s, "a": a, "actual": raw})
    if raw["lvl"] is None:
        chk.violate({"op": "arg_parse", "got": "foreign-help"},
                    "%s::arg_parse(%s): the error's help text is not the help printer output of any struct of the shape" % (shape, show_args(a)),
                    {"mode": "side", "s": s, "a": a, "actual": raw})
    if not raw["display_ok"] or raw["cause_len"] > 128:
        chk.violate({"op": "arg_parse", "got": "bad-display"},
                    "%s::arg_parse(%s): Display of the error does not show help and cause / cause longer than its buffer (cause_len %d)" % (shape, show_args(a), raw["cause_len"]),
                    {"mode": "side", "s": s, "a": a, "actual": raw})


def run(tier):
    chk = core.Check(PID, tier, "model_checking")
    bad_sync = SH.in_sync()
    if bad_sync:
        raise core.ToolError("shape table and generated files differ (run python3 lib/checks/cli_shapes.py --write): %s" % bad_sync)
    drv = Drivers(chk)
    rng = random.Random(chk.seed)
    shapes = list(range(1, NS + 1))
    maxlen = 3 if tier == "quick" else 4

    model_selfcheck(chk, tier)
    n_help = check_helps(chk, drv)
    core.log("FastIsFull self-check, %d help texts (%.0fs)" % (n_help, time.time() - chk.t0))
    # ---- TLC: transcription vs definition on all lists / all renderings; vectors; real runs.
    # One batch at a time (generate -> run the real parser -> compare -> forget) bounds memory.
    st = {"nontrivial": set(), "drift": 0, "arm_runs": {a: 0 for a in ARMS}, "model_bad": 0, "confirmed_model_bad": 0,
          "per_shape": {}, "n": {"lists": 0, "render": 0}, "i": 0}
    render_sample = []

    def batch(mode, sel, ml, tag):
        vecs = gen(chk, mode, sel, ml, tier, tag)
        lines = run_driver(chk, drv, vecs, "gen_" + tag)
        st["n"][mode] += len(vecs)
        for v, raw in zip(vecs, lines):
            if raw["r"] == "skipped":
                continue
            out = normalise(raw)
            chk.evaluations += 1
            side_checks(chk, v["s"], v["a"], raw)
            model_ok = v["trok"] and v["rt"]
            if not model_ok:
                st["model_bad"] += 1
                chk.extra.setdefault("model_level_failure_first", {"s": v["s"], "args": show_args(v["a"]), "trok": v["trok"], "rt": v["rt"]})
            if accepts(v["adm"], out):
                chk.traces += 1
            else:
                violate(chk, mode, v["s"], v["a"], out, v["adm"], raw)
                if not model_ok:
                    st["confirmed_model_bad"] += 1
            # model conformance: the real parser against the transcription (drift is not a verdict)
            tr = v["tr"]
            same = (out["r"] == "ok" and tr["ok"] and tr["v"] == out["v"]) or \
                   (out["r"] == "err" and not tr["ok"] and tr["lvl"] == out["lvl"] and
                    (tr["kind"] == out["kind"] or out["kind"] in ("Overflow", "Other")))
            if same:
                for a in v["arms"]:
                    st["arm_runs"][a] += 1
            else:
                st["drift"] += 1
                chk.extra.setdefault("first_drift", {"shape": SH.SHAPES[v["s"] - 1]["name"], "args": show_args(v["a"]),
                                                     "transcription": show_adm([tr]), "real": show_out(out)})
            if v["a"]:
                st["nontrivial"].add((v["s"], adm_class(v["adm"]), out_class(out), len(v["a"])))
            ps = st["per_shape"].setdefault(SH.SHAPES[v["s"] - 1]["name"], {"lists": 0, "renderings": 0, "ok": 0, "err": 0})
            ps["lists" if mode == "lists" else "renderings"] += 1
            ps["ok" if out["r"] == "ok" else "err"] += 1
            if st["i"] % 9973 == 0:
                chk.sample({"shape": SH.SHAPES[v["s"] - 1]["name"], "args": show_args(v["a"]), "admissible": show_adm(v["adm"]),
                            "real": show_out(out)})
            st["i"] += 1
            if mode == "render" and (len(render_sample) < 20000 or rng.random() < 0.05):
                render_sample.append({"s": v["s"], "a": v["a"]})
        core.log("%s: %d vectors, real parser run and compared (%.0fs)" % (tag, len(vecs), time.time() - chk.t0))

    bounds = {}
    main = [x for x in shapes if x < SH.GRID_FROM]
    grid = [x for x in shapes if x >= SH.GRID_FROM]
    if tier == "quick":
        batch("lists", main, maxlen, "lists")
        batch("lists", grid, maxlen - 1, "lists_grid")
        bounds = {SH.SHAPES[x - 1]["name"]: (maxlen if x < SH.GRID_FROM else maxlen - 1) for x in shapes}
    else:
        for x in main:
            ml = maxlen + 1 if len(SH.alphabet(SH.SHAPES[x - 1])) <= 10 else maxlen
            bounds[SH.SHAPES[x - 1]["name"]] = ml
            batch("lists", [x], ml, "lists%d" % x)
        batch("lists", grid, maxlen - 1, "lists_grid")
        bounds.update({SH.SHAPES[x - 1]["name"]: maxlen - 1 for x in grid})
    batch("render", shapes, maxlen, "render")
    n_lists, n_render = st["n"]["lists"], st["n"]["render"]
    nontrivial, drift, per_shape, arm_runs = st["nontrivial"], st["drift"], st["per_shape"], st["arm_runs"]
    if st["model_bad"]:
        chk.extra["model_level_failures"] = {"count": st["model_bad"], "confirmed_on_real_code": st["confirmed_model_bad"]}
    chk.extra["transcription_drift"] = drift
    chk.extra["matcher_arm_coverage"] = arm_runs      # real runs that agree with a model run through the arm
    silent = [a for a in ARMS if arm_runs[a] == 0 and not chk.violations]
    if silent:
        raise core.ToolError("arms of the transcribed matcher never exercised by a conforming real run: %s" % silent)
    chk.extra["list_length_bound"] = bounds

    # ---- the cause buffer
    n_cause, nt_cause = check_cause(chk, drv, tier)
    chk.extra["model_conformance"] = drift == 0 and chk.extra["cause_buffer_drift"] == 0

    # ---- judge: non-UTF-8, long, random, mutated
    ji = judge_inputs(rng, tier, render_sample)
    jl = run_driver(chk, drv, ji, "judge")
    recs = []
    keep = [k for k, raw in enumerate(jl) if raw["r"] != "skipped"]
    ji = [ji[k] for k in keep]
    jl = [jl[k] for k in keep]
    for v, raw in zip(ji, jl):
        side_checks(chk, v["s"], v["a"], raw)
        recs.append({"s": v["s"], "a": v["a"], "out": normalise(raw)})
    core.log("judging %d recorded runs (%.0fs)" % (len(recs), time.time() - chk.t0))
    bad = judge_with_tlc(chk, recs, "j")
    chk.evaluations += len(recs)
    chk.traces += len(recs) - len(bad)
    for k, adm in sorted(bad.items()):
        violate(chk, "judge", recs[k]["s"], recs[k]["a"], recs[k]["out"], adm, jl[k], {"input": ji[k]["why"]})
    jclasses = set()
    for v, r in zip(ji, recs):
        jclasses.add((v["s"], v["why"], out_class(r["out"])))

    chk.nontrivial = len(nontrivial) + len(jclasses) + nt_cause
    chk.exhaustive = True
    chk.rule = ("TLC (CliGen.tla) runs the transcribed matcher on every argument list of length <= %s over each of the %d shapes' "
                "token alphabets (%d lists) and on every rendered token assignment x order (all permutations of up to %d argument "
                "groups, rotations + reversal beyond; %d renderings) and prints the "
                "definition's admissible outcome set; every list is run through the real derived parser under catch_unwind and "
                "the outcome (value field by field / error kind + which struct's help text) must be in the set. "
                "%d further lists (non-UTF-8, 95..%d-byte, random, look-alike, mutated renderings) are judged by TLC (CliJudge.tla); "
                "%d cause-buffer piece sequences (CliCause.tla) x 2 constructors. non-trivial = distinct (shape, admissible class, "
                "observed class, length) with a non-empty list + distinct (shape, input class, observed class) of judged lists + "
                "cause sequences longer than 100 bytes"
                % ("%d (%d for the grid shapes)" % (maxlen, maxlen - 1) if tier == "quick"
                   else "%d (%d for alphabets of <= 10 tokens, %d for the grid shapes)" % (maxlen, maxlen + 1, maxlen - 1),
                   NS, n_lists, 3 if tier == "quick" else 4, n_render, len(recs), 300 if tier == "quick" else 131071, n_cause))
    chk.assumptions = [
        "arguments contain no NUL byte (they are NUL-terminated strings handed over by the start-up code)",
        "undocumented points are policies, every policy admitted: a single-valued option given twice (first / last / error), "
        "a dash-prefixed non-literal token where a positional could go (value / unknown option), tokens after a unit command "
        "(outer grammar goes on / only help may follow); when several items of a line are faulty any of their errors is admitted",
        "round trip (mandatory: a rendering admits only Ok(assignment)): option values are arbitrary tokens incl. option-like ones; "
        "positional values are arbitrary tokens (--x, --, -, -1, --opt-like=1, a literal of an enclosing level) except the literals "
        "of the positional's own struct level and -h/--help; ints are rendered canonically. The two-way policy for a dashed token in "
        "positional position only applies to lists that are not renderings",
        "the error kind is read off the cause text by prefix; an unknown or overflowed cause text counts as an error of any kind; "
        "the help text must be the help printer output of the struct level the definition blames",
        "shapes outside the family and compile-time rejections (e.g. Vec<bool>, positional + subcommand) are not reached",
    ]
    chk.extra["shapes"] = per_shape
    chk.extra["tlc_generated_lists"] = n_lists
    chk.extra["tlc_generated_renderings"] = n_render
    chk.extra["tlc_judged_records"] = len(recs)
    chk.extra["cause_buffer_vectors"] = n_cause
    return chk.finish()


def selftest():
    """(1) corrupted records must be rejected by the judge; (2) a stored negative patch must be detected."""
    chk = core.Check(PID, "quick", "model_checking")
    drv = Drivers(chk)

    def tok(x):
        return list(x.encode())
    base = [{"s": 5, "a": [tok("--req-field"), tok("7"), tok("--rep"), tok("1"), tok("--rep"), tok("2")]},
            {"s": 8, "a": [tok("cmd-two"), tok("-h")]},
            {"s": 1, "a": []}]
    raws = run_driver(chk, drv, base, "selftest")
    good = [{"s": v["s"], "a": v["a"], "out": normalise(r)} for v, r in zip(base, raws)]
    corrupt = [json.loads(json.dumps(g)) for g in good]
    corrupt[0]["out"]["v"]["f"][2] = [2]                 # repeated field lost its first value
    corrupt[1]["out"]["lvl"] = []                        # help of the wrong struct level
    corrupt[2]["out"] = {"r": "ok", "v": {"f": [[0]], "sc": []}}   # required option silently defaulted
    corrupt.append({"s": 1, "a": [], "out": {"r": "panic"}})
    bad = judge_with_tlc(chk, good + corrupt, "selftest")
    ok = sorted(bad) == list(range(len(good), len(good) + len(corrupt)))
    print("selftest judge: accepted %d real records, rejected corrupted %s -> %s" % (len(good), sorted(bad), "ok" if ok else "FAILED"))
    if not ok:
        return 2
    patch = os.path.join(core.VERIF, "seeded", "C20-short_alias_dropped", "patch.diff")
    p = core.run_cmd([os.path.join(core.VERIF, "bin", "mutant-test"), patch, PID], timeout=1800, check=False)
    det = p.returncode == 0
    print("selftest negative patch short_alias_dropped: %s" % ("detected" if det else "NOT DETECTED"))
    print("\n".join(p.stdout.splitlines()[-6:]))
    return 0 if det else 2


def replay(path):
    rp = json.load(open(path))["replay"]
    chk = core.Check(PID, "quick", "model_checking")
    drv = Drivers(chk)
    if rp.get("mode") == "build":
        print("expansion rejected now: %s" % (drv.rejected or "nothing"))
        return 1 if drv.rejected else 0
    if rp.get("mode") == "help":
        print(core.run_cmd([drv.exe(SH.group_of(rp["s"])), "helps"]).stdout)
        return 0
    if rp.get("mode") == "cause":
        p = os.path.join(chk.work, "replay_cause.ndjson")
        core.write_ndjson(p, [{"pieces": rp["pieces"], "chars": rp.get("chars", False)}])
        print(core.run_cmd([drv.any_exe(), "cause", p]).stdout)
        return 0
    raw = run_driver(chk, drv, [{"s": rp["s"], "a": rp["a"]}], "replay")[0]
    if raw["r"] == "skipped":
        print("the shape's driver does not build: %s" % drv.rejected)
        return 1
    out = normalise(raw)
    bad = judge_with_tlc(chk, [{"s": rp["s"], "a": rp["a"], "out": out}], "replay")
    shape = SH.SHAPES[rp["s"] - 1]["name"]
    print("replayed %s::arg_parse(%s) -> %s" % (shape, show_args(rp["a"]), show_out(out)))
    if bad:
        print("rejected by CliJudge; admissible: %s" % show_adm(bad[0]))
        return 1
    print("accepted by CliJudge")
    return 0
