"""C10 - every UnixStr/UnixString produced by safe code is NUL-terminated exactly once."""
import os
import random
import shutil

from vlib import core
from checks import ustr_common as U

CTOR_ALPHA = [0, 47, 97, 255]
PATH_ALPHA = [47, 97, 255]
PATH_STRING_OPS = ["path_join", "path_join_fmt", "path_join_fmt_split", "path_join_fmt_chars", "parent_path", "path_file_name"]
# judged exactly (stored bytes = operand + NUL), not only for termination
EXACT_PAIR_OPS = ["string_from_unixstr"]


def run(tier):
    chk = core.Check("C10", tier, "exploration")
    bindir = core.cargo_build(bins=["ustr"])
    nontrivial = set()
    # 1. constructors/conversions over every byte string up to the bound (alphabet with NUL, '/', ASCII, 0xff)
    cl = 4 if tier == "quick" else 6
    cvecs = U.gen_vectors(chk, "ctor", CTOR_ALPHA, cl)
    results, crashes = U.run_driver(chk, bindir, "ctor", cvecs, "c10")
    for i, v in enumerate(cvecs):
        r = results.get(i, {})
        for op in U.CTOR_OPS_RUN:
            if op not in r:
                continue
            chk.evaluations += 1
            act, allowed = r[op], v[U.ALIAS.get(op, op)]
            nontrivial.add((op, tuple(v["b"])))
            if act not in allowed:
                documented_panic = (op == "from_str_checked")   # (its rejection is a panic by contract)
                chk.violate({"op": op, "kind": "panic" if act == [3] and not documented_panic else "mismatch",
                             "shape": "%s->%s" % (U.shape(allowed[0]), U.shape(act))},
                            "%s(%s) produced %s, specification admits %s" % (op, v["b"], act, allowed),
                            {"mode": "ctor", "op": op, "b": v["b"], "actual": act, "allowed": allowed})
        if i % 331 == 0:
            chk.sample({"input": v["b"], "string_try_from_bytes": r.get("string_try_from_bytes"),
                        "str_try_from_bytes": r.get("str_try_from_bytes")})
    # 2. path operations on every operand pair: termination obligation judged by TLC
    pl = 3 if tier == "quick" else 4
    pvecs = U.gen_vectors(chk, "pair", PATH_ALPHA, pl)
    results, crashes2 = U.run_driver(chk, bindir, "pair", pvecs, "c10p")
    recs = []
    for i, v in enumerate(pvecs):
        r = results.get(i, {})
        for op in PATH_STRING_OPS:
            if op in r:
                recs.append(U.rec(op, v["a"], v["b"], r[op], "term"))
        for op in EXACT_PAIR_OPS:
            if op in r and not v["a"]:
                recs.append({"op": op, "a": [], "b": v["b"], "out": r[op], "view": "raw"})
    # literals evaluated at compile time (unix_lit!, UnixStr::EMPTY)
    import json as _json
    for l in core.run_cmd([os.path.join(bindir, "ustr"), "lits"]).stdout.splitlines():
        x = _json.loads(l)
        recs.append({"op": x["op"], "a": x.get("a", []), "b": x["b"], "out": x["out"], "view": "raw"})
    # 3. random long operands (incl. formatted text with interior / trailing NULs for the fmt variants)
    rng = random.Random(chk.seed)
    n_rand = 300 if tier == "quick" else 5000
    L = 64 if tier == "quick" else 300
    rv = U.random_paths(rng, n_rand, L, alpha=(47, 97, 255, 46))
    results, crashes3 = U.run_driver(chk, bindir, "pair", rv, "c10rand")
    for i, v in enumerate(rv):
        r = results.get(i, {})
        for op in PATH_STRING_OPS:
            if op in r:
                recs.append(U.rec(op, v["a"], v["b"], r[op], "term"))
    cv = []
    # every length around the small-buffer sizes an implementation might use (round 8: a
    # 128-byte stack buffer in from_format lost the terminator at exactly 128 bytes of text)
    sweep = range(0, 601) if tier != "quick" else list(range(0, 140)) + list(range(250, 262)) + list(range(506, 520))
    for n in sweep:
        body = [97 + (k % 5) for k in range(n)]
        cv.append({"b": body})
        cv.append({"b": body + [0]})
    # valid multi-byte UTF-8 texts (the &str / format entry points only run on valid UTF-8)
    toks = [[97], [47], [195, 169], [195, 191], [194, 128], [230, 151, 165], [240, 159, 152, 128], [46]]
    for _ in range(n_rand // 2):
        cv.append({"b": sum((rng.choice(toks) for _ in range(rng.randint(1, 12))), [])})
    for _ in range(n_rand):
        n = rng.randint(0, L)
        b = [rng.choice([97, 98, 47, 200, 255]) for _ in range(n)]
        k = rng.randint(0, 3)
        if k == 1:
            b.append(0)
        elif k == 2 and n:
            b[rng.randrange(n)] = 0
        elif k == 3 and n:
            b[rng.randrange(n)] = 0
            b.append(0)
        cv.append({"b": b})
    results, crashes4 = U.run_driver(chk, bindir, "ctor", cv, "c10crand")
    for i, v in enumerate(cv):
        r = results.get(i, {})
        for op in U.CTOR_OPS_RUN:
            if op in r:
                recs.append(U.rec(op, [], v["b"], r[op], "raw"))
    # formatted text with NULs through path_join_fmt
    fv = []
    for _ in range(n_rand // 2):
        a = [rng.choice([97, 47]) for _ in range(rng.randint(0, 6))]
        b = [rng.choice([97, 47, 0]) for _ in range(rng.randint(0, 8))]
        fv.append({"a": a, "b": b})
    results, crashes5 = U.run_driver(chk, bindir, "pair", fv, "c10fmt")
    for i, v in enumerate(fv):
        r = results.get(i, {})
        if "path_join_fmt" in r and 0 in v["b"]:
            recs.append({"op": "path_join_fmt", "a": v["a"], "b": v["b"], "out": r["path_join_fmt"], "view": "raw"})
    # 4. directory-entry names of every length 1..255 read back from a real directory
    d = os.path.join(chk.work, "dirent")
    shutil.rmtree(d, ignore_errors=True)
    os.makedirs(d)
    names = []
    # every length 1..255 in both tiers: d_reclen is rounded up to 8, so every residue of the name
    # length modulo 8 (and every record size) has to occur (a round-3 mutant needed length 5 mod 8)
    lens = list(range(1, 256))
    for n in lens:
        nm = bytes([rng.choice([97, 98, 46, 200, 255, 32]) for _ in range(n - 1)] + [97 + (n % 26)])
        if nm in (b".", b".."):
            nm = b"x" * n
        open(os.path.join(d.encode(), nm), "w").close()
        names.append(nm)
    p = core.run_cmd([os.path.join(bindir, "ustr"), "dirent", d])
    import json
    outs = [json.loads(l)["file_unix_name"] for l in p.stdout.splitlines()]
    remaining = set(names) | {b".", b".."}
    for o in outs:
        chk.evaluations += 1
        content = bytes(U.view(o)[1:]) if o and o[0] == 1 else None
        if content in remaining:
            remaining.discard(content)
            recs.append({"op": "file_unix_name", "a": [], "b": list(content), "out": o, "view": "raw"})
        else:
            chk.violate({"op": "file_unix_name", "kind": "mismatch", "shape": "unknown_name"},
                        "file_unix_name produced %s which names no entry of the directory" % (o,), {"mode": "dirent", "out": o})
    if remaining:
        chk.violate({"op": "file_unix_name", "kind": "mismatch", "shape": "missing_name"},
                    "directory entries never produced: %d" % len(remaining), {"mode": "dirent", "missing": [list(x) for x in remaining][:5]})
    bad = U.judge_with_tlc(chk, recs, "c10")
    chk.evaluations += len(recs)
    for k in bad:
        r = recs[k]
        chk.violate({"op": r.get("via", r["op"]), "kind": "panic" if r["out"] == [3] else "unterminated" if r["view"] == "term" else "mismatch",
                     "shape": U.shape(r["out"])},
                    "%s(a=%s, b=%s) stored %s: rejected by UnixStrJudge (view=%s)" % (r.get("via", r["op"]), r["a"][:40], r["b"][:40], r["out"][:60], r["view"]),
                    {"mode": "judge", "record": r})
    for c, vs, mode in ((crashes, cvecs, "ctor"), (crashes2, pvecs, "pair"), (crashes3, rv, "pair"), (crashes4, cv, "ctor"), (crashes5, fv, "pair")):
        for x in c:
            v = vs[x["crash"]]
            chk.violate({"op": x["op"], "kind": "crash", "shape": U.crash_shape(x)[0]},
                        "%s %s" % (x["op"], U.crash_shape(x)[1]), {"mode": mode, "op": x["op"], "a": v.get("a", []), "b": v["b"]})
    for r in recs:
        nontrivial.add((r["op"], tuple(r["a"]), tuple(r["b"])))
    chk.nontrivial = len(nontrivial)
    chk.exhaustive = True
    chk.rule = ("TLC (UnixStrGen.tla) enumerates every byte string of length <= %d over {NUL,'/',a,0xff} (%d strings) with the "
                "admissible result of 9 constructors/conversions (compared exactly with the stored bytes of the real result), and "
                "every operand pair of length <= %d over {'/',a,0xff} (%d pairs) for the 4 string-producing path operations, whose "
                "stored bytes TLC judges against the termination obligation (UnixStrJudge.tla, view=term); plus random long operands, "
                "formatted text containing NULs and %d directory-entry names of length 1..255. non-trivial = distinct (op, operands)"
                % (cl, len(cvecs), pl, len(pvecs), len(names)))
    chk.assumptions = ["the stored bytes are observed through as_slice(), never as_str()",
                       "unix_lit! is judged through from_str_checked at run time (a compile-time rejection cannot be observed by a running check)"]
    chk.extra["tlc_generated_vectors"] = len(cvecs) + len(pvecs)
    chk.extra["tlc_judged_records"] = len(recs)
    shutil.rmtree(d, ignore_errors=True)
    return chk.finish()


def replay(path):
    import json
    rp = json.load(open(path))["replay"]
    rec = rp.get("record", rp)
    chk = core.Check("C10", "quick", "exploration")
    bindir = core.cargo_build(bins=["ustr"])
    mode = "ctor" if rec.get("op") in U.CTOR_OPS else "pair"
    res, crashes = U.run_driver(chk, bindir, mode, [{"a": rec.get("a", []), "b": rec.get("b", [])}], "replay")
    print("replayed:", res, crashes)
    return 0
