"""Stand-alone entry for the global-allocator part of C03/C04 (`./bin/check GALLOC quick`,
`./bin/mutant-test <patch> GALLOC`): runs lib/checks/galloc_part.py for both properties and prints
their verdict lines (VIOLATION property=C03|C04 ...), WITHOUT writing evidence/C03.json or
evidence/C04.json (those belong to the complete checks c03.py / c04.py, which call the same
`galloc_part.run_part`); its own summary goes to work/GALLOC*/evidence-<pid>.json."""
import json
import os

from vlib import core
from checks import galloc_part


def _one(pid, tier):
    chk = core.Check(pid, tier, "model_checking")
    chk.work = os.path.join(core.WORK, "GALLOC" if core.REPO == "/repo" else "GALLOC-%s" % core.repo_tag(), pid)
    os.makedirs(chk.work, exist_ok=True)

    def write_evidence(nviol, known, _chk=chk):
        with open(os.path.join(_chk.work, "evidence-%s.json" % pid), "w") as fh:
            json.dump({"property_id": pid, "part": "global_allocator", "tier": tier, "violations": nviol,
                       "coverage": _chk.extra, "states": _chk.states, "traces": _chk.traces,
                       "evaluations": _chk.evaluations}, fh, indent=1, default=str)
    chk.write_evidence = write_evidence
    galloc_part.run_part(chk, tier)
    chk.nontrivial = chk.extra["global_allocator_part"]["operations"]
    chk.rule = "operations (alloc / alloc_zeroed / realloc / dealloc) executed through the real global allocator and judged"
    return chk.finish()


def run(tier):
    rc = 0
    for pid in ("C03", "C04"):
        rc = max(rc, _one(pid, tier))
    return rc


def replay(path):
    rp = json.load(open(path))["replay"]
    chk = core.Check("C03", "quick", "model_checking")
    chk.work = os.path.join(core.WORK, "GALLOC", "replay")
    os.makedirs(chk.work, exist_ok=True)
    return galloc_part.replay_plan(chk, rp)


def selftest():
    """Anti-vacuity of the conversion + judge: a recorded clean run is accepted for every invariant;
    the same run with one field corrupted is rejected with the expected invariant."""
    import copy
    from checks import alloc_common as A
    chk = core.Check("C03", "quick", "model_checking")
    chk.work = os.path.join(core.WORK, "GALLOC", "selftest")
    os.makedirs(chk.work, exist_ok=True)
    chk.write_evidence = lambda *a, **k: None
    k = A.code_constants()
    cfg = galloc_part.trace_cfg(chk, k)
    bindir = galloc_part.build()
    small = A.small_classes(k)
    plan1 = {"idx": 0, "threads": 1, "reps": 6, "base": 2, "nblocks": 12, "ops": 40, "seed": 7, "zeroed": 40, "realloc": 30,
             "xfree": 0, "sizes": small, "aligns": [1, 16, 64, 4096], "what": "selftest single"}
    plan2 = dict(plan1, idx=1, threads=4, xfree=1, what="selftest multi")
    good = []
    for p in (plan1, plan2):
        tr, info = galloc_part.to_trace(p, galloc_part.run_probe(chk, bindir, p, "selftest"), len(good))
        good.append(tr)

    def first(tr, pred):
        return next(i for i, e in enumerate(tr) if pred(e))

    cases = [("unchanged single", good[0], None), ("unchanged multi", good[1], None)]
    t = copy.deepcopy(good[0]); i = first(t, lambda e: e["ev"] == "ret" and e["off"] >= 0); t[i]["zero"] = False
    cases.append(("zero flag cleared", t, "Intact"))
    t = copy.deepcopy(good[0]); i = first(t, lambda e: e["ev"] == "call" and e["op"] != "free" and e["align"] >= 64); t[i + 1]["off"] += 8
    cases.append(("over-aligned block shifted by 8", t, "Aligned"))
    t = copy.deepcopy(good[1])
    rets = [j for j, e in enumerate(t) if e["ev"] == "ret" and e["off"] >= 0 and t[j - 1]["op"] in ("malloc", "calloc")]
    t[rets[1]]["off"] = t[rets[0]]["off"]
    t[rets[1] - 1]["align"] = 1
    cases.append(("two live blocks at one address (multi)", t, "Disjoint"))
    t = copy.deepcopy(good[0]); i = first(t, lambda e: e["ev"] == "ret" and t[t.index(e) - 1]["op"] == "malloc"); t[i]["off"] = -1
    cases.append(("null without refusal", t, "NullJustified"))
    t = copy.deepcopy(good[0]); t = [e for e in t if e["ev"] != "end"][:40] + [{"ev": "crash"}]
    cases.append(("crash", t, "Returns"))
    t = copy.deepcopy(good[0])
    grow = 0
    for e in t:
        if e["ev"] == "rep":
            grow += 1 << 20
            e["fp"] += grow
            e["hi"] += grow
    cases.append(("footprint grows 1 MiB per repetition", t, "SteadyState"))
    t = copy.deepcopy(good[0]); i = first(t, lambda e: e["ev"] == "rep")
    t.insert(i, {"ev": "os", "call": "mmap", "size": 600 << 20, "off": (1 << 30) + (300 << 20)})
    cases.append(("600 MiB held", t, "Envelope"))
    events = []
    for n, (name, tr, want) in enumerate(cases):
        tr = copy.deepcopy(tr)
        tr[0]["run"] = n
        events += tr
    runs, bad = A.judge(chk, events, "galloc_selftest", procs=2, cfg=cfg)
    wrong = 0
    for n, (name, tr, want) in enumerate(cases):
        got = sorted({i for b in bad if b["run_index"] == n for i in b["inv"]})
        ok = (want is None and not got) or (want is not None and want in got)
        wrong += 0 if ok else 1
        print("selftest %-42s expected %-14s got %s %s" % (name, want, got, "ok" if ok else "WRONG"))
    print("selftest: %d case(s), %d wrong" % (len(cases), wrong))
    return 0 if wrong == 0 else 2
